#!/venv/bin/python
"""Run the checks against every seeded change under /verif/seeded/<name>/patch.diff.

For each change: `git -C /repo apply patch.diff`, run the property's check (and, with --all, every
check), record exit codes and the reported findings, then `git -C /repo checkout -- .`.
/repo is restored in a finally block; the script refuses to start on a dirty tree.
Writes /verif/seeded/RESULTS.json and prints one line per change.
"""
import argparse
import glob
import json
import os
import re
import subprocess
import sys

REPO = "/repo"
VERIF = os.environ.get("VERIF_DIR", "/verif")


def sh(cmd, **kw):
    return subprocess.run(cmd, shell=True, capture_output=True, text=True, **kw)


def dirty():
    out = sh("git -C %s status --porcelain --untracked-files=no" % REPO).stdout.strip()
    return out


def parallel(a, dirs, claimed):
    import queue
    import tempfile
    import threading
    from concurrent.futures import ThreadPoolExecutor
    trees = queue.Queue()
    made = []
    for _ in range(a.jobs):
        wt = tempfile.mkdtemp(prefix="evals-", dir="/tmp")
        os.rmdir(wt)
        if sh("git -C %s worktree add -q --detach %s HEAD" % (REPO, wt)).returncode:
            print("worktree failed")
            return 2
        made.append(wt)
        trees.put(wt)
    results = {}
    lock = threading.Lock()

    def one(patch):
        name = os.path.basename(os.path.dirname(patch))
        meta = json.load(open(os.path.join(os.path.dirname(patch), "meta.json")))
        prop = meta["property"]
        if meta.get("status") == "obsolete" and not a.names:
            return name, {"property": prop, "obsolete": True}, "%-14s obsolete on the repaired tree (see meta.json)" % name
        wt = trees.get()
        try:
            r = sh("git -C %s apply --whitespace=nowarn %s" % (wt, patch))
            if r.returncode != 0:
                return name, {"property": prop, "applies": False}, "%s: patch does not apply: %s" % (name, r.stderr.strip()[:200])
            res = {"property": prop, "applies": True, "checks": {}}

            def run(t):
                c = sh("cd %s && /venv/bin/python -m sa.check %s --tier %s --no-selfcheck --no-evidence --root %s" % (VERIF, t, a.tier, wt))
                rules = sorted(set(re.findall(r"^\S+: (R-C\d+-\d+) ", c.stdout, flags=re.M)))
                err = [l for l in c.stdout.splitlines() if l.startswith("ANALYSIS-ERROR")]
                res["checks"][t] = {"exit": c.returncode, "rules": rules, "analysis_error": err[:1]}
            run(prop)
            if a.all and res["checks"][prop]["exit"] != 1:         # the other checks matter only when the own one is silent
                for t in claimed:
                    if t != prop:
                        run(t)
        finally:
            sh("git -C %s checkout -- ." % wt)
            trees.put(wt)
        own = res["checks"].get(prop, {})
        others = {k: v["exit"] for k, v in res["checks"].items() if k != prop and v["exit"] != 0}
        line = "%-14s %s own-check exit=%s rules=%s %s%s" % (
            name, prop, own.get("exit"), ",".join(own.get("rules", [])) or "-",
            ("other checks firing: %s" % others) if others else "",
            (" " + own["analysis_error"][0][:150]) if own.get("analysis_error") else "")
        return name, res, line
    try:
        todo = [p_ for p_ in dirs if not a.names or os.path.basename(os.path.dirname(p_)) in a.names]
        with ThreadPoolExecutor(a.jobs) as ex:
            for name, res, line in ex.map(one, todo):
                results[name] = res
                print(line, flush=True)
    finally:
        for wt in made:
            sh("git -C %s worktree remove --force %s" % (REPO, wt))
    out = os.path.join(VERIF, "seeded", "RESULTS.json")
    old = json.load(open(out)) if os.path.exists(out) and a.names else {}
    old.update(results)
    with open(out, "w") as f:
        json.dump(old, f, indent=1, sort_keys=True)
    return 0


def main():
    ap = argparse.ArgumentParser()
    ap.add_argument("names", nargs="*")
    ap.add_argument("--all", action="store_true", help="run every property's check, not only the seeded property")
    ap.add_argument("--tier", default="quick")
    ap.add_argument("--jobs", type=int, default=1, help=">1: seeds are evaluated in parallel, each in a scratch worktree of /repo "
                    "under /tmp (sa.check --root), removed afterwards; 1: the patch is applied to /repo itself and undone")
    a = ap.parse_args()
    if dirty():
        print("refusing: /repo has uncommitted changes:\n" + dirty())
        return 2
    props = [json.loads(l)["id"] for l in open(os.path.join(VERIF, "properties.jsonl"))]
    man = json.load(open(os.path.join(VERIF, "MANIFEST.json")))
    claimed = [c["property_id"] for c in man["checks"]]
    dirs = sorted(glob.glob(os.path.join(VERIF, "seeded", "*", "patch.diff")))
    results = {}
    if a.jobs > 1:
        return parallel(a, dirs, claimed)
    for patch in dirs:
        name = os.path.basename(os.path.dirname(patch))
        if a.names and name not in a.names:
            continue
        meta = json.load(open(os.path.join(os.path.dirname(patch), "meta.json")))
        prop = meta["property"]
        if meta.get("status") == "obsolete" and not a.names:
            print("%-14s obsolete on the repaired tree (see meta.json)" % name)
            results[name] = {"property": prop, "obsolete": True}
            continue
        targets = claimed if a.all else [prop]
        r = sh("git -C %s apply --whitespace=nowarn %s" % (REPO, patch))
        if r.returncode != 0:
            print("%s: patch does not apply: %s" % (name, r.stderr.strip()[:200]))
            results[name] = {"property": prop, "applies": False}
            continue
        try:
            res = {"property": prop, "applies": True, "checks": {}}
            for t in targets:
                c = sh("cd %s && /venv/bin/python -m sa.check %s --tier %s --no-selfcheck" % (VERIF, t, a.tier))
                rules = sorted(set(re.findall(r"^\S+: (R-C\d+-\d+) ", c.stdout, flags=re.M)))
                err = [l for l in c.stdout.splitlines() if l.startswith("ANALYSIS-ERROR")]
                res["checks"][t] = {"exit": c.returncode, "rules": rules, "analysis_error": err[:1]}
            results[name] = res
        finally:
            sh("git -C %s checkout -- ." % REPO)
        own = res["checks"].get(prop, {})
        others = {k: v["exit"] for k, v in res["checks"].items() if k != prop and v["exit"] != 0}
        print("%-14s %s own-check exit=%s rules=%s %s%s" % (
            name, prop, own.get("exit"), ",".join(own.get("rules", [])) or "-",
            ("other checks firing: %s" % others) if others else "",
            (" " + own["analysis_error"][0][:150]) if own.get("analysis_error") else ""))
    if dirty():
        print("ERROR: /repo left dirty")
        return 2
    # regenerate evidence on the clean tree is the caller's business; record results
    out = os.path.join(VERIF, "seeded", "RESULTS.json")
    old = {}
    if os.path.exists(out) and a.names:
        old = json.load(open(out))
    old.update(results)
    with open(out, "w") as f:
        json.dump(old, f, indent=1, sort_keys=True)
    return 0


if __name__ == "__main__":
    sys.exit(main())
