#!/venv/bin/python
"""Run the checks against every seeded change under /verif/seeded/<name>/patch.diff.

For each change: `git -C /repo apply patch.diff`, run the property's check (and, with --all, every
check), record exit codes and the reported findings, then `git -C /repo checkout -- .`.
/repo is restored in a finally block; the script refuses to start on a dirty tree.
Writes /verif/seeded/RESULTS.json and prints one line per change.
"""
import argparse
import glob
import json
import os
import re
import subprocess
import sys

REPO = "/repo"
VERIF = "/verif"


def sh(cmd, **kw):
    return subprocess.run(cmd, shell=True, capture_output=True, text=True, **kw)


def dirty():
    out = sh("git -C %s status --porcelain --untracked-files=no" % REPO).stdout.strip()
    return out


def main():
    ap = argparse.ArgumentParser()
    ap.add_argument("names", nargs="*")
    ap.add_argument("--all", action="store_true", help="run every property's check, not only the seeded property")
    ap.add_argument("--tier", default="quick")
    a = ap.parse_args()
    if dirty():
        print("refusing: /repo has uncommitted changes:\n" + dirty())
        return 2
    props = [json.loads(l)["id"] for l in open(os.path.join(VERIF, "properties.jsonl"))]
    man = json.load(open(os.path.join(VERIF, "MANIFEST.json")))
    claimed = [c["property_id"] for c in man["checks"]]
    dirs = sorted(glob.glob(os.path.join(VERIF, "seeded", "*", "patch.diff")))
    results = {}
    for patch in dirs:
        name = os.path.basename(os.path.dirname(patch))
        if a.names and name not in a.names:
            continue
        meta = json.load(open(os.path.join(os.path.dirname(patch), "meta.json")))
        prop = meta["property"]
        if meta.get("status") == "obsolete" and not a.names:
            print("%-14s obsolete on the repaired tree (see meta.json)" % name)
            results[name] = {"property": prop, "obsolete": True}
            continue
        targets = claimed if a.all else [prop]
        r = sh("git -C %s apply --whitespace=nowarn %s" % (REPO, patch))
        if r.returncode != 0:
            print("%s: patch does not apply: %s" % (name, r.stderr.strip()[:200]))
            results[name] = {"property": prop, "applies": False}
            continue
        try:
            res = {"property": prop, "applies": True, "checks": {}}
            for t in targets:
                c = sh("cd %s && /venv/bin/python -m sa.check %s --tier %s --no-selfcheck" % (VERIF, t, a.tier))
                rules = sorted(set(re.findall(r"^\S+: (R-C\d+-\d+) ", c.stdout, flags=re.M)))
                err = [l for l in c.stdout.splitlines() if l.startswith("ANALYSIS-ERROR")]
                res["checks"][t] = {"exit": c.returncode, "rules": rules, "analysis_error": err[:1]}
            results[name] = res
        finally:
            sh("git -C %s checkout -- ." % REPO)
        own = res["checks"].get(prop, {})
        others = {k: v["exit"] for k, v in res["checks"].items() if k != prop and v["exit"] != 0}
        print("%-14s %s own-check exit=%s rules=%s %s%s" % (
            name, prop, own.get("exit"), ",".join(own.get("rules", [])) or "-",
            ("other checks firing: %s" % others) if others else "",
            (" " + own["analysis_error"][0][:150]) if own.get("analysis_error") else ""))
    if dirty():
        print("ERROR: /repo left dirty")
        return 2
    # regenerate evidence on the clean tree is the caller's business; record results
    out = os.path.join(VERIF, "seeded", "RESULTS.json")
    old = {}
    if os.path.exists(out) and a.names:
        old = json.load(open(out))
    old.update(results)
    with open(out, "w") as f:
        json.dump(old, f, indent=1, sort_keys=True)
    return 0


if __name__ == "__main__":
    sys.exit(main())
