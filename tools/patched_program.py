"""helper for development: Program of /repo with a stored patch (seeded/<name> or benign/<name>) applied in memory"""
import json, os, sys
sys.path.insert(0, "/verif")
from sa.frontend import Program
from sa.seedcorpus import overrides_for


def patched(name, root="/repo"):
    prog = Program(root)
    for d in ("benign", "seeded"):
        p = os.path.join("/verif", d, name, "patch.diff")
        if os.path.exists(p):
            return Program(root, overrides=overrides_for(prog, {"patch": open(p).read()}), base=prog)
    raise SystemExit("no such patch " + name)
