#!/bin/bash
# copy behaviour-preserving changes delivered by sub-agents (/tmp/wr/cXX/BENIGN/<id>/) into /verif/benign/<id>/
for d in /tmp/wr2/c*/BENIGN/C*-b* /tmp/wr2/c*_scratch/BENIGN/C*-b*; do
  [ -f $d/patch.diff ] || continue
  n=$(basename $d); [ -f /verif/benign/$n/patch.orig.diff ] && continue   # rebased by hand: keep
  mkdir -p /verif/benign/$n
  cp $d/patch.diff $d/meta.json /verif/benign/$n/ 2>/dev/null
  [ -f $d/equiv.py ] && cp $d/equiv.py /verif/benign/$n/
  echo $n
done
