#!/bin/bash
# copy behaviour-preserving changes delivered by sub-agents (<root>/cXX/BENIGN/<id>/) into /verif/benign/<id>/
# usage: tools/ingest_benign.sh [root ...]   (default /tmp/wr2 /tmp/wr3)
ROOTS=${@:-/tmp/wr2 /tmp/wr3}
for r in $ROOTS; do
for d in $r/c*/BENIGN/C*-b* $r/c*_scratch/BENIGN/C*-b*; do
  [ -f $d/patch.diff ] || continue
  n=$(basename $d); [ -f /verif/benign/$n/patch.orig.diff ] && continue   # rebased by hand: keep
  mkdir -p /verif/benign/$n
  cp $d/patch.diff $d/meta.json /verif/benign/$n/ 2>/dev/null
  [ -f $d/equiv.py ] && cp $d/equiv.py /verif/benign/$n/
  echo $n
done
done
