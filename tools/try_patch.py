#!/venv/bin/python
"""development helper: run the rules of some properties against /repo with a stored patch applied in memory
usage: tools/try_patch.py <patch name> <Cxx> [<Cxx> ...]"""
import sys
sys.path.insert(0, "/verif")
sys.path.insert(0, "/verif/tools")
from patched_program import patched
from sa.check import analyse


def main():
    name, props = sys.argv[1], sys.argv[2:]
    prog = patched(name)
    for p in props:
        mod, ctx = analyse(p.upper(), prog, "quick", 0)
        print("%s on %s: %d instances, %d findings, inconclusive=%s" % (p, name, len(ctx.instances), len(ctx.findings), ctx.inconclusive))
        for f in ctx.findings:
            print("   ", f.site, f.rule, f.construct, f.message[:300])


main()
