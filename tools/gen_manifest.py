#!/venv/bin/python
"""Regenerate /verif/MANIFEST.json from the rule modules' own metadata."""
import importlib
import json
import os
import sys

sys.path.insert(0, os.path.join(os.path.dirname(os.path.abspath(__file__)), ".."))

NOT_APPLICABLE = {}
PENDING_REASON = "static rules for this property are designed (DESIGN.md §3) but not built yet; not claimed until they are"

BASELINE = "cd /repo && /venv/bin/python -m pytest -ra -q -p no:cacheprovider --timeout=900 --continue-on-collection-errors"


def main():
    from sa import common
    props = [json.loads(l)["id"] for l in open("/verif/properties.jsonl")]
    checks, na, served = [], [], []
    for pid in props:
        if pid in NOT_APPLICABLE:
            na.append({"property_id": pid, "reason": NOT_APPLICABLE[pid]})
            continue
        try:
            mod = importlib.import_module("sa.rules." + pid.lower())
        except ModuleNotFoundError:
            na.append({"property_id": pid, "reason": PENDING_REASON})
            continue
        served.append(pid)
        level = getattr(mod, "LEVEL", "other")
        checks.append({
            "property_id": pid,
            "quick_cmd": "/venv/bin/python -m sa.check %s --tier quick" % pid,
            "thorough_cmd": "/venv/bin/python -m sa.check %s --tier thorough" % pid,
            "evidence_file": "/verif/evidence/%s.json" % pid,
            "replay_cmd_template": "/venv/bin/python -m sa.check %s --replay {path}" % pid,
            "engine": "sa",
            "level_claimed": {"category": level, "text": mod.EXPLANATION + common.EXPLANATION % {"p": pid}, "design_ref": "DESIGN.md §3 " + pid},
            "level_note": getattr(mod, "LEVEL_NOTE", "Decides only the named structural clauses (necessary conditions); "
                                  "the behavioural remainder listed as 'misses' in DESIGN.md is not decided. Trusted: the "
                                  "in-house front end/CFG/normal-form engine under /verif/sa, python's ast, and: ")
            + "; ".join(getattr(mod, "ASSUMPTIONS", [])),
            "technique": getattr(mod, "TECHNIQUE", "static analysis: custom ast/CFG/dataflow rules over /repo's source"),
        })
    man = {
        "version": 1,
        "setup_cmd": "/venv/bin/python -m sa.selfcheck",
        "hooks": {"guard": "PYLIFE_VERIF", "enable": "no instrumentation is needed: the checks read source only",
                  "baseline_off_cmd": BASELINE, "source_commits": [], "add_only": True},
        "engines": [{"name": "sa", "path": "/verif/sa", "serves_properties": served,
                     "kind_free_text": "repository-specific static analyser: python ast + Cython desugarer, resolver, "
                                       "CFG/dominators, def-use inlining, offset/interval/order-table domains, rational "
                                       "normal form with symbolic exponents, sibling diff; no pylife code is executed"}],
        "checks": checks,
        "not_applicable": na,
        "notes": "Exit codes: 0 holds, 1 VIOLATION, 2 ANALYSIS-ERROR (anchor vanished / floor not met / idiom not modelled / "
                 "checker self-validation failed). Known findings: /verif/known_findings.json.",
    }
    with open("/verif/MANIFEST.json", "w") as f:
        json.dump(man, f, indent=1)
    print("MANIFEST: %d checks, %d not_applicable" % (len(checks), len(na)))


if __name__ == "__main__":
    main()
