#!/venv/bin/python
"""Run the rules of every property (or the own property only) against stored changes applied IN MEMORY (no worktree, no
subprocess per check) - the fast way to get first-contact numbers for a batch of new benign / seeded changes.

usage: tools/eval_mem.py benign|seeded [--own] [--jobs N] name [name ...]
prints one line per change: silent / alarm (rules) / undecided (reason); writes nothing."""
import json
import multiprocessing
import os
import sys

sys.path.insert(0, "/verif")
sys.path.insert(0, "/verif/tools")

PROPS = ["C%02d" % i for i in range(1, 21)]
_BASE = []


def one(args):
    kind, name, own = args
    from sa.frontend import Program
    from sa.seedcorpus import overrides_for, PatchDoesNotApply
    from sa.check import load_rules, run_rules
    from sa.report import Ctx, split_known
    if not _BASE:
        _BASE.append(Program("/repo"))
    prog = _BASE[0]
    d = os.path.join("/verif", kind, name)
    try:
        p2 = Program("/repo", overrides=overrides_for(prog, {"patch": open(os.path.join(d, "patch.diff")).read()}), base=prog)
    except PatchDoesNotApply:
        return name, "DOES-NOT-APPLY", {}
    meta = json.load(open(os.path.join(d, "meta.json")))
    props = [meta["property"]] if own else PROPS
    res = {}
    for p in props:
        mod = load_rules(p)
        base_ctx = Ctx(p, prog, "quick", 0)
        run_rules(mod, base_ctx)
        base_keys = {f.key() for f in base_ctx.findings}
        ctx = Ctx(p, p2, "quick", 0)
        run_rules(mod, ctx)
        new = [f for f in ctx.findings if f.key() not in base_keys]
        if new:
            res[p] = ("alarm", sorted({f.rule for f in new}), new[0].message[:160])
        elif ctx.inconclusive and not base_ctx.inconclusive:
            res[p] = ("undecided", [], ctx.inconclusive[:200])
    verdict = "alarm" if any(v[0] == "alarm" for v in res.values()) else ("undecided" if res else "silent")
    return name, verdict, res


def main():
    a = sys.argv[1:]
    kind = a.pop(0)
    own = "--own" in a
    a = [x for x in a if x != "--own"]
    jobs = 8
    if "--jobs" in a:
        i = a.index("--jobs")
        jobs = int(a[i + 1])
        del a[i:i + 2]
    with multiprocessing.Pool(jobs) as pool:
        out = pool.map(one, [(kind, n, own) for n in a], chunksize=1)
    tally = {}
    for name, verdict, res in out:
        tally[verdict] = tally.get(verdict, 0) + 1
        print("%-10s %-10s %s" % (name, verdict, "; ".join("%s %s %s %s" % (p, v[0], ",".join(v[1]), v[2]) for p, v in sorted(res.items()))[:400]))
    print(tally)


if __name__ == "__main__":
    main()
