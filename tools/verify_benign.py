#!/venv/bin/python
"""Confirm a behaviour-preserving change (patch.diff + equiv.py) in a fresh scratch worktree of /repo:
   equiv.py prints the same DIGEST line on the unchanged tree and with the change, and the test suite still passes with the
   change (apart from the always-failing tests of BASELINE.json).  The worktree is removed afterwards.
   usage: verify_benign.py <dir with patch.diff/equiv.py> [--skip-suite]"""
import json
import os
import re
import shutil
import subprocess
import sys
import tempfile


def sh(cmd, **kw):
    return subprocess.run(cmd, shell=True, capture_output=True, text=True, **kw)


def digest(out):
    m = re.findall(r"^DIGEST (\S+)", out, flags=re.M)
    return m[-1] if m else None


def main():
    d = os.path.abspath(sys.argv[1])
    skip = "--skip-suite" in sys.argv
    name = os.path.basename(d)
    wt = tempfile.mkdtemp(prefix="vb-%s-" % name, dir="/tmp")
    os.rmdir(wt)
    r = sh("git -C /repo worktree add -q --detach %s HEAD" % wt)
    if r.returncode:
        print("worktree failed", r.stderr)
        return 2
    out = {"name": name, "repo_head": sh("git -C /repo rev-parse --short HEAD").stdout.strip(),
           "suite_cmd": "cd <scratch worktree> && PYTHONPATH=<wt>/src MPLBACKEND=Agg /venv/bin/python -m pytest -ra -q -p no:cacheprovider "
                        "--timeout=900 --continue-on-collection-errors -n 8"}
    try:
        sh("cp /repo/src/pylife/rainflow_ext*.so %s/src/pylife/" % wt)
        env = "cd %s && PYTHONPATH=%s/src MPLBACKEND=Agg" % (wt, wt)
        eq = os.path.join(d, "equiv.py")
        a = sh("%s /venv/bin/python %s" % (env, eq), timeout=3600)
        out["equiv_clean_exit"] = a.returncode
        out["digest_clean"] = digest(a.stdout)
        ap = sh("git -C %s apply --whitespace=nowarn %s" % (wt, os.path.join(d, "patch.diff")))
        out["applies"] = ap.returncode == 0
        if not out["applies"]:
            out["apply_err"] = ap.stderr[:300]
        else:
            if "extension.pyx" in open(os.path.join(d, "patch.diff")).read():
                b = sh("cd %s && /venv/bin/python setup.py build_ext --inplace" % wt, timeout=1800)
                out["rebuilt_ext"] = b.returncode == 0
            b = sh("%s /venv/bin/python %s" % (env, eq), timeout=3600)
            out["equiv_changed_exit"] = b.returncode
            out["digest_changed"] = digest(b.stdout)
            if not skip:
                t = sh("%s /venv/bin/python -m pytest -ra -q -p no:cacheprovider --timeout=900 "
                       "--continue-on-collection-errors -n 8 2>&1 | tail -40" % env, timeout=3600)
                tail = t.stdout
                failed = re.findall(r"^(?:FAILED|ERROR) (\S+)", tail, flags=re.M)
                always = json.load(open("/root/.vp/BASELINE.json"))["always_fail"]

                def norm(x):
                    return x.replace("/", ".").replace(".py::", "::")
                out["suite_passed"] = int(re.search(r"(\d+) passed", tail).group(1)) if re.search(r"(\d+) passed", tail) else None
                out["suite_failed"] = failed
                out["suite_unexpected_failures"] = [f for f in failed if norm(f) not in always]
                out["suite_summary"] = tail.strip().splitlines()[-1] if tail.strip() else ""
    finally:
        sh("git -C /repo worktree remove --force %s" % wt)
        shutil.rmtree(wt, ignore_errors=True)
    ok = out.get("equiv_clean_exit") == 0 and out.get("applies") and out.get("equiv_changed_exit") == 0 and \
        out.get("digest_clean") is not None and out.get("digest_clean") == out.get("digest_changed") and \
        (skip or (not out.get("suite_unexpected_failures") and (out.get("suite_passed") or 0) >= 1480))
    out["confirmed"] = bool(ok)
    print(json.dumps(out, indent=1))
    return 0 if ok else 1


if __name__ == "__main__":
    sys.exit(main())
