#!/venv/bin/python
"""Run EVERY check against every behaviour-preserving change under /verif/benign/<name>/patch.diff.

The patch is applied in a scratch worktree of /repo (never in /repo itself); every claimed property's check runs against
that tree (`sa.check --root`).  Expected: exit 0 everywhere.  exit 1 = false alarm (must be fixed in the checker);
exit 2 = the analysis could not decide the refactored code (not an alarm, but a robustness gap).  Writes
/verif/benign/RESULTS.json.  The evidence files are rewritten by these runs: regenerate them on the clean tree afterwards."""
import glob
import json
import os
import re
import subprocess
import sys
import tempfile
from concurrent.futures import ThreadPoolExecutor

VERIF = os.environ.get("VERIF_DIR", "/verif")


def sh(cmd, **kw):
    return subprocess.run(cmd, shell=True, capture_output=True, text=True, **kw)


def main():
    names = [a for a in sys.argv[1:] if not a.startswith("-")]
    man = json.load(open(os.path.join(VERIF, "MANIFEST.json")))
    claimed = [c["property_id"] for c in man["checks"]]
    wt = tempfile.mkdtemp(prefix="evalb-", dir="/tmp")
    os.rmdir(wt)
    if sh("git -C /repo worktree add -q --detach %s HEAD" % wt).returncode:
        print("worktree failed")
        return 2
    results = {}
    try:
        for patch in sorted(glob.glob(os.path.join(VERIF, "benign", "*", "patch.diff"))):
            name = os.path.basename(os.path.dirname(patch))
            if names and name not in names:
                continue
            r = sh("git -C %s apply --whitespace=nowarn %s" % (wt, patch))
            if r.returncode:
                print("%s: patch does not apply: %s" % (name, r.stderr.strip()[:200]))
                results[name] = {"applies": False}
                continue
            try:
                def one(t):
                    c = sh("cd %s && /venv/bin/python -m sa.check %s --tier quick --no-selfcheck --no-evidence --root %s" % (VERIF, t, wt))
                    lines = [l for l in c.stdout.splitlines() if re.match(r"^\S+: R-C\d+-\d+ ", l) or l.startswith("ANALYSIS-ERROR")]
                    return t, c.returncode, lines[:4]
                with ThreadPoolExecutor(8) as ex:
                    res = list(ex.map(one, claimed))
            finally:
                sh("git -C %s checkout -- ." % wt)
            alarms = {t: l for t, rc, l in res if rc == 1}
            undecided = {t: l for t, rc, l in res if rc not in (0, 1)}
            results[name] = {"applies": True, "false_alarms": alarms, "undecided": undecided}
            print("%-10s %s" % (name, "silent" if not alarms and not undecided else ""))
            for t, l in alarms.items():
                print("    FALSE ALARM %s: %s" % (t, " | ".join(x[:260] for x in l)))
            for t, l in undecided.items():
                print("    undecided   %s: %s" % (t, " | ".join(x[:260] for x in l)))
    finally:
        sh("git -C /repo worktree remove --force %s" % wt)
    out = os.path.join(VERIF, "benign", "RESULTS.json")
    old = json.load(open(out)) if os.path.exists(out) and names else {}
    old.update(results)
    json.dump(old, open(out, "w"), indent=1, sort_keys=True)
    n = len(results)
    fa = sum(1 for r in results.values() if r.get("false_alarms"))
    ud = sum(1 for r in results.values() if r.get("undecided") and not r.get("false_alarms"))
    print("%d changes: %d silent, %d with a false alarm, %d undecided only" % (n, n - fa - ud, fa, ud))
    return 0


if __name__ == "__main__":
    sys.exit(main())
