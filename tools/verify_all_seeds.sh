#!/bin/bash
# verify every ingested seed that has no verify.json yet (full baseline suite in a scratch worktree each; two at a time)
one() {
  d=$1
  /venv/bin/python /verif/tools/verify_seed.py $d > $d/verify.json.tmp 2>/dev/null; mv $d/verify.json.tmp $d/verify.json
  echo "$(basename $d): $(grep -o '"confirmed": [a-z]*' $d/verify.json)"
}
export -f one
for d in /verif/seeded/C*-*; do
  [ -f $d/verify.json ] || echo $d
done | xargs -P 2 -I{} bash -c 'one {}'
