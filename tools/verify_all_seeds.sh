#!/bin/bash
# verify every ingested seed that has no verify.json yet (full baseline suite in a scratch worktree each)
for d in /verif/seeded/C*-*; do
  if [ ! -f $d/verify.json ]; then
    /venv/bin/python /verif/tools/verify_seed.py $d > $d/verify.json.tmp 2>/dev/null; mv $d/verify.json.tmp $d/verify.json
    echo "$(basename $d): $(grep -o '"confirmed": [a-z]*' $d/verify.json)"
  fi
done
