#!/venv/bin/python
"""Create scratch worktrees of /repo and the task files for a round of fresh sub-agents (one per claimed property).

usage: tools/make_prompts.py seed   <root dir under /tmp> <first number> <second number>     e.g. seed /tmp/wt4 7 8
       tools/make_prompts.py benign <root dir under /tmp> <first number> <second number>     e.g. benign /tmp/wr3 6 7

The task files contain ONLY the property text from properties.jsonl (never anything from /verif) plus the list of sites
earlier rounds already used (from the meta.json the earlier sub-agents wrote themselves), the worktree path, the run command
and the always-failing tests of the baseline.  Each sub-agent is then started with: "Your complete task description is in the
file <root>/prompts/<Cxx>.txt - read it fully first, then carry it out exactly. Work only inside the worktree named there. Do
not read or touch /verif or /repo."  Deliverables: <root>/cXX/SEED/<Cxx>-<n>/ resp. <root>/cXX/BENIGN/<Cxx>-b<n>/; ingest with
tools/ingest_seeds.sh <root> / tools/ingest_benign.sh <root>; remove the worktrees afterwards
(git -C /repo worktree remove --force <root>/cXX)."""
import json
import os
import subprocess
import sys

COMMON = """Your private scratch copy of the repository is the git worktree {wt} (source under {wt}/src/pylife, tests under {wt}/tests). Work ONLY there. Never touch /repo or /verif, never read anything under /verif, and do NOT use `git stash` (the stash is shared between worktrees) - use `git diff > file`, `git checkout -- src`, `git apply file` instead. Never use pkill/killall with a pattern (other agents run the same commands); stop only processes you started, by PID. Put scratch files under {wt}_scratch or /tmp/<your own dir>, not into the worktree's src/tests directories. Run python as: cd {wt} && PYTHONPATH={wt}/src MPLBACKEND=Agg /venv/bin/python ...   (the compiled rainflow extension is already copied into the worktree; if you change src/pylife/stress/rainflow/extension.pyx rebuild with `cd {wt} && /venv/bin/python setup.py build_ext --inplace` and restore the original .so afterwards)."""

SEED = """You are helping to evaluate a verification tool for the Python library pyLife (mechanical fatigue / lifetime assessment). Your job: plant TWO realistic, subtle defects (separately, one at a time) that break the semantic property below while the library still imports and its existing test suite still passes.

{common}

PROPERTY {pid}: {title}
Statement: {statement}
Quantifier: {quant}
Why tests cannot settle it: {why}
Code it is anchored in: {anchors}

What a good defect looks like: the kind of change a maintainer could make by accident in a refactoring, optimisation, 'simplification', robustness tweak or feature addition (wrong comparison or boundary, wrong operand/attribute/source of a value, dropped or reordered step, ordering/tie-breaking/axis/layout mistake, aliasing or state leak, a condition that covers too little, siblings that drift apart, a cache, a unit or scale dependence, wrong default, off-by-one in an accumulation, exception path that leaves state behind, ...). It must need something specific to manifest (an unusual input or data layout, a multi-step sequence of calls on the same object, a fault or exception at a particular point followed by further use, or two cooperating sites that each look fine alone) so that the existing tests - and ordinary use - do not notice at once. Do not weaken or edit tests; change only files under src/pylife. Keep each change small (a few lines). Prefer DIFFERENT KINDS of mistake for your two defects, and prefer functions that the earlier work below did not touch (other files of the anchored code are welcome).

These sites/ideas were ALREADY used by earlier work - pick different functions or at least a clearly different mechanism:
{used}

For each of the two defects deliver a directory {wt}/SEED/{pid}-{n1} and {wt}/SEED/{pid}-{n2} containing:
  * patch.diff  - `git diff` of the change against the unchanged worktree (must apply with `git apply` to a clean checkout),
  * demo.py     - a self-contained script with a `if __name__ == "__main__":` guard (run with the command line above) that exits 0 on the UNCHANGED tree and exits non-zero (assertion) WITH the change; it must check the property itself (e.g. against an independent reference computation or a relation between runs), on the specific input that manifests the defect, and print what it found,
  * meta.json   - {{"property": "{pid}", "summary": ..., "site": "file:function", "needs": "what must be true of the input/calls for the defect to show", "why_tests_miss": ..., "tests_run": "what you ran and what you saw"}}.

Acceptance (check all of it yourself): (1) demo.py exits 0 without the change and non-zero with it; (2) with the change applied the whole test suite passes except the always-failing tests listed below - run exactly:  cd {wt} && PYTHONPATH={wt}/src MPLBACKEND=Agg /venv/bin/python -m pytest -ra -q -p no:cacheprovider --timeout=900 --continue-on-collection-errors -n 4   (takes several minutes, the machine is shared; move the SEED directory out of the worktree while the suite runs, because the suite collects every .py under the root; you may first run only the test files that cover the code you touched, then the whole suite once per defect); (3) after you are done the worktree has NO change applied (git checkout -- src) and only the untracked SEED/ directory remains.
Always-failing tests (ignore these; some of them may pass on this tree, that is fine):
{always}

If a candidate is caught by the tests, discard it and try another. If you notice that the UNCHANGED code already violates the property for some input, do not use that as a seed; mention it in your final message instead (with the input). Finish with a short report: the two sites, what each needs to manifest, the test results.
"""

BENIGN = """You are helping to evaluate a verification tool for the Python library pyLife (mechanical fatigue / lifetime assessment). The tool must stay SILENT on code changes that keep a semantic property true. Your job: make TWO realistic BEHAVIOUR-PRESERVING changes (separately, one at a time) to the code that implements the property below - the kind of change maintainers make all the time - such that the property still holds for every input, the library's observable behaviour is unchanged, and the test suite still passes.

{common}

PROPERTY {pid}: {title}
Statement: {statement}
Quantifier: {quant}
Code it is anchored in: {anchors}

What a good change looks like: a refactoring or equivalent rewrite INSIDE the functions/classes the property is anchored in (not just comments or docstrings): renaming locals / private helpers / parameters of private functions, extracting a helper function or inlining one, re-ordering independent statements, restructuring if/elif/else or early returns, replacing an idiom by an exactly equivalent one (a loop by a comprehension, `a if c else b` by if/else, np.where by boolean masks or the other way round, x**2 by x*x, pd/np spelling variants, a temporary variable introduced or removed, algebraically identical rearrangement that is also floating-point identical), adding input validation that raises only for inputs that were already invalid, improving an error message, adding type hints, moving a constant into a module-level name, splitting a long method, merging duplicated code, a performance tweak that provably returns the same values. Make the two changes DIFFERENT in kind, each should change 5-40 lines of real code. Do NOT change behaviour for any valid input, do not change public names/signatures, do not edit tests; change only files under src/pylife.

Earlier work already changed these sites in these ways - pick OTHER functions of the anchored code where possible, or at least a clearly different kind of change:
{used}

For each change deliver a directory {wt}/BENIGN/{pid}-b{n1} and {pid}-b{n2} containing:
  * patch.diff  - `git diff` of the change against the unchanged worktree (must apply with `git apply` to a clean checkout),
  * equiv.py    - a self-contained script with a `if __name__ == "__main__":` guard (run with the command line above) that exercises the changed code through the public API on MANY inputs (seeded random inputs covering the property's quantifier: different sizes, signs, ties, edge cases - at least 200 cases; keep its run time below 3 minutes) and prints, as its LAST line, `DIGEST <hex>` = a hash over all results (exact bytes if the change is bit-identical, else repr of values rounded to 12 significant digits). The digest must be identical with and without the change,
  * meta.json   - {{"property": "{pid}", "summary": "what was changed and why it is behaviour preserving", "site": "file:function(s)", "kind": "rename|extract|inline|reorder|restructure|idiom|validation|perf|...", "digest": "<hex>", "tests_run": "what you ran and what you saw"}}.

Acceptance (check all of it yourself): (1) equiv.py prints the same DIGEST line without the change and with it; (2) with the change applied the test files that cover the code you touched pass, and the whole test suite passes except the always-failing tests listed below - run the whole suite ONCE per change with exactly:  cd {wt} && PYTHONPATH={wt}/src MPLBACKEND=Agg /venv/bin/python -m pytest -ra -q -p no:cacheprovider --timeout=900 --continue-on-collection-errors -n 4   (takes several minutes, the machine is shared; move the BENIGN directory out of the worktree while the suite runs, because the suite collects every .py under the root); (3) after you are done the worktree has NO change applied (git checkout -- src) and only the untracked BENIGN/ directory remains.
Always-failing tests (ignore these; some of them may pass on this tree, that is fine):
{always}

Finish with a short report: the two sites and kinds of change, digests, test results.
"""


def main():
    mode, root, n1, n2 = sys.argv[1], sys.argv[2].rstrip("/"), sys.argv[3], sys.argv[4]
    assert root.startswith("/tmp/")
    props = {json.loads(l)["id"]: json.loads(l) for l in open("/verif/properties.jsonl")}
    man = json.load(open("/verif/MANIFEST.json"))
    claimed = [c["property_id"] for c in man["checks"]]
    for extra in os.environ.get("EXTRA_PROPS", "").split():
        if extra not in claimed:
            claimed.append(extra)
    if os.environ.get("ONLY_PROPS"):
        claimed = os.environ["ONLY_PROPS"].split()
    base = json.load(open("/root/.vp/BASELINE.json"))
    always = "\n".join("  - " + x for x in base["always_fail"])
    used = {}
    corpus = "/verif/seeded" if mode == "seed" else "/verif/benign"
    for d in sorted(os.listdir(corpus)):
        mf = os.path.join(corpus, d, "meta.json")
        if os.path.exists(mf):
            m = json.load(open(mf))
            if mode == "seed":
                used.setdefault(d.split("-")[0], []).append((m.get("site") or "") + " - " + (m.get("summary", "")[:140]))
            else:
                used.setdefault(d.split("-")[0], []).append((m.get("site") or "")[:150] + " - " + (m.get("kind") or ""))
    os.makedirs(root + "/prompts", exist_ok=True)
    for pid in claimed:
        p = props[pid]
        wt = "%s/%s" % (root, pid.lower())
        subprocess.run("git -C /repo worktree add -q --detach %s HEAD && cp /repo/src/pylife/rainflow_ext*.so %s/src/pylife/" % (wt, wt),
                       shell=True, check=True)
        txt = (SEED if mode == "seed" else BENIGN).format(
            common=COMMON.format(wt=wt), wt=wt, pid=pid, title=p["title"], statement=p["statement"], quant=p["quantifier"]["text"],
            why=p.get("why_tests_cant", ""), anchors=json.dumps(p["anchors"]), used="\n".join("  - " + u for u in used.get(pid, [])),
            n1=n1, n2=n2, always=always)
        open("%s/prompts/%s.txt" % (root, pid), "w").write(txt)
    print(len(os.listdir(root + "/prompts")), "task files in", root + "/prompts")


main()
