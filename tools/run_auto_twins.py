#!/venv/bin/python
"""dev helper: run the automatic behaviour-preserving twins (sa/autotwins.py + alpha renaming) of some / all properties and
print which rule reports something or becomes undecided on which transformation.
usage: tools/run_auto_twins.py [Cxx ...] [--all-checks]   (--all-checks: every property's rules on every twin of every file)"""
import json
import sys
import traceback
from concurrent.futures import ProcessPoolExecutor

sys.path.insert(0, "/verif")


def one(args):
    prop, idx = args
    from sa.frontend import Program
    from sa.check import load_rules, run_rules
    from sa.report import Ctx
    from sa.witness import all_variants, _apply
    mod = load_rules(prop)
    prog = Program()
    base = Ctx(prop, prog)
    run_rules(mod, base)
    bk = {f.key() for f in base.findings}
    v = all_variants(prop, mod, with_private=True)[idx]
    try:
        p2 = _apply(prog, v)
        if p2 is None:
            return prop, v.name, "n/a", ""
        ctx = Ctx(prop, p2)
        run_rules(mod, ctx)
        new = [f for f in ctx.findings if f.key() not in bk]
        if new:
            return prop, v.name, "ALARM", "; ".join("%s %s %s" % (f.rule, f.construct.split(":")[-1], f.message[:140]) for f in new[:3])
        if ctx.inconclusive:
            return prop, v.name, "undecided", ctx.inconclusive[:260]
        return prop, v.name, "silent", ""
    except Exception as e:
        return prop, v.name, "EXC", "%s: %s" % (type(e).__name__, str(e)[:200]) + traceback.format_exc()[-400:]


def main():
    from sa.check import load_rules
    from sa.witness import all_variants
    man = json.load(open("/verif/MANIFEST.json"))
    props = [a.upper() for a in sys.argv[1:] if not a.startswith("-")] or [c["property_id"] for c in man["checks"]]
    jobs = []
    for p in props:
        mod = load_rules(p)
        for i, v in enumerate(all_variants(p, mod, with_private=True)):
            if v.name.startswith("auto:"):
                jobs.append((p, i))
    tally = {}
    with ProcessPoolExecutor(12) as ex:
        for prop, name, verdict, detail in ex.map(one, jobs, chunksize=1):
            tally[verdict] = tally.get(verdict, 0) + 1
            if verdict not in ("silent", "n/a"):
                print("%s  %-60s %s  %s" % (prop, name[:60], verdict, detail))
    print(tally)


main()
