#!/venv/bin/python
"""dev helper: run the automatic alpha-renaming twins of one property in-process and print what changes"""
import sys, traceback
sys.path.insert(0, "/verif")
from sa.frontend import Program
from sa.check import load_rules, run_rules
from sa.report import Ctx
from sa.witness import all_variants, _apply

prop = sys.argv[1]
mod = load_rules(prop)
prog = Program()
base = Ctx(prop, prog); run_rules(mod, base)
bk = {f.key() for f in base.findings}
print("base: inconclusive=%s findings=%d" % (base.inconclusive, len(base.findings)))
for v in all_variants(prop, mod):
    if not v.name.startswith("auto:"):
        continue
    try:
        p2 = _apply(prog, v)
        if p2 is None:
            print(v.name, "-> not applicable"); continue
        ctx = Ctx(prop, p2)
        mod.run(ctx)
        try:
            ctx.check_floors()
        except Exception as e:
            ctx.inconclusive_rules.append(str(e))
        new = [f for f in ctx.findings if f.key() not in bk]
        print(v.name, "->", "inconclusive: %s" % ctx.inconclusive_rules if ctx.inconclusive_rules else "", [(f.rule, f.message[:150]) for f in new] or "silent")
    except Exception as e:
        traceback.print_exc()
        print(v.name, "-> EXC", e)
