#!/bin/bash
# copy finished seed deliverables from the sub-agents' scratch worktrees into /verif/seeded/
for d in /tmp/wt/c*/SEED/C*-* /tmp/wt2/c*/SEED/C*-* /tmp/wt3/c*/SEED/C*-*; do
  n=$(basename $d)
  if [ -f $d/patch.diff ] && [ -f $d/demo.py ] && [ -f $d/meta.json ] && [ ! -d /verif/seeded/$n ]; then
    mkdir -p /verif/seeded/$n && cp $d/patch.diff $d/demo.py $d/meta.json /verif/seeded/$n/ && echo "ingested $n"
  fi
done
