#!/bin/bash
# copy finished seed deliverables from the sub-agents' scratch worktrees (<root>/cXX/SEED/<id>/) into /verif/seeded/
# usage: tools/ingest_seeds.sh [root ...]   (default /tmp/wt4)
ROOTS=${@:-/tmp/wt4}
for r in $ROOTS; do
for d in $r/c*/SEED/C*-* $r/c*_scratch/SEED/C*-*; do
  n=$(basename $d)
  if [ -f $d/patch.diff ] && [ -f $d/demo.py ] && [ -f $d/meta.json ] && [ ! -d /verif/seeded/$n ]; then
    mkdir -p /verif/seeded/$n && cp $d/patch.diff $d/demo.py $d/meta.json /verif/seeded/$n/ && echo "ingested $n"
  fi
done
done
