#!/bin/bash
# confirm every behaviour-preserving change that has no verify.json yet: digest with / without the change in a fresh scratch
# worktree (pass --suite to run the full baseline suite with the change as well; the sub-agents ran it when they made the change)
MODE=${1:---skip-suite}
[ "$MODE" = "--suite" ] && MODE=""
one() {
  d=$1
  /venv/bin/python /verif/tools/verify_benign.py $d $2 > $d/verify.json.tmp 2>/dev/null; mv $d/verify.json.tmp $d/verify.json
  echo "$(basename $d): $(grep -o '"confirmed": [a-z]*' $d/verify.json)"
}
export -f one
for d in /verif/benign/C*-b*; do
  [ -f $d/verify.json ] || echo $d
done | xargs -P 2 -I{} bash -c "one {} $MODE"
