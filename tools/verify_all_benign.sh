#!/bin/bash
# confirm every behaviour-preserving change that has no verify.json yet (digest with/without + full baseline suite; two at a time)
one() {
  d=$1
  /venv/bin/python /verif/tools/verify_benign.py $d > $d/verify.json.tmp 2>/dev/null; mv $d/verify.json.tmp $d/verify.json
  echo "$(basename $d): $(grep -o '"confirmed": [a-z]*' $d/verify.json)"
}
export -f one
for d in /verif/benign/C*-b*; do
  [ -f $d/verify.json ] || echo $d
done | xargs -P 3 -I{} bash -c 'one {}'
