"""Rule families evaluated for EVERY property over the source files the property is anchored in (design §11.2, round 6).

Six rounds of seeded changes showed the same few kinds of mistake at ever new places; a rule written for the place of the last
seed does not see the next one.  These families are therefore not tied to a function: they run over all functions / classes of
the anchored files of the property (properties.jsonl -> anchors.files) and compare with the instances confirmed on the pinned
tree (ACCEPTED, one reason each).  Rule ids: R-Cxx-90 absolute tolerance on data, R-Cxx-91 numeric value replaced when it is
zero (`x or default`), R-Cxx-92 np.vectorize without otypes, R-Cxx-93 state shared between objects / calls (sa/statefam.py S1-S4).
A construct is reported only if it is new with respect to ACCEPTED; each family has a built-in positive example.
"""
from __future__ import annotations

import ast
import json
import os

from . import VERIF
from . import statefam, tolerance
from .astutil import call_name, const_value
from .frontend import AnalysisError, walk_function
from .report import norm_text

# (module, kind, literal or key) -> reason ; confirmed by reading on the pinned tree
ACCEPTED_TOLERANCES = {
    ("pylife.mesh.surface", "offset", "1e-05"): "solid angle (dimensionless) compared with 4 pi",
    ("pylife.strength.fkm_nonlinear.damage_calculator", "threshold", "1e-13"): "guards a division by a difference of logarithms (dimensionless)",
    ("pylife.strength.fkm_nonlinear.damage_calculator", "threshold", "1e-10"): "spread of log bin sizes (dimensionless)",
    ("pylife.stress.rainflow.fkm_nonlinear", "offset", "1e-12"): "HCM load comparisons; decided by R-C05-10 (tolerance in HCM decisions)",
    ("pylife.stress.rainflow.fkm_nonlinear", "offset", "0.1"): "HCM load comparisons; decided by R-C05-10",
    ("pylife.stress.rainflow.fkm_nonlinear:FKMNonlinearHysteresisPlotter", "close", None): "plotting helper (which interpolated branch is drawn), not part of the counting",
}
CONFIG_ATTRS = ("P_A", "P_L", "P_R", "failure_probability")          # probabilities / switches, not data with a unit
EXPLANATION = (
    " Shared rule families over all functions and classes of the files this property is anchored in (sa/common.py; a construct "
    "is reported only if it is new with respect to the instances confirmed on the pinned tree): R-%(p)s-90 no absolute "
    "tolerance on data (closeness test with an absolute part, comparison with / addition of a small fixed number, rounding to "
    "fixed digits); R-%(p)s-91 no numeric argument or attribute is replaced by a default when it is zero (`x or 0.3`, "
    "`x if x else d`, `if not x: x = d`); R-%(p)s-92 no np.vectorize without otypes (the element type of the result is "
    "taken from the first element); R-%(p)s-93 no state shared between objects or calls (mutable class attribute changed "
    "through an instance, store into an attribute object of a shallow copy, memo keyed by a part of its argument, memoised "
    "object handed out); R-%(p)s-94 an optional parameter of the same name has the same default in all public methods of "
    "a class (cycles(..., failure_probability=0.5) / load(..., failure_probability=0.5)); R-%(p)s-95 a method that accepts an "
    "option and calls another method of its object accepting the same option passes it on (rtol / tol / failure_probability not "
    "silently replaced by the callee's default); R-%(p)s-96 a public function or method does not write into an argument "
    "(augmented assignment, item / attribute store, out=, inplace=True on the parameter or an np.asarray view of it; a parameter "
    "that is re-bound in the function is exempt) - the same array handed over twice must give the same result twice; "
    "R-%(p)s-97 the element type of a result or work array is not taken from ONE operand (`x.dtype` read from a value: "
    "np.zeros(..., dtype=s11.dtype), .astype(first.dtype)) - an integer-typed first operand then truncates the others; "
    "R-%(p)s-98 a public method reaches no explicit raise / assert after it has already stored to an attribute of its object "
    "(a refused call leaves the object changed).")


def anchored_modules(prog, prop):
    files = []
    for l in open(os.path.join(VERIF, "properties.jsonl")):
        rec = json.loads(l)
        if rec["id"] == prop:
            files = [f for f in rec["anchors"]["files"] if f.endswith((".py", ".pyx"))]
    mods = [m for m in prog.modules.values() if m.path in files]
    if not mods:
        raise AnalysisError("no anchored python module of %s found in the tree" % prop)
    return mods


def _literal(node):
    for n in ast.walk(node):
        c = const_value(n)
        if isinstance(c, float) and c != 0 and abs(c) <= 1e-2:
            return repr(c)
    return None


def _discrete_valued(fi, e, depth=0):
    """the expression only takes values from {-1, 0, 1} / booleans (np.sign, comparisons): a closeness test on it is exact"""
    from .astutil import inline_single_defs
    if depth > 4:
        return False
    if isinstance(e, ast.Call) and (call_name(e) or "") in ("np.sign", "numpy.sign", "np.signbit", "np.isnan", "np.isfinite"):
        return True
    if isinstance(e, ast.Compare):
        return True
    if isinstance(e, ast.Call) and (call_name(e) or "") in ("np.diff", "np.array", "np.asarray") and e.args:
        return False if (call_name(e) or "") == "np.diff" else _discrete_valued(fi, e.args[0], depth + 1)
    if isinstance(e, ast.Name):
        # a parameter of a nested function: look at what its single call site passes
        for fn in ast.walk(fi.node):
            if isinstance(fn, ast.FunctionDef) and fn is not fi.node and e.id in [a.arg for a in fn.args.args] and \
                    any(n is e for n in ast.walk(fn)):
                pos = [a.arg for a in fn.args.args].index(e.id)
                sites = [c for c in ast.walk(fi.node) if isinstance(c, ast.Call) and isinstance(c.func, ast.Name) and c.func.id == fn.name]
                if sites and all(len(c.args) > pos and _discrete_valued(fi, c.args[pos], depth + 1) for c in sites):
                    return True
                return False
        d = inline_single_defs(fi.node, e)
        if d is not e and not (isinstance(d, ast.Name) and d.id == e.id):
            return _discrete_valued(fi, d, depth + 1)
    return False


def _config_close(node):
    if isinstance(node, ast.Call) and node.args:
        for a in node.args[:2]:
            if isinstance(a, ast.Attribute) and a.attr in CONFIG_ATTRS:
                return True
            if isinstance(a, ast.Name) and a.id in CONFIG_ATTRS:
                return True
    return False


# ------------------------------------------------------------------------------------------------ R-xx-91
def falsy_numeric(fn_node):
    """[(node, text)]: `x or <number / arithmetic>`, `x if x else <number>`, `if not x: x = <number>` on a name or attribute"""
    out = []

    def numeric(e):
        c = const_value(e)
        if isinstance(c, (int, float)) and not isinstance(c, bool):
            return c != 0              # `x or 0` gives 0 for x == 0 as well
        if isinstance(e, ast.BinOp) and isinstance(e.op, (ast.Add, ast.Sub, ast.Mult, ast.Div, ast.Pow)):
            return True
        if isinstance(e, ast.Call) and (call_name(e) or "").split(".")[0] in ("np", "math") and (call_name(e) or "").split(".")[-1] in (
                "log10", "log", "sqrt", "exp", "float64", "power"):
            return True
        return False

    def plain(e):
        return isinstance(e, (ast.Name, ast.Attribute)) or (isinstance(e, ast.Subscript) and isinstance(e.slice, ast.Constant))
    for n in ast.walk(fn_node):
        if isinstance(n, ast.BoolOp) and isinstance(n.op, ast.Or) and len(n.values) == 2 and plain(n.values[0]) and numeric(n.values[1]):
            par = getattr(n, "_parent", None)
            if isinstance(par, (ast.If, ast.While, ast.Assert)) and par.test is n:
                continue
            out.append((n, norm_text(n)))
        elif isinstance(n, ast.IfExp) and plain(n.test) and norm_text(n.test) == norm_text(n.body) and numeric(n.orelse):
            out.append((n, norm_text(n)))
        elif isinstance(n, ast.If) and isinstance(n.test, ast.UnaryOp) and isinstance(n.test.op, ast.Not) and plain(n.test.operand) and \
                len(n.body) == 1 and isinstance(n.body[0], ast.Assign) and not n.orelse and \
                norm_text(n.body[0].targets[0]) == norm_text(n.test.operand) and numeric(n.body[0].value):
            out.append((n, norm_text(n.test) + ": " + norm_text(n.body[0])))
    return out


# ------------------------------------------------------------------------------------------------ R-xx-94 / 95
ACCEPTED_DEFAULTS = {("FiniteLifeCurve", "ignore_limits"): "calc_S / calc_N of the deprecated sn_curve module differ on purpose (documented)"}


def _defaults(fnode):
    a = fnode.args
    out = {}
    for p, d in zip(a.args[len(a.args) - len(a.defaults):], a.defaults):
        out[p.arg] = norm_text(d)
    for p, d in zip(a.kwonlyargs, a.kw_defaults):
        if d is not None:
            out[p.arg] = norm_text(d)
    return out


def sibling_defaults(ci):
    """[(param, {default text: [method names]})] for optional parameters whose default differs between PUBLIC methods"""
    by = {}
    for name, defs in ci.methods.items():
        if name.startswith("_"):
            continue
        for p, d in _defaults(defs[-1].node).items():
            by.setdefault(p, {}).setdefault(d, []).append(name)
    return [(p, ds) for p, ds in sorted(by.items()) if len(ds) > 1]


def dropped_options(prog, fi):
    """[(call, callee name, option)]: fi accepts an optional parameter, calls self.<m>(...) where m has an optional parameter of the
    same name, and does not pass it"""
    out = []
    if fi.cls is None:
        return out
    mine = _defaults(fi.node)
    if not mine:
        return out
    for c in ast.walk(fi.node):
        if isinstance(c, ast.Call) and isinstance(c.func, ast.Attribute) and isinstance(c.func.value, ast.Name) and c.func.value.id == "self":
            callee = prog.lookup_method(fi.cls, c.func.attr)
            if callee is None or callee.node is fi.node or any(k.arg is None for k in c.keywords) or any(isinstance(a, ast.Starred) for a in c.args):
                continue
            theirs = _defaults(callee.node)
            cp = [p for p in callee.params if p != "self"]
            passed = {k.arg for k in c.keywords} | set(cp[:len(c.args)])
            for p in mine:
                if p in theirs and p not in passed:
                    out.append((c, c.func.attr, p))
    return out


# ------------------------------------------------------------------------------------------------ R-xx-96
ACCEPTED_ARG_WRITES = {
    ("pylife.materialdata.woehler.bayesian", "perform", "outputs"): "pytensor Op contract: perform() writes its result into outputs",
    ("pylife.strength.fkm_load_distribution", "gamma_L", "input_parameters"): "fills in the default of an option in the caller's parameter set (documented behaviour of the FKM functions)",
    ("pylife.strength.meanstress", "fkm_goodman", "haigh_fkm_goodman"): "adds the derived column M2 to the caller's table (observation of DESIGN section 4, no clause of C12)",
}


def argument_writes(fi):
    """[(stmt, parameter, how)] for a PUBLIC function / method"""
    if fi.name.startswith("_") or (fi.cls is not None and fi.cls.name.startswith("_")):
        return []
    a = fi.node.args
    params = [x.arg for x in a.posonlyargs + a.args + a.kwonlyargs if x.arg not in ("self", "cls")]
    if not params:
        return []
    aliases = {p: p for p in params}
    rebound = set()
    for st in walk_function(fi.node):
        if isinstance(st, ast.Assign):
            for t in st.targets:
                for n in ast.walk(t):
                    if isinstance(n, ast.Name) and isinstance(n.ctx, ast.Store) and n.id in params:
                        rebound.add(n.id)
        elif isinstance(st, (ast.For, ast.With)):
            for n in ast.walk(st.target if isinstance(st, ast.For) else ast.Tuple(elts=[i.optional_vars for i in st.items if i.optional_vars is not None])):
                if isinstance(n, ast.Name) and n.id in params:
                    rebound.add(n.id)
    for st in walk_function(fi.node):
        if isinstance(st, ast.Assign) and len(st.targets) == 1 and isinstance(st.targets[0], ast.Name):
            v = st.value
            while isinstance(v, ast.Call) and (call_name(v) or "") in ("np.asarray", "np.asanyarray", "np.atleast_1d", "np.ravel") and v.args and \
                    not any(k.arg == "dtype" for k in v.keywords):
                v = v.args[0]
            if isinstance(v, ast.Name) and v.id in aliases and st.targets[0].id not in params:
                aliases[st.targets[0].id] = aliases[v.id]
    out = []

    def live(name):
        return name in aliases and aliases[name] not in rebound
    for st in walk_function(fi.node):
        if isinstance(st, ast.AugAssign):
            base = st.target
            while isinstance(base, (ast.Subscript, ast.Attribute)):
                base = base.value
            if isinstance(base, ast.Name) and live(base.id):
                out.append((st, aliases[base.id], "augmented assignment"))
        elif isinstance(st, ast.Assign):
            for t in st.targets:
                base = t
                while isinstance(base, (ast.Subscript, ast.Attribute)):
                    base = base.value
                if base is not t and isinstance(base, ast.Name) and live(base.id):
                    out.append((st, aliases[base.id], "item / attribute store"))
        for c in ast.walk(st) if isinstance(st, (ast.Expr, ast.Assign, ast.Return, ast.AugAssign)) else []:
            if isinstance(c, ast.Call):
                for k in c.keywords:
                    if k.arg == "out" and isinstance(k.value, ast.Name) and live(k.value.id):
                        out.append((st, aliases[k.value.id], "out="))
                    if k.arg == "inplace" and isinstance(k.value, ast.Constant) and k.value.value is True and \
                            isinstance(c.func, ast.Attribute) and isinstance(c.func.value, ast.Name) and live(c.func.value.id):
                        out.append((st, aliases[c.func.value.id], "inplace=True"))
    seen, res = set(), []
    for st, p, how in out:
        if (id(st), p) not in seen:
            seen.add((id(st), p))
            res.append((st, p, how))
    return res


# ------------------------------------------------------------------------------------------------ R-xx-97 / 98
ACCEPTED_DTYPE_READS = {("pylife.vmap.vmap_export", "_create_system_dataset"): "the element type of the dataset object that is being written itself"}
ACCEPTED_STATE_BEFORE_RAISE = {("pylife.mesh.gradient", "gradient_of"): "value_key is (re)set on every call before the frame is inspected; a refused call leaves only that key"}


def operand_dtype_reads(fn_node):
    """[(node, text)]: `<value>.dtype` read from a value (not np.dtype(...), not a class attribute definition)"""
    out = []
    for n in ast.walk(fn_node):
        if isinstance(n, ast.Attribute) and n.attr == "dtype" and isinstance(n.ctx, ast.Load):
            b = n.value
            if isinstance(b, ast.Name) and b.id in ("np", "numpy", "pd"):
                continue
            par = getattr(n, "_parent", None)
            # only where it decides the type of something else: dtype= keyword, astype(...), np.zeros/empty/full/array(..., dtype)
            use = None
            if isinstance(par, ast.keyword) and par.arg == "dtype":
                use = "dtype="
            elif isinstance(par, ast.Call) and isinstance(par.func, ast.Attribute) and par.func.attr in ("astype", "view") and n in par.args:
                use = "." + par.func.attr + "()"
            elif isinstance(par, ast.Call) and (call_name(par) or "") in ("np.zeros", "np.empty", "np.ones", "np.full", "np.array", "np.asarray") and n in par.args:
                use = call_name(par)
            elif isinstance(par, ast.Assign):
                use = "kept in a local"
            if use:
                out.append((n, "%s (%s)" % (norm_text(n), use)))
    return out


# ------------------------------------------------------------------------------------------------ R-xx-92
def vectorize_without_otypes(fn_node):
    out = []
    for n in ast.walk(fn_node):
        if isinstance(n, ast.Call) and (call_name(n) or "") in ("np.vectorize", "numpy.vectorize") and \
                not any(k.arg in ("otypes", "signature") for k in n.keywords):
            out.append((n, norm_text(n)[:80]))
    return out


_EX2 = ("class W:\n    def cycles(self, load, p=None):\n        return self.basq(load)\n    def load(self, cycles, p=0.5):\n        return 1\n"
        "    def basq(self, x, p=0.5):\n        return x\n")
_EX = ("def f(nu, M, M2, v):\n    nu = nu or 0.3\n    m = M2 or M / 3\n    k = v if v else 1.0\n    if not nu:\n        nu = 0.3\n"
       "    if nu or M:\n        pass\n    return np.vectorize(lambda x: x)(v), np.vectorize(g, otypes=[float])(v)\n")


def selftest():
    from .frontend import set_parents
    ex = set_parents(ast.parse(_EX)).body[0]
    if len(falsy_numeric(ex)) != 4 or len(vectorize_without_otypes(ex)) != 1:
        raise AnalysisError("common rule families: built-in example not matched (%d, %d)" % (len(falsy_numeric(ex)), len(vectorize_without_otypes(ex))))
    if not tolerance.selfcheck():
        raise AnalysisError("absolute-tolerance helper: built-in example not matched")
    statefam.selftest()
    p3 = statefam.mini("def f(x, y, z, out=None):\n    x *= 2\n    v = np.asarray(y)\n    v[0] = 1\n    z = np.array(z)\n    z += 1\n    return x\n")
    if len(argument_writes(p3.functions["ex:f"])) != 2:
        raise AnalysisError("common rule families: argument-write example not matched")
    from .frontend import set_parents as _sp
    ex4 = _sp(ast.parse("def f(s11, s22):\n    a = np.zeros(s11.shape + (3, 3), dtype=s11.dtype)\n    b = s22.astype(np.float64)\n    return a, np.dtype('int32')\n")).body[0]
    if len(operand_dtype_reads(ex4)) != 1:
        raise AnalysisError("common rule families: dtype example not matched")
    p = statefam.mini(_EX2)
    if len(sibling_defaults(p.classes["ex:W"])) != 1 or len(dropped_options(p, p.functions["ex:W.cycles"])) != 1:
        raise AnalysisError("common rule families: default / option example not matched")


def run(ctx, prop):
    prog = ctx.prog
    selftest()
    mods = anchored_modules(prog, prop)
    names = {m.name for m in mods}
    funcs = [fi for k, fi in sorted(prog.functions.items()) if fi.module.name in names and fi.parent is None]
    classes = [ci for k, ci in sorted(prog.classes.items()) if ci.module.name in names]
    if not funcs:
        raise AnalysisError("no function found in the anchored modules of %s" % prop)
    r90, r91, r92, r93, r94, r95, r96, r97, r98 = ("R-%s-%d" % (prop, i) for i in (90, 91, 92, 93, 94, 95, 96, 97, 98))
    # ---- 90
    ctx.rule(r90, floor=1, what="no new absolute tolerance on data in the anchored files")
    n_acc = 0
    for fi in funcs:
        for node, kind, text in tolerance.absolute_tolerances(fi.node):
            if kind == "close" and (_config_close(node) or (node.args and _discrete_valued(fi, node.args[0]))):
                n_acc += 1
                continue
            lit = _literal(node)
            key = (fi.module.name, kind, lit)
            if key in ACCEPTED_TOLERANCES or (fi.module.name + ":" + fi.qualname.split(".")[0], kind, lit) in ACCEPTED_TOLERANCES:
                n_acc += 1
                continue
            st = node
            ctx.violated(fi, st, "%s: %s puts an absolute tolerance on data (%s): the decision / value changes with the unit or "
                         "magnitude of the data, which the property quantifies over" %
                         (fi.qualname, text[:90], {"close": "closeness test with an absolute part", "round": "rounding to fixed digits",
                                                   "threshold": "comparison with a small fixed number",
                                                   "offset": "small fixed additive constant"}[kind]),
                         text="absolute tolerance in %s: %s %s" % (fi.qualname, kind, lit or ""), rule=r90)
    ctx.holds(prop + ":anchored files", None, "%d functions of %d files scanned, %d accepted instance(s) (configuration values, "
              "dimensionless quantities - table in sa/common.py)" % (len(funcs), len(mods), n_acc), rule=r90)
    # ---- 91
    ctx.rule(r91, floor=1, what="no numeric value replaced by a default when it is zero")
    for fi in funcs:
        for node, text in falsy_numeric(fi.node):
            ctx.violated(fi, node, "%s: `%s` replaces a given value of ZERO by the default as well (zero is falsy); zero is a legitimate "
                         "value of a numeric argument" % (fi.qualname, text[:80]), text="falsy default in %s" % fi.qualname, rule=r91)
    ctx.holds(prop + ":anchored files", None, "%d functions scanned" % len(funcs), rule=r91)
    # ---- 92
    ctx.rule(r92, floor=1, what="no np.vectorize without otypes")
    for fi in funcs:
        for node, text in vectorize_without_otypes(fi.node):
            ctx.violated(fi, node, "%s: %s has no otypes: the element type of the whole result is taken from the FIRST element "
                         "(an integer 0 there truncates every following value)" % (fi.qualname, text), text="vectorize without otypes in %s" % fi.qualname, rule=r92)
    ctx.holds(prop + ":anchored files", None, "%d functions scanned" % len(funcs), rule=r92)
    # ---- 93
    ctx.rule(r93, floor=1, what="no state shared between objects or calls (S1-S4)")
    for ci in classes:
        for fi, st, attr, how in statefam.class_level_mutables(prog, ci):
            ctx.violated(fi, st, "%s.%s changes the class attribute %s (%s), which every instance shares" % (ci.name, fi.name, attr, how),
                         text="class-level %s changed in %s" % (attr, fi.name), rule=r93)
        for fi, st, attr, p, how in statefam.partial_key_memos(prog, ci):
            ctx.violated(fi, st, "%s.%s keeps a value computed from `%s` in self.%s and re-uses it after looking at %s of that argument "
                         "only" % (ci.name, fi.name, p, attr, how), text="memo %s keyed by part of %s" % (attr, p), rule=r93)
        for fi, st, attr in statefam.memo_hands_out(prog, ci):
            ctx.violated(fi, st, "%s.%s returns the very object it keeps in self.%s" % (ci.name, fi.name, attr),
                         text="memo %s handed out by %s" % (attr, fi.name), rule=r93)
    for fi in funcs:
        for st, c, tgt in statefam.shallow_copy_writes(prog, fi):
            ctx.violated(fi, st, "%s writes %s on a shallow copy (%s): the original's attribute object is changed as well" % (fi.qualname, tgt, c),
                         text="write through shallow copy " + tgt, rule=r93)
    ctx.holds(prop + ":anchored files", None, "%d classes, %d functions scanned" % (len(classes), len(funcs)), rule=r93)
    # ---- 94 / 95
    ctx.rule(r94, floor=1, what="same-named optional parameters have the same default in the public methods of a class")
    for ci in classes:
        for p, ds in sibling_defaults(ci):
            if (ci.name, p) in ACCEPTED_DEFAULTS:
                continue
            minority = min(ds.items(), key=lambda kv: len(kv[1]))
            fi = ci.methods[minority[1][0]][-1]
            ctx.violated(fi, fi.node, "%s: the optional parameter `%s` defaults to %s in %s but to %s in %s: calls that leave it out are "
                         "evaluated at different values, so the methods are no longer inverse / consistent with one another"
                         % (ci.name, p, minority[0], ", ".join(minority[1]),
                            " / ".join(d for d in ds if d != minority[0]), ", ".join(m for d, ms in ds.items() if d != minority[0] for m in ms)),
                         text="default of %s differs in %s" % (p, ci.name), rule=r94)
    ctx.holds(prop + ":anchored files", None, "%d classes scanned" % len(classes), rule=r94)
    ctx.rule(r95, floor=1, what="an option accepted by caller and callee is passed on")
    for fi in funcs:
        for c, callee, p in dropped_options(prog, fi):
            ctx.violated(fi, c, "%s accepts `%s` and calls self.%s, which accepts it too, without passing it: the callee works with its "
                         "own default whatever the caller was given" % (fi.qualname, p, callee), text="option %s dropped in %s" % (p, fi.qualname), rule=r95)
    ctx.holds(prop + ":anchored files", None, "%d functions scanned" % len(funcs), rule=r95)
    # ---- 96
    ctx.rule(r96, floor=1, what="public functions do not write into their arguments")
    n_acc = 0
    for fi in funcs:
        for st, p, how in argument_writes(fi):
            if (fi.module.name, fi.name, p) in ACCEPTED_ARG_WRITES:
                n_acc += 1
                continue
            ctx.violated(fi, st, "%s writes into its argument `%s` (%s: %s): the caller's object is changed, a second call with the same "
                         "object works on other data" % (fi.qualname, p, how, norm_text(st)[:60]), text="write into argument %s of %s" % (p, fi.qualname), rule=r96)
    ctx.holds(prop + ":anchored files", None, "%d functions scanned, %d accepted instance(s)" % (len(funcs), n_acc), rule=r96)
    # ---- 97
    ctx.rule(r97, floor=1, what="element types are not taken from one operand")
    for fi in funcs:
        if (fi.module.name, fi.name) in ACCEPTED_DTYPE_READS:
            continue
        for node, text in operand_dtype_reads(fi.node):
            ctx.violated(fi, node, "%s takes an element type from one operand: %s - when that operand is integer typed (a literal 0, an "
                         "integer column) the values of the other operands are truncated to integers" % (fi.qualname, text),
                         text="element type from an operand in %s" % fi.qualname, rule=r97)
    ctx.holds(prop + ":anchored files", None, "%d functions scanned" % len(funcs), rule=r97)
    # ---- 98
    ctx.rule(r98, floor=1, what="public methods reject input before they change their object")
    for fi in funcs:
        if fi.cls is None or fi.name.startswith("_") or (fi.module.name, fi.name) in ACCEPTED_STATE_BEFORE_RAISE:
            continue
        hits = statefam.state_before_raise(prog, fi)
        for r, st, attr in hits[:1]:
            ctx.violated(fi, r, "%s can reach `%s` after it has already changed self.%s (`%s`): a refused call leaves the object in "
                         "another state than it found it" % (fi.qualname, norm_text(r)[:60], attr, norm_text(st)[:50]),
                         text="rejection after a change of self.%s in %s" % (attr, fi.qualname), rule=r98)
    ctx.holds(prop + ":anchored files", None, "%d functions scanned" % len(funcs), rule=r98)
