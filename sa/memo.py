"""Memoisation discipline (shared rule, design §11.2).

A value cached on an object is correct only as long as everything it was computed from is unchanged.  For a class the
rule finds every *memo attribute* M - written in a method under a guard that tests M itself (`if self.M is None:`,
`if not hasattr(self, "M")`) or produced by a caching decorator - determines the attributes (and parameters) its value
is computed from, and requires every other method that changes one of those attributes (assignment, augmented assignment,
append/extend/insert/update/pop/clear or `np.append`-style re-binding) to reset M in the same method.  Caching
decorators (`functools.lru_cache`, `functools.cache`, `cached_property`) on methods of such classes, or on module-level
functions whose arguments are mutable accessor objects, cannot be invalidated at all and are violations.
"""
from __future__ import annotations

import ast

from .astutil import call_name, calls_in, is_self_attr
from .frontend import walk_function
from .report import norm_text

CACHE_DECORATORS = ("lru_cache", "cache", "cached_property")
MUTATORS = ("append", "extend", "insert", "update", "pop", "clear", "remove", "add", "setdefault", "sort", "reverse")


def _decorator_names(fn):
    out = []
    for d in fn.decorator_list:
        e = d.func if isinstance(d, ast.Call) else d
        out.append(e.attr if isinstance(e, ast.Attribute) else getattr(e, "id", ""))
    return out


def _self_reads(node):
    return {n.attr for n in ast.walk(node) if is_self_attr(n) and isinstance(n.ctx, ast.Load)}


def _writes(fi):
    """attributes of self this method changes: name -> first statement"""
    out = {}
    for st in walk_function(fi.node):
        if isinstance(st, (ast.Assign, ast.AugAssign, ast.AnnAssign)):
            tg = st.targets if isinstance(st, ast.Assign) else [st.target]
            for t in tg:
                base = t
                while isinstance(base, (ast.Subscript, ast.Attribute)) and not is_self_attr(base):
                    base = base.value
                if is_self_attr(base):
                    out.setdefault(base.attr, st)
        for c in calls_in(st) if isinstance(st, (ast.Expr, ast.Assign, ast.Return)) else []:
            if isinstance(c.func, ast.Attribute) and c.func.attr in MUTATORS and is_self_attr(c.func.value):
                out.setdefault(c.func.value.attr, st)
    return out


def _external_writes(prog, ci):
    """assignments `<recv>.<attr> = ...` in functions of the class's module that are not methods of the class itself
    (an owner object re-configuring its implementation object): [(fi, attr, receiver text, stmt)]"""
    out = []
    for key, fi in prog.functions.items():
        if fi.module.name != ci.module.name or fi.cls is ci:
            continue
        for st in walk_function(fi.node):
            if isinstance(st, (ast.Assign, ast.AugAssign)):
                for t in (st.targets if isinstance(st, ast.Assign) else [st.target]):
                    if isinstance(t, ast.Attribute) and not (isinstance(t.value, ast.Name) and t.value.id == "self"):
                        out.append((fi, t.attr, norm_text(t.value), st))
    return out


def _transitive_reads(ci, prog, node, depth=0):
    """self attributes an expression depends on, following self.method() calls and properties one level deep"""
    reads = set(_self_reads(node))
    if depth >= 2:
        return reads
    for a in list(reads):
        m = prog.lookup_method(ci, a)
        if m is not None:
            reads |= _transitive_reads(ci, prog, m.node, depth + 1)
    for c in calls_in(node):
        if isinstance(c.func, ast.Attribute) and is_self_attr(c.func):
            m = prog.lookup_method(ci, c.func.attr)
            if m is not None:
                reads |= _transitive_reads(ci, prog, m.node, depth + 1)
    return reads


def check_class(ctx, prog, ci, label=None, external_state=()):
    """-> number of memo sites examined.  `external_state`: attributes that hold data owned by the caller (the frame of a
    pandas accessor), which can change without any method of the class being involved"""
    label = label or ci.name
    n = 0
    methods = {name: fs[-1] for name, fs in ci.methods.items()}
    writers = {name: _writes(fi) for name, fi in methods.items()}
    mutable_state = {a for name, w in writers.items() if name != "__init__" for a in w}
    external = _external_writes(prog, ci)
    mutable_state |= {a for _, a, _, _ in external}
    mutable_state |= set(external_state)
    # (a) caching decorators
    for name, fi in methods.items():
        decs = [d for d in _decorator_names(fi.node) if d in CACHE_DECORATORS]
        if not decs:
            continue
        n += 1
        deps = _transitive_reads(ci, prog, fi.node) - {name}
        changed = sorted(a for a in deps if a in mutable_state)
        if changed or any(a in {x for w in writers.values() for x in w} for a in deps):
            ctx.violated(fi, fi.node, "%s.%s is cached with @%s but is computed from self.%s, which other methods change later: the "
                         "first value is returned for ever" % (label, name, decs[0], ", self.".join(changed or sorted(deps))),
                         text="%s.%s @%s" % (label, name, decs[0]))
        else:
            ctx.holds(fi, fi.node, "%s.%s is cached with @%s and depends on constructor-only state" % (label, name, decs[0]))
    # (b) hand-written memo attributes
    for name, fi in methods.items():
        for st in walk_function(fi.node):
            if not isinstance(st, ast.If):
                continue
            t = st.test
            memo = None
            if isinstance(t, ast.Compare) and len(t.ops) == 1 and isinstance(t.ops[0], (ast.Is, ast.Eq)) and \
                    is_self_attr(t.left) and isinstance(t.comparators[0], ast.Constant) and t.comparators[0].value is None:
                memo = t.left.attr
            elif isinstance(t, ast.UnaryOp) and isinstance(t.op, ast.Not) and isinstance(t.operand, ast.Call) and \
                    call_name(t.operand) == "hasattr" and len(t.operand.args) == 2 and isinstance(t.operand.args[1], ast.Constant):
                memo = t.operand.args[1].value
            elif isinstance(t, ast.Compare) and len(t.ops) == 1 and isinstance(t.ops[0], (ast.Is, ast.Eq)) and \
                    isinstance(t.left, ast.Call) and call_name(t.left) == "getattr" and len(t.left.args) >= 2 and \
                    isinstance(t.left.args[0], ast.Name) and t.left.args[0].id == "self" and isinstance(t.left.args[1], ast.Constant) and \
                    isinstance(t.comparators[0], ast.Constant) and t.comparators[0].value is None:
                memo = t.left.args[1].value                 # getattr(self, '_x', None) is None
            if memo is None:
                continue
            fills = [x for x in st.body if isinstance(x, ast.Assign) and any(is_self_attr(tt, memo) for tt in x.targets)]
            if not fills:
                continue
            n += 1
            deps = set()
            for x in st.body:
                deps |= _transitive_reads(ci, prog, x)
            deps -= {memo}
            stale = []
            for other, w in writers.items():
                if other in (name, "__init__"):
                    continue
                touched = sorted(a for a in w if a in deps)
                if touched and memo not in w:
                    stale.append((other, touched))
            for xfi, attr, recv, xst in external:
                if attr in deps and not any(f2 is xfi and a2 == memo and r2 == recv for f2, a2, r2, _ in external):
                    stale.append(("%s [%s.%s = ...]" % (xfi.qualname, recv, attr), [attr]))
            if stale:
                ctx.violated(fi, st, "%s.%s caches self.%s, computed from self.%s; %s change%s that state without resetting the "
                             "cache, so later reads return the stale value" %
                             (label, name, memo, ", self.".join(sorted(deps & {a for _, tt in stale for a in tt})),
                              ", ".join("%s()" % o for o, _ in stale), "s" if len(stale) == 1 else ""),
                             text="%s.%s memo %s" % (label, name, memo))
            else:
                ctx.holds(fi, st, "%s.%s: memo self.%s is reset by every method that changes what it is computed from (%s)" %
                          (label, name, memo, ", ".join(sorted(deps)) or "nothing mutable"))
    return n


def check_functions(ctx, prog, module, what="mutable accessor objects"):
    """module-level functions with caching decorators"""
    n = 0
    for key, fi in sorted(prog.functions.items()):
        if fi.module.name != module or fi.cls is not None or fi.parent is not None:
            continue
        decs = [d for d in _decorator_names(fi.node) if d in CACHE_DECORATORS]
        if decs:
            n += 1
            ctx.violated(fi, fi.node, "%s is cached with @%s and keyed by the identity of its argument(s) %s - %s whose content "
                         "changes in place: the value of the first call is returned after the change" %
                         (fi.name, decs[0], ", ".join(fi.params), what), text="%s @%s" % (fi.name, decs[0]))
    return n


_EXAMPLE = (
    "import functools\n"
    "class R:\n"
    "    def __init__(self):\n        self._rows = []\n        self._base = (1, 2)\n        self._where = 1\n        self._tail = None\n        self._view = None\n        self._ok = None\n"
    "    def record(self, x):\n        self._rows.append(x)\n"
    "    def record_ok(self, x):\n        self._rows.append(x)\n        self._ok = None\n"
    "    def tail(self):\n        if self._tail is None:\n            self._tail = self._base[self._where]\n        return self._tail\n"
    "    def view(self):\n        if self._view is None:\n            self._view = list(self._rows)\n        return self._view\n"
    "    @functools.cached_property\n    def total(self):\n        return sum(self._rows)\n"
    "class Owner:\n    def left(self):\n        self._impl._where = 0\n"
    "@functools.lru_cache(maxsize=8)\ndef peak(collective):\n    return collective.amplitude.max()\n"
)


def _example_program():
    import ast as _a
    from .frontend import Program, Module, set_parents
    tree = set_parents(_a.parse(_EXAMPLE))
    p = object.__new__(Program)
    p.root, p.overrides, p._base = "", {}, None
    p.modules = {"ex": Module("ex", "ex.py", _EXAMPLE, tree, "0")}
    p.modules["ex"].pysource = _EXAMPLE
    p.functions, p.classes, p.accessors, p._subclasses = {}, {}, {}, {}
    p._index()
    return p


class _Sink:
    def __init__(self):
        self.v, self.h = [], []

    def holds(self, *a, **k):
        self.h.append(a)

    def violated(self, *a, **k):
        self.v.append(k.get("text") or a[2])


def run_rule(ctx, classes=(), modules=(), what="mutable accessor objects", external_state=()):
    """Apply the memo rule to the given classes (ClassInfo) and module-level functions; verify the built-in example."""
    from .frontend import AnalysisError
    prog = ctx.prog
    n = 0
    for ci in classes:
        n += check_class(ctx, prog, ci, external_state=external_state)
    for m in modules:
        n += check_functions(ctx, prog, m, what)
    sink = _Sink()
    p2 = _example_program()
    check_class(sink, p2, p2.classes["ex:R"])
    check_functions(sink, p2, "ex")
    if sorted(sink.v) != ["R.tail memo _tail", "R.total @cached_property", "R.view memo _view", "peak @lru_cache"]:
        raise AnalysisError("memoisation positive example failed: %s" % sorted(sink.v))
    ctx.holds("selftest:positive-example", None, "memo rule fires on the four stale caches of the built-in example; %d cache site(s) "
              "in %d class(es) / %d module(s) of the repository" % (n, len(list(classes)), len(list(modules))))
    return n


# ---------------------------------------------------------------------------------------------------------------------
# keyed caches: a class-level dictionary filled by a method under a key must be keyed by everything the cached value is
# computed from (every attribute of the object the method reads)

def keyed_cache_sites(prog, ci):
    """[(method FuncInfo, store statement, cache name, key expression with temporaries resolved, missing attributes)]"""
    from .astutil import inline_single_defs
    caches = set()
    for st in ci.node.body:
        if isinstance(st, ast.Assign) and len(st.targets) == 1 and isinstance(st.targets[0], ast.Name) and \
                (isinstance(st.value, ast.Dict) or (isinstance(st.value, ast.Call) and call_name(st.value) in
                                                    ("dict", "collections.OrderedDict", "OrderedDict", "weakref.WeakValueDictionary"))):
            caches.add(st.targets[0].id)
    out = []
    if not caches:
        return out

    def is_cache(e):
        return isinstance(e, ast.Attribute) and e.attr in caches and (
            (isinstance(e.value, ast.Name) and e.value.id in (ci.name, "cls")) or
            (isinstance(e.value, ast.Attribute) and e.value.attr == "__class__") or
            (isinstance(e.value, ast.Call) and call_name(e.value) == "type") or is_self_attr(e))
    for name, defs in ci.methods.items():
        fi = defs[-1]
        for st in walk_function(fi.node):
            if not isinstance(st, ast.Assign):
                continue
            for t in st.targets:
                if isinstance(t, ast.Subscript) and is_cache(t.value):
                    key = inline_single_defs(fi.node, t.slice, depth=4)
                    # attribute aliases: law = self._law ; law.E in the key stands for self._law
                    alias = {}
                    for s2 in walk_function(fi.node):
                        if isinstance(s2, ast.Assign) and len(s2.targets) == 1 and isinstance(s2.targets[0], ast.Name) and \
                                is_self_attr(s2.value):
                            alias[s2.targets[0].id] = s2.value.attr
                    key_attrs = {n.attr for n in ast.walk(key) if is_self_attr(n)} | \
                        {alias[n.id] for n in ast.walk(key) if isinstance(n, ast.Name) and n.id in alias}
                    written = set(_writes(fi))
                    reads = set()
                    for s2 in walk_function(fi.node):
                        if any(is_cache(x) for x in ast.walk(s2)):
                            continue                     # the cache bookkeeping itself
                        reads |= _self_reads(s2)
                    missing = sorted(reads - key_attrs - written)
                    # ... and everything taken from the method's parameters (class methods / factories): the cached value and the
                    # key are compared as sets of parameter-rooted access paths (p, p.M, p['M2']) with locals resolved
                    params = {a.arg for a in fi.node.args.args + fi.node.args.kwonlyargs} - {"self", "cls"}

                    def atoms(e):
                        res = set()

                        def visit(n, top=True):
                            if isinstance(n, (ast.Attribute, ast.Subscript)):
                                root = n
                                while isinstance(root, (ast.Attribute, ast.Subscript)):
                                    root = root.value
                                if isinstance(root, ast.Name) and root.id in params and \
                                        (isinstance(n, ast.Attribute) or isinstance(n.slice, ast.Constant)):
                                    res.add(norm_text(n))
                                    return
                            if isinstance(n, ast.Name) and n.id in params and isinstance(n.ctx, ast.Load):
                                res.add(n.id)
                                return
                            for c_ in ast.iter_child_nodes(n):
                                visit(c_)
                        visit(e)
                        return res
                    val = inline_single_defs(fi.node, st.value, depth=4)
                    k_atoms, v_atoms = atoms(key), atoms(val)

                    def covered(a_):
                        return any(a_ == k_ or a_.startswith(k_ + ".") or a_.startswith(k_ + "[") for k_ in k_atoms) or \
                            a_.replace("['", ".").replace("']", "") in {k_.replace("['", ".").replace("']", "") for k_ in k_atoms}
                    missing += sorted(a_ for a_ in v_atoms if not covered(a_))
                    out.append((fi, st, t.value.attr, key, missing))
    return out


def check_keyed_caches(ctx, prog, classes):
    """report keyed class-level caches whose key leaves out an attribute the cached value depends on; verifies a built-in
    example on every run (the expected instance count on the repository is zero)"""
    from .frontend import AnalysisError, Module, Program, set_parents
    n = 0
    for ci in classes:
        for fi, st, cname, key, missing in keyed_cache_sites(prog, ci):
            n += 1
            if missing:
                ctx.violated(fi, st, "%s.%s stores its result in the class-level cache %s under the key %s, which leaves out %s: "
                             "a call that differs only in that silently receives the value computed for another one"
                             % (ci.name, fi.name, cname, norm_text(key)[:100], ", ".join(m_ if "." in m_ or "[" in m_ else "self." + m_
                                                                                         for m_ in missing)), text="cache key " + cname)
            else:
                ctx.holds(fi, st, "%s.%s: cache %s is keyed by every attribute the value is computed from" % (ci.name, fi.name, cname))
    src = ("class T:\n    _cache = {}\n    def build(self):\n        law = self._law\n        key = (law.E, self._max)\n"
           "        if key in T._cache:\n            self._tab = T._cache[key]\n            return\n"
           "        self._tab = [i * self._max / self._bins for i in range(self._bins)]\n        T._cache[key] = self._tab\n")
    tree = set_parents(ast.parse(src))
    p = object.__new__(Program)
    p.root, p.overrides, p._base = "", {}, None
    p.modules = {"ex": Module("ex", "ex.py", src, tree, "0")}
    p.modules["ex"].pysource = src
    p.functions, p.classes, p.accessors, p._subclasses = {}, {}, {}, {}
    p._index()
    got = [(fi.name, m) for fi, st, c, k, m in keyed_cache_sites(p, p.classes["ex:T"])]
    if got != [("build", ["_bins"])]:
        raise AnalysisError("keyed-cache positive example failed: %s" % got)
    ctx.holds("selftest:positive-example", None, "keyed-cache rule finds the missing bin count in the built-in example; %d keyed "
              "cache(s) in the repository classes" % n)
    return n
