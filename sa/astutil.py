"""Small syntax helpers shared by the rules."""
from __future__ import annotations

import ast
import copy


def dotted(e):
    """'np.sign' for Attribute/Name chains, None otherwise."""
    parts = []
    while isinstance(e, ast.Attribute):
        parts.append(e.attr)
        e = e.value
    if isinstance(e, ast.Name):
        parts.append(e.id)
        return ".".join(reversed(parts))
    return None


def call_name(n):
    return dotted(n.func) if isinstance(n, ast.Call) else None


def names_in(e):
    return {n.id for n in ast.walk(e) if isinstance(n, ast.Name)}


def attrs_of_self(e):
    """self.<attr> names read/written inside e."""
    return {n.attr for n in ast.walk(e)
            if isinstance(n, ast.Attribute) and isinstance(n.value, ast.Name) and n.value.id == "self"}


def is_self_attr(e, name=None):
    return isinstance(e, ast.Attribute) and isinstance(e.value, ast.Name) and e.value.id == "self" and \
        (name is None or e.attr == name)


def calls_in(node, name=None, attr=None):
    out = []
    for n in ast.walk(node):
        if isinstance(n, ast.Call):
            if name is not None and dotted(n.func) == name:
                out.append(n)
            elif attr is not None and isinstance(n.func, ast.Attribute) and n.func.attr == attr:
                out.append(n)
            elif name is None and attr is None:
                out.append(n)
    return out


def assigned_targets(stmt):
    """Flat list of target expressions of an assignment-like statement."""
    out = []

    def flat(t):
        if isinstance(t, (ast.Tuple, ast.List)):
            for x in t.elts:
                flat(x)
        elif isinstance(t, ast.Starred):
            flat(t.value)
        else:
            out.append(t)
    if isinstance(stmt, ast.Assign):
        for t in stmt.targets:
            flat(t)
    elif isinstance(stmt, (ast.AugAssign, ast.AnnAssign)):
        flat(stmt.target)
    elif isinstance(stmt, (ast.For, ast.AsyncFor)):
        flat(stmt.target)
    elif isinstance(stmt, (ast.With, ast.AsyncWith)):
        for it in stmt.items:
            if it.optional_vars is not None:
                flat(it.optional_vars)
    return out


def tuple_assign_pairs(stmt):
    """For ``a, b = x, y`` yield (target, value) pairs; for ``a = x`` one pair;
    for ``a, b = f()`` yield (a, ('item', 0, call)), ..."""
    if not isinstance(stmt, ast.Assign):
        return []
    out = []
    for t in stmt.targets:
        if isinstance(t, (ast.Tuple, ast.List)):
            if isinstance(stmt.value, (ast.Tuple, ast.List)) and len(stmt.value.elts) == len(t.elts):
                out += list(zip(t.elts, stmt.value.elts))
            else:
                for i, x in enumerate(t.elts):
                    out.append((x, ast.Subscript(value=stmt.value, slice=ast.Constant(i), ctx=ast.Load())))
        else:
            out.append((t, stmt.value))
    return out


def const_value(e):
    if isinstance(e, ast.Constant):
        return e.value
    if isinstance(e, ast.UnaryOp) and isinstance(e.op, ast.USub) and isinstance(e.operand, ast.Constant):
        return -e.operand.value
    return None


def kwarg(call, name, pos=None):
    for k in call.keywords:
        if k.arg == name:
            return k.value
    if pos is not None and len(call.args) > pos:
        return call.args[pos]
    return None


def enclosing(node, types):
    p = getattr(node, "_parent", None)
    while p is not None and not isinstance(p, types):
        p = getattr(p, "_parent", None)
    return p


def enclosing_stmt(node):
    p = node
    while p is not None and not isinstance(p, ast.stmt):
        p = getattr(p, "_parent", None)
    return p


def clone(node):
    """Deep copy of an ast node that does not follow ``_parent`` links."""
    if isinstance(node, ast.AST):
        new = node.__class__()
        for f in node._fields:
            if hasattr(node, f):
                setattr(new, f, clone(getattr(node, f)))
        for a in ("lineno", "col_offset", "end_lineno", "end_col_offset"):
            if hasattr(node, a):
                setattr(new, a, getattr(node, a))
        return new
    if isinstance(node, list):
        return [clone(x) for x in node]
    return node


def subst_names(expr, mapping):
    """Return a copy of expr with Name ids replaced by (copies of) expressions."""
    def rec(n):
        if isinstance(n, ast.Name) and n.id in mapping:
            return clone(mapping[n.id])
        if isinstance(n, ast.AST):
            new = n.__class__()
            for f in n._fields:
                if hasattr(n, f):
                    setattr(new, f, rec(getattr(n, f)))
            for a in ("lineno", "col_offset", "end_lineno", "end_col_offset"):
                if hasattr(n, a):
                    setattr(new, a, getattr(n, a))
            return new
        if isinstance(n, list):
            return [rec(x) for x in n]
        return n
    return rec(expr)


def find_stmt(tree, pred):
    for n in ast.walk(tree):
        if isinstance(n, ast.stmt) and pred(n):
            return n
    return None


def find_func(tree, qualname):
    """Find FunctionDef by dotted qualname inside a module tree."""
    parts = qualname.split(".")
    body = tree.body
    node = None
    for p in parts:
        node = None
        for n in _defs(body):
            if isinstance(n, (ast.FunctionDef, ast.ClassDef, ast.AsyncFunctionDef)) and n.name == p:
                node = n    # last definition wins
        if node is None:
            return None
        body = node.body
    return node


def _defs(body):
    for n in body:
        if isinstance(n, (ast.FunctionDef, ast.ClassDef, ast.AsyncFunctionDef)):
            yield n
        elif isinstance(n, (ast.If, ast.Try, ast.With, ast.For, ast.While)):
            for sub in ("body", "orelse", "finalbody"):
                yield from _defs(getattr(n, sub, []) or [])


def replace_node(old, new):
    """Replace ``old`` by ``new`` in its parent (needs _parent links)."""
    p = old._parent
    for field, val in ast.iter_fields(p):
        if val is old:
            setattr(p, field, new)
            new._parent = p
            return True
        if isinstance(val, list):
            for i, x in enumerate(val):
                if x is old:
                    if new is None:
                        del val[i]
                        if not val and field == "body":
                            val.append(ast.Pass())
                    elif isinstance(new, list):
                        val[i:i + 1] = new
                    else:
                        val[i] = new
                        new._parent = p
                    return True
    return False


def parse_expr(s):
    return ast.parse(s, mode="eval").body


def parse_stmt(s):
    return ast.parse(s).body[0]


def inline_single_defs(fn_node, expr, keep=(), depth=3):
    """Replace local names that are assigned exactly once in the function (and are not parameters / in `keep`) by their
    defining expressions, repeatedly.  Makes rules independent of temporaries introduced or removed by a refactoring."""
    defs = {}
    params = {a.arg for a in fn_node.args.args + fn_node.args.kwonlyargs} if hasattr(fn_node, "args") else set()
    for st in ast.walk(fn_node):
        if isinstance(st, ast.Assign) and len(st.targets) == 1 and isinstance(st.targets[0], ast.Name):
            defs.setdefault(st.targets[0].id, []).append(st.value)
        elif isinstance(st, (ast.AugAssign, ast.For, ast.With, ast.comprehension)):
            for n in ast.walk(st.target if not isinstance(st, ast.With) else st):
                if isinstance(n, ast.Name) and isinstance(n.ctx, ast.Store):
                    defs.setdefault(n.id, []).extend([None, None])
    single = {k: v[0] for k, v in defs.items() if len(v) == 1 and v[0] is not None and k not in params and k not in keep}
    for _ in range(depth):
        new = subst_names(expr, single)
        if ast.dump(new) == ast.dump(expr):
            break
        expr = new
    return expr


def publish_normalised(fn_node):
    """Undo two value-neutral refactorings of a method that builds object state, so that rules reading `self.<attr>...`
    statements find them:
      * alias of an attribute:  `law = self._law` (single definition, `self._law` never stored in the function)
        -> every `law` is replaced by `self._law`;
      * build, then publish:    `t = <expr>; t.col = ...; self._tab = t` (single definition of `t`, single store of
        `self._tab`, which is the last statement mentioning `t`) -> `self._tab = <expr>; self._tab.col = ...`.
    Returns a new FunctionDef (or the same object when nothing applies)."""
    import ast as _ast
    stores = {}
    for n in _ast.walk(fn_node):
        if isinstance(n, _ast.Name) and isinstance(n.ctx, (_ast.Store, _ast.Del)):
            stores[n.id] = stores.get(n.id, 0) + 1
    params = {a.arg for a in fn_node.args.args + fn_node.args.kwonlyargs}
    attr_stores = {}
    for n in _ast.walk(fn_node):
        if isinstance(n, _ast.Attribute) and isinstance(n.ctx, _ast.Store) and is_self_attr(n):
            attr_stores[n.attr] = attr_stores.get(n.attr, 0) + 1
    alias, publish = {}, {}
    body_stmts = [s for s in _ast.walk(fn_node) if isinstance(s, _ast.Assign) and len(s.targets) == 1]
    for s in body_stmts:
        t, v = s.targets[0], s.value
        if isinstance(t, _ast.Name) and stores.get(t.id) == 1 and t.id not in params and is_self_attr(v) and \
                v.attr not in attr_stores:
            alias[t.id] = (s, v)
    for s in body_stmts:
        t, v = s.targets[0], s.value
        if is_self_attr(t) and isinstance(v, _ast.Name) and stores.get(v.id) == 1 and v.id not in params and \
                attr_stores.get(t.attr) == 1 and v.id not in alias:
            uses = [n for n in _ast.walk(fn_node) if isinstance(n, _ast.Name) and n.id == v.id]
            reads_attr = [n for n in _ast.walk(fn_node) if is_self_attr(n, t.attr) and n is not t]
            defs = [d for d in body_stmts if isinstance(d.targets[0], _ast.Name) and d.targets[0].id == v.id]
            if len(defs) == 1 and all(u.lineno <= s.lineno for u in uses) and all(r.lineno > s.lineno for r in reads_attr) \
                    and not any(p[0] == t.attr for p in publish.values()):
                publish[v.id] = (t.attr, s, defs[0])
    if not alias and not publish:
        return fn_node
    drop = {id(a[0]) for a in alias.values()} | {id(p[1]) for p in publish.values()}
    orig_ids = {}

    class T(_ast.NodeTransformer):
        def visit_Assign(self, n):
            if orig_ids.get(id(n)) in drop:
                return None
            return self.generic_visit(n)

        def visit_Name(self, n):
            if n.id in alias:
                return clone(alias[n.id][1])
            if n.id in publish:
                return _ast.copy_location(_ast.Attribute(value=_ast.Name(id="self", ctx=_ast.Load()), attr=publish[n.id][0], ctx=n.ctx), n)
            return n
    import copy as _copy
    new = _copy.deepcopy(fn_node)
    for a, b in zip(_ast.walk(fn_node), _ast.walk(new)):
        orig_ids[id(b)] = id(a)
    new = T().visit(new)
    _ast.fix_missing_locations(new)
    return new


def oriented(node):
    """clone of an expression / statement with every single comparison written with < / <= (for comparing texts of guards
    independently of the side the operands were written on)"""
    n = clone(node)
    swap = {ast.Gt: ast.Lt, ast.GtE: ast.LtE}
    for x in ast.walk(n):
        if isinstance(x, ast.Compare) and len(x.ops) == 1 and type(x.ops[0]) in swap:
            x.left, x.comparators[0] = x.comparators[0], x.left
            x.ops[0] = swap[type(x.ops[0])]()
    return n


def unroll_literal_loops(stmts):
    """`for a, b in [(k1, v1), (k2, v2), ...]: body` (a literal list / tuple of tuples, or `{k: v, ...}.items()`) is replaced by
    one copy of the body per element with the loop targets substituted and the body's locals renamed per copy;
    `getattr(x, 'name')` with a constant name becomes `x.name`.  Table-driven code and its spelled-out form then look the same."""
    out = []
    for st in stmts:
        items = None
        if isinstance(st, ast.For) and not st.orelse:
            it = st.iter
            if isinstance(it, (ast.List, ast.Tuple)) and it.elts and all(isinstance(e, (ast.Tuple, ast.List)) for e in it.elts):
                items = [list(e.elts) for e in it.elts]
            elif isinstance(it, ast.Call) and isinstance(it.func, ast.Attribute) and it.func.attr == "items" and \
                    isinstance(it.func.value, ast.Dict) and it.func.value.keys and all(k is not None for k in it.func.value.keys):
                items = [[k, v] for k, v in zip(it.func.value.keys, it.func.value.values)]
            tgt = st.target
            names = [t.id for t in tgt.elts] if isinstance(tgt, (ast.Tuple, ast.List)) and all(isinstance(t, ast.Name) for t in tgt.elts) \
                else None
            if items is None or names is None or any(len(i) != len(names) for i in items) or \
                    any(isinstance(x, (ast.Break, ast.Continue, ast.Return)) for b in st.body for x in ast.walk(b)):
                items = None
        if items is None:
            out.append(st)
            continue
        body_locals = {n.id for b in st.body for n in ast.walk(b) if isinstance(n, ast.Name) and isinstance(n.ctx, ast.Store)}
        for k, item in enumerate(items):
            mapping = dict(zip(names, item))
            mapping.update({n: ast.Name(id="%s__it%d" % (n, k), ctx=ast.Load()) for n in body_locals})
            for b in st.body:
                nb = clone(b)
                for x in ast.walk(nb):
                    if isinstance(x, ast.Name) and isinstance(x.ctx, ast.Store) and x.id in body_locals:
                        x.id = "%s__it%d" % (x.id, k)
                nb = subst_names(nb, mapping)

                class G(ast.NodeTransformer):
                    def visit_Call(self, c):
                        self.generic_visit(c)
                        if isinstance(c.func, ast.Name) and c.func.id == "getattr" and len(c.args) == 2 and \
                                isinstance(c.args[1], ast.Constant) and isinstance(c.args[1].value, str) and c.args[1].value.isidentifier():
                            return ast.copy_location(ast.Attribute(value=c.args[0], attr=c.args[1].value, ctx=ast.Load()), c)
                        return c
                out.append(G().visit(nb))
    return out
