"""State families (shared rules, design §11.2 round 6): mistakes that need a SEQUENCE of calls to show.

Every detector works on syntax trees of /repo's current source, returns findings with a culprit statement, and has a built-in
positive example that is verified on every run (the expected number of instances on the repository is zero).

 S1 class_level_mutables   a mutable class attribute ({} / [] / set()) changed through an instance: shared by all objects
 S2 shallow_copy_writes    `c = copy.copy(x)` followed by a store INTO an attribute object of c: the original is changed too
 S3 partial_key_memos      a value derived from a parameter is kept on self and re-used under a test that looks only at a part
                           (index, shape, length, identity) of that parameter
 S4 memo_hands_out         an object kept in a memo container of self is returned as it is: the caller's edits reach later callers
 S5 constructor_snapshots  a constructor keeps `arg.prop` where prop is derived from state that methods of arg's class change
 S6 state_before_raise     an explicit rejection (`raise` / `assert`) is reached after self state was already changed
 S7 foreign_private_writes a private attribute of another class's object is assigned from outside that class
"""
from __future__ import annotations

import ast

from .astutil import call_name, calls_in, const_value, is_self_attr
from .cfg import CFG
from .frontend import AnalysisError, Module, Program, set_parents, walk_function
from .memo import MUTATORS, _self_reads, _transitive_reads, _writes
from .report import norm_text

MUTABLE_CTORS = ("dict", "list", "set", "collections.OrderedDict", "OrderedDict", "collections.defaultdict", "defaultdict",
                 "collections.deque", "deque")


def mini(src, name="ex"):
    tree = set_parents(ast.parse(src))
    p = object.__new__(Program)
    p.root, p.overrides, p._base = "", {}, None
    p.modules = {name: Module(name, name + ".py", src, tree, "0")}
    p.modules[name].pysource = src
    p.functions, p.classes, p.accessors, p._subclasses = {}, {}, {}, {}
    p._index()
    return p


def _methods(ci):
    return {name: fs[-1] for name, fs in ci.methods.items()}


def _is_mutable_literal(v):
    return isinstance(v, (ast.Dict, ast.List, ast.Set, ast.ListComp, ast.DictComp, ast.SetComp)) or \
        (isinstance(v, ast.Call) and (call_name(v) or "") in MUTABLE_CTORS)


# ------------------------------------------------------------------------------------------------------------ S1
def class_level_mutables(prog, ci):
    """-> [(fi, stmt, attr, how)] mutations of a mutable class attribute of `ci` (or of a base class) through an instance or
    the class"""
    attrs = {}
    for c in prog.mro(ci):
        for st in c.node.body:
            if isinstance(st, ast.Assign) and len(st.targets) == 1 and isinstance(st.targets[0], ast.Name) and _is_mutable_literal(st.value):
                attrs.setdefault(st.targets[0].id, c)
    out = []
    if not attrs:
        return out

    def is_ref(e):
        if not (isinstance(e, ast.Attribute) and e.attr in attrs):
            return False
        b = e.value
        return (isinstance(b, ast.Name) and (b.id in ("self", "cls") or b.id in {c.name for c in prog.mro(ci)})) or \
            (isinstance(b, ast.Call) and call_name(b) == "type") or (isinstance(b, ast.Attribute) and b.attr == "__class__")
    for name, fi in _methods(ci).items():
        rebound = set()
        for st in walk_function(fi.node):
            if isinstance(st, ast.Assign):
                for t in st.targets:
                    if is_self_attr(t) and t.attr in attrs:
                        rebound.add(t.attr)          # self.X = {} makes it an instance attribute from here on
        for st in walk_function(fi.node):
            if isinstance(st, (ast.Assign, ast.AugAssign)):
                for t in (st.targets if isinstance(st, ast.Assign) else [st.target]):
                    base = t
                    while isinstance(base, ast.Subscript):
                        base = base.value
                    if base is not t and is_ref(base) and base.attr not in rebound:
                        out.append((fi, st, base.attr, "item store"))
                    if isinstance(st, ast.AugAssign) and is_ref(t) and t.attr not in rebound:
                        out.append((fi, st, t.attr, "augmented assignment"))
            for c in calls_in(st) if isinstance(st, (ast.Expr, ast.Assign, ast.Return, ast.If)) else []:
                if isinstance(c.func, ast.Attribute) and c.func.attr in MUTATORS and is_ref(c.func.value) and \
                        c.func.value.attr not in rebound:
                    out.append((fi, st, c.func.value.attr, "." + c.func.attr + "()"))
    seen, uniq = set(), []
    for fi, st, a, how in out:
        k = (fi.key, id(st), a)
        if k not in seen:
            seen.add(k)
            uniq.append((fi, st, a, how))
    return uniq


# ------------------------------------------------------------------------------------------------------------ S2
def shallow_copy_writes(prog, fi):
    """-> [(stmt, copy name, target text)]"""
    copies = {}
    for st in walk_function(fi.node):
        if isinstance(st, ast.Assign) and isinstance(st.value, ast.Call) and len(st.targets) == 1 and isinstance(st.targets[0], ast.Name):
            cn = call_name(st.value) or ""
            shallow = cn in ("copy.copy", "copy") and len(st.value.args) == 1
            if not shallow and isinstance(st.value.func, ast.Attribute) and st.value.func.attr == "copy" and \
                    any(k.arg == "deep" and const_value(k.value) is False for k in st.value.keywords):
                shallow = True
            if not shallow and isinstance(st.value.func, ast.Attribute) and st.value.func.attr == "__copy__":
                shallow = True
            if shallow:
                copies[st.targets[0].id] = st
    out = []
    if not copies:
        return out
    replaced = {}          # copy name -> attributes re-bound on the copy (c.attr = fresh): writes into those are local
    for st in walk_function(fi.node):
        if isinstance(st, ast.Assign):
            for t in st.targets:
                if isinstance(t, ast.Attribute) and isinstance(t.value, ast.Name) and t.value.id in copies:
                    replaced.setdefault(t.value.id, set()).add(t.attr)
    for st in walk_function(fi.node):
        tg = []
        if isinstance(st, ast.Assign):
            tg = list(st.targets)
        elif isinstance(st, ast.AugAssign):
            tg = [st.target]
        for t in tg:
            chain, base = [], t
            while isinstance(base, (ast.Attribute, ast.Subscript)):
                chain.append(base)
                base = base.value
            if isinstance(base, ast.Name) and base.id in copies and len(chain) >= 2:
                first = chain[-1]
                if isinstance(first, ast.Attribute) and first.attr in replaced.get(base.id, set()):
                    continue
                out.append((st, base.id, norm_text(t)))
        for c in calls_in(st) if isinstance(st, ast.Expr) else []:
            f = c.func
            if isinstance(f, ast.Attribute) and f.attr in MUTATORS + ("fill", "put", "setflags", "itemset"):
                base, depth = f.value, 0
                while isinstance(base, (ast.Attribute, ast.Subscript)):
                    base, depth = base.value, depth + 1
                if isinstance(base, ast.Name) and base.id in copies and depth >= 1:
                    out.append((st, base.id, norm_text(f)))
    return out


# ------------------------------------------------------------------------------------------------------------ S3
PARTIAL = ("index", "columns", "shape", "size", "dtype", "name", "names", "ndim")


def partial_key_memos(prog, ci):
    """-> [(fi, store stmt, attr, parameter, how the test looks at it)] for memo attributes whose stored value is computed from a
    parameter while the re-use test inspects only a part of that parameter (or nothing of it)"""
    out = []
    for name, fi in _methods(ci).items():
        if name == "__init__":
            continue
        params = [p for p in fi.params if p not in ("self", "cls")]
        if not params:
            continue
        stores = []
        for st in walk_function(fi.node):
            if isinstance(st, ast.Assign):
                for t in st.targets:
                    if is_self_attr(t):
                        stores.append((st, t.attr, st.value))
            if isinstance(st, ast.Expr) and isinstance(st.value, ast.Call) and call_name(st.value) == "setattr" and len(st.value.args) == 3 and \
                    isinstance(st.value.args[0], ast.Name) and st.value.args[0].id == "self" and isinstance(const_value(st.value.args[1]), str):
                stores.append((st, const_value(st.value.args[1]), st.value.args[2]))
        if not stores:
            continue
        # local aliases of the memo: cached = getattr(self, 'A', None) / cached = self.A
        local_def = {}
        for st in walk_function(fi.node):
            if isinstance(st, ast.Assign) and len(st.targets) == 1 and isinstance(st.targets[0], ast.Name):
                local_def.setdefault(st.targets[0].id, []).append(st.value)

        def resolve(e, depth=0):
            names = {n.id for n in ast.walk(e) if isinstance(n, ast.Name)}
            res = [e]
            if depth < 3:
                for n in names:
                    for v in local_def.get(n, []):
                        res += resolve(v, depth + 1)
            return res
        for st, attr, val in stores:
            def mentions_attr(e):
                for x in resolve(e):
                    for n in ast.walk(x):
                        if is_self_attr(n, attr):
                            return True
                        if isinstance(n, ast.Call) and call_name(n) in ("getattr", "hasattr") and len(n.args) >= 2 and \
                                isinstance(n.args[0], ast.Name) and n.args[0].id == "self" and const_value(n.args[1]) == attr:
                            return True
                return False
            def memo_form(e):
                """the test asks whether the memo exists: `... is None`, hasattr / getattr, `not <memo>`"""
                for x in resolve(e):
                    for n in ast.walk(x):
                        if isinstance(n, ast.Call) and call_name(n) in ("getattr", "hasattr"):
                            return True
                for n in ast.walk(e):
                    if isinstance(n, ast.Compare) and any(isinstance(o, (ast.Is, ast.IsNot)) for o in n.ops) and \
                            any(isinstance(c, ast.Constant) and c.value is None for c in n.comparators):
                        return True
                    # identity key: `arg is not self._source`
                    if isinstance(n, ast.Compare) and any(isinstance(o, (ast.Is, ast.IsNot)) for o in n.ops) and \
                            any(is_self_attr(x) for x in [n.left] + list(n.comparators)):
                        return True
                return False
            tests = []
            p_, child = getattr(st, "_parent", None), st
            while p_ is not None and p_ is not fi.node:
                if isinstance(p_, ast.If) and mentions_attr(p_.test) and memo_form(p_.test):
                    tests.append(p_.test)
                child, p_ = p_, getattr(p_, "_parent", None)
            if not tests:
                continue
            deps = set()
            for x in resolve(val):
                deps |= {n.id for n in ast.walk(x) if isinstance(n, ast.Name) and n.id in params}
            for p in sorted(deps):
                whole, parts = False, set()
                for t in tests:
                    for x in [t]:
                        for n in ast.walk(x):
                            if isinstance(n, ast.Name) and n.id == p:
                                par = getattr(n, "_parent", None)
                                if isinstance(par, ast.Attribute) and par.attr in PARTIAL:
                                    parts.add("." + par.attr)
                                elif isinstance(par, ast.Call) and call_name(par) in ("len", "id", "type") and par.args and par.args[0] is n:
                                    parts.add(call_name(par) + "()")
                                elif isinstance(par, ast.Compare) and any(isinstance(o, (ast.Is, ast.IsNot)) for o in par.ops):
                                    parts.add("identity")
                                else:
                                    whole = True
                if not whole:
                    out.append((fi, st, attr, p, ", ".join(sorted(parts)) or "nothing"))
    return out


# ------------------------------------------------------------------------------------------------------------ S4
def memo_hands_out(prog, ci):
    """-> [(fi, return stmt, container attr)]: a method stores an object into a container held on self (dict / list set up in
    the constructor or on the class) and returns that same object, or returns an element of the container"""
    conts = set()
    for c in prog.mro(ci):
        for st in c.node.body:
            if isinstance(st, ast.Assign) and len(st.targets) == 1 and isinstance(st.targets[0], ast.Name) and _is_mutable_literal(st.value):
                conts.add(st.targets[0].id)
        init = c.methods.get("__init__")
        if init:
            for st in walk_function(init[-1].node):
                if isinstance(st, ast.Assign):
                    for t in st.targets:
                        if is_self_attr(t) and _is_mutable_literal(st.value):
                            conts.add(t.attr)
    out = []
    if not conts:
        return out

    def cont_item(e):
        return isinstance(e, ast.Subscript) and is_self_attr(e.value) and e.value.attr in conts
    for name, fi in _methods(ci).items():
        stored = {}
        for st in walk_function(fi.node):
            if isinstance(st, ast.Assign):
                for t in st.targets:
                    if cont_item(t) and isinstance(st.value, ast.Name):
                        stored[st.value.id] = t.value.attr
        if not stored and not any(cont_item(n) for n in ast.walk(fi.node)):
            continue
        for st in walk_function(fi.node):
            if isinstance(st, ast.Return) and st.value is not None:
                v = st.value
                if cont_item(v) and isinstance(v.ctx, ast.Load):
                    out.append((fi, st, v.value.attr))
                elif isinstance(v, ast.Call) and isinstance(v.func, ast.Attribute) and v.func.attr in ("get", "setdefault") and \
                        is_self_attr(v.func.value) and v.func.value.attr in conts:
                    out.append((fi, st, v.func.value.attr))
                elif isinstance(v, ast.Name) and v.id in stored:
                    out.append((fi, st, stored[v.id]))
    return out


# ------------------------------------------------------------------------------------------------------------ S5
def constructor_snapshots(prog, ci, owner_classes):
    """-> [(init fi, stmt, attr kept, source text, owner class, changed attrs)]: the constructor keeps `arg.X` (X a property or
    zero-argument method of one of `owner_classes`) that is computed from attributes which non-constructor methods of that
    class assign"""
    out = []
    init = ci.methods.get("__init__")
    if not init:
        return out
    fi = init[-1]
    params = [p for p in fi.params if p != "self"]
    for st in walk_function(fi.node):
        if not isinstance(st, ast.Assign):
            continue
        if not any(is_self_attr(t) for t in st.targets):
            continue
        for n in ast.walk(st.value):
            if isinstance(n, ast.Attribute) and isinstance(n.value, ast.Name) and n.value.id in params:
                for oc in owner_classes:
                    m = prog.lookup_method(oc, n.attr)
                    if m is None:
                        continue
                    deps = _transitive_reads(oc, prog, m.node)
                    changed = set()
                    for mn, mf in _methods(oc).items():
                        if mn == "__init__":
                            continue
                        changed |= set(_writes(mf)) & deps
                    if changed:
                        kept = [t.attr for t in st.targets if is_self_attr(t)][0]
                        out.append((fi, st, kept, norm_text(n), oc, sorted(changed)))
    return out


# ------------------------------------------------------------------------------------------------------------ S6
def state_before_raise(prog, fi, state_attrs=None):
    """-> [(raise/assert stmt, store stmt, attr)]: an explicit `raise` (not a re-raise inside an except handler) or `assert`
    that some self-attribute store can precede on a path from the function entry"""
    fn = fi.node
    cfg = CFG(fn)
    stores = []
    for st in walk_function(fn):
        if isinstance(st, (ast.Assign, ast.AugAssign)):
            for t in (st.targets if isinstance(st, ast.Assign) else [st.target]):
                base = t
                while isinstance(base, ast.Subscript):
                    base = base.value
                if is_self_attr(base) and (state_attrs is None or base.attr in state_attrs):
                    # lazy initialisation (`if self.x is None: self.x = <default>`) is idempotent: a refused call that got as far
                    # leaves nothing behind that the next call would not create anyway
                    par = getattr(st, "_parent", None)
                    lazy = isinstance(par, ast.If) and isinstance(par.test, ast.Compare) and len(par.test.ops) == 1 and \
                        isinstance(par.test.ops[0], ast.Is) and is_self_attr(par.test.left, base.attr) and \
                        isinstance(par.test.comparators[0], ast.Constant) and par.test.comparators[0].value is None
                    if not lazy:
                        stores.append((st, base.attr))
    out = []
    if not stores:
        return out
    succ = {a: {d for d, _ in lst} for a, lst in cfg.succ.items()}

    def reach(src):
        seen, todo = set(), [src]
        while todo:
            x = todo.pop()
            for y in succ.get(x, ()):
                if y not in seen:
                    seen.add(y)
                    todo.append(y)
        return seen
    for r in walk_function(fn):
        if isinstance(r, ast.Raise):
            if r.exc is None:
                continue
            p, handler = getattr(r, "_parent", None), False
            while p is not None and p is not fn:
                if isinstance(p, ast.ExceptHandler):
                    handler = True
                p = getattr(p, "_parent", None)
            if handler:
                continue
        elif not isinstance(r, ast.Assert):
            continue
        rn = cfg.node(r)
        if rn is None:
            continue
        for st, attr in stores:
            sn = cfg.node(st)
            if sn is not None and rn in reach(sn):
                out.append((r, st, attr))
                break
    return out


# ------------------------------------------------------------------------------------------------------------ S7
def foreign_private_writes(prog, module, owners):
    """-> [(fi, stmt, attr, receiver)]: `<x>._attr = ...` / `<x>._attr[...] = ...` where `_attr` is a private attribute that only the
    classes in `owners` (name -> set of private attributes they define) may assign, the writer is not a method of an owner (or
    of the class an owner is nested in), and <x> is not a fresh local object (`x = Owner(...)` in the same function)"""
    out = []
    for key, fi in prog.functions.items():
        if fi.module.name != module:
            continue
        cls_names = set()
        c = fi.cls
        if c is not None:
            cls_names.add(c.name)
        q = fi.qualname.split(".")
        cls_names |= set(q[:-1])
        fresh = set()
        for st in walk_function(fi.node):
            if isinstance(st, ast.Assign) and isinstance(st.value, ast.Call) and len(st.targets) == 1 and isinstance(st.targets[0], ast.Name):
                cn = (call_name(st.value) or "").split(".")[-1]
                if cn in owners:
                    fresh.add(st.targets[0].id)
        for st in walk_function(fi.node):
            if not isinstance(st, (ast.Assign, ast.AugAssign)):
                continue
            for t in (st.targets if isinstance(st, ast.Assign) else [st.target]):
                base = t
                while isinstance(base, ast.Subscript):
                    base = base.value
                if not isinstance(base, ast.Attribute) or is_self_attr(base):
                    continue
                for oname, attrs in owners.items():
                    if base.attr in attrs:
                        allowed = oname in cls_names or any(oname in prog.classes[k].name for k in () )
                        nested_in = owners.get("__nested_in__", {}).get(oname)
                        if nested_in and nested_in in cls_names:
                            allowed = True
                        recv = base.value
                        if isinstance(recv, ast.Name) and recv.id in fresh:
                            allowed = True
                        if not allowed:
                            out.append((fi, st, base.attr, norm_text(recv)))
    return out


# ------------------------------------------------------------------------------------------------------------ self-test
_EX = '''
import copy
class A:
    _shared = {}
    def __init__(self, obj):
        self._obj = obj
        self._memo = {}
        self._zone = obj.zone
    def fill(self):
        self._shared.update(a=self._obj)
    def smaller(self):
        c = copy.copy(self)
        c._obj.x = 1
        return c
    def tri(self, points):
        cached = getattr(self, '_tri', None)
        if cached is None or not cached[0].equals(points.index):
            cached = (points.index, make(points.to_numpy()))
            self._tri = cached
        return cached[1]
    def at(self, p):
        if p in self._memo:
            return self._memo[p]
        r = build(p)
        self._memo[p] = r
        return r
    def step(self, samples):
        self._run += 1
        if isinstance(samples, dict):
            raise TypeError("no")
class B:
    def __init__(self):
        self._t = 0
    @property
    def zone(self):
        return self._t + 1
    def set_t(self, t):
        self._t = t
class P:
    def __init__(self, a):
        a._obj = None
'''


def selftest():
    p = mini(_EX)
    a, b = p.classes["ex:A"], p.classes["ex:B"]
    got = (len(class_level_mutables(p, a)), len(shallow_copy_writes(p, p.functions["ex:A.smaller"])), len(partial_key_memos(p, a)),
           len(memo_hands_out(p, a)), len(constructor_snapshots(p, a, [b])), len(state_before_raise(p, p.functions["ex:A.step"])),
           len(foreign_private_writes(p, "ex", {"A": {"_obj"}})))
    if got != (1, 1, 1, 2, 1, 1, 1):
        raise AnalysisError("state-family positive examples failed: %s" % (got,))
    return got


# ------------------------------------------------------------------------------------------------------------ driver
def apply(ctx, rule_id, floor_what, classes=(), functions=(), kinds=("S1", "S2", "S3", "S4"), floor=1):
    """run the chosen detectors over classes / functions of ctx.prog and record one instance per examined construct; the
    built-in positive examples are verified first (exit 2 if a detector has gone blind)"""
    prog = ctx.prog
    selftest()
    ctx.rule(rule_id, floor=floor, what=floor_what)
    ctx.holds("selftest:state-families", None, "the state-family detectors find their built-in examples")
    for ci in classes:
        bad = False
        if "S1" in kinds:
            for fi, st, attr, how in class_level_mutables(prog, ci):
                bad = True
                ctx.violated(fi, st, "%s.%s changes the class attribute %s (%s): the object is shared by every instance of the class, so "
                             "what one object stores there is what the next one reads" % (ci.name, fi.name, attr, how),
                             text="class-level %s changed in %s" % (attr, fi.name))
        if "S3" in kinds:
            for fi, st, attr, p, how in partial_key_memos(prog, ci):
                bad = True
                ctx.violated(fi, st, "%s.%s keeps a value computed from its argument `%s` in self.%s and re-uses it after looking at %s "
                             "of that argument only: a later call whose argument differs elsewhere gets the value computed for the "
                             "earlier one" % (ci.name, fi.name, p, attr, how), text="memo %s keyed by part of %s" % (attr, p))
        if "S4" in kinds:
            for fi, st, attr in memo_hands_out(prog, ci):
                bad = True
                ctx.violated(fi, st, "%s.%s returns the very object it keeps in self.%s: whatever the caller does to it is what the "
                             "next caller with the same key receives" % (ci.name, fi.name, attr), text="memo %s handed out by %s" % (attr, fi.name))
        if not bad:
            ctx.holds(ci.key, None, "%s: no shared class-level state, no partially keyed memo, no memo object handed out" % ci.name)
    for fi in functions:
        if "S2" in kinds:
            hits = shallow_copy_writes(prog, fi)
            for st, c, tgt in hits:
                ctx.violated(fi, st, "%s writes %s on a SHALLOW copy (%s): the attribute object is the original's, which is changed "
                             "as well" % (fi.name, tgt, c), text="write through shallow copy " + tgt)
            if not hits and any((call_name(c) or "") in ("copy.copy", "copy.deepcopy") or
                                (isinstance(c.func, ast.Attribute) and c.func.attr == "copy") for c in calls_in(fi.node)):
                ctx.holds(fi, fi.node, "%s: copies are deep or only re-bound at the top level" % fi.name)
