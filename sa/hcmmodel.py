"""Path-by-path abstract execution of the HCM case dispatch (design §11.1 / §11.4).

`FKMNonlinearDetector._hcm_process_sample` is a small state machine: two counters (iz = open residuals, ir = residuals on the
primary path), three data predicates (NEWMAX: |load| exceeds the running maximum; SMALLER: the current load extent is smaller
than the previous one; INNER: both ends of the closed hysteresis lie inside the seen load range) and six handlers.  The rules
that read its *statements* (R-C02-1/2/3, R-C04-5, R-C05-1) only understand the `while True` / `break` / `continue` form.  This
module decides the same clauses for *any* control-flow shape built from while / if / break / continue / return: the body is
executed abstractly for every combination of

    iz - ir in {-1, 0, 1, 2, 3, 4},  NEWMAX, RUN1 (pass one?) in {True, False},
    (SMALLER_k, INNER_k) for the k-th closing attempt, k = 0, 1, 2

with the counters concrete, the data predicates answered by the scenario (a branch test is classified by its *form*, after the
locals it uses have been substituted), and the handler calls, stack slots handed to them and counter updates recorded as a
trace.  The trace must equal the trace of the textbook HCM case analysis for that scenario.  Branch tests the classifier does
not know make the analysis undecided (AnalysisError); a trace that differs is a violation that names the scenario.

No pylife code is run: the interpreter walks the syntax tree with abstract values (two small integers, opaque symbols).
"""
from __future__ import annotations

import ast
import itertools

from .astutil import call_name, const_value, is_self_attr, subst_names
from .frontend import AnalysisError
from .report import norm_text

EPS_MAX = 1e-9          # round-off guards accepted in the predicates (a literal, non-negative, tiny)


class _Return(Exception):
    def __init__(self, value):
        self.value = value


class _Break(Exception):
    pass


class _Continue(Exception):
    pass


def _strip_eps(e):
    """X + eps / X - eps with a tiny literal eps -> (X, signed eps); else (e, 0)"""
    if isinstance(e, ast.BinOp) and isinstance(e.op, (ast.Add, ast.Sub)):
        c = const_value(e.right)
        if isinstance(c, (int, float)) and not isinstance(c, bool) and 0 <= c <= EPS_MAX:
            return e.left, (c if isinstance(e.op, ast.Add) else -c)
    return e, 0.0


def _abs_arg(e):
    if isinstance(e, ast.Call) and (call_name(e) or "") in ("np.abs", "abs", "np.fabs", "np.absolute") and len(e.args) == 1:
        return e.args[0]
    return None


class Dispatch:
    """abstract executor of one dispatch function"""

    def __init__(self, fi, roles):
        self.fi = fi
        self.roles = roles            # names: cur (current load), mx (running maximum), stack (attribute holding the residuals)
        self.preds = {}               # predicate key -> normalised text of the test (for reports / cross checks)

    # ------------------------------------------------------------------ classification of data predicates
    def _slot(self, e):
        """self._residuals[-k] (possibly .load_representative) -> -k"""
        if isinstance(e, ast.Attribute) and e.attr == "load_representative":
            e = e.value
        if isinstance(e, ast.Subscript) and is_self_attr(e.value, self.roles["stack"]):
            k = const_value(e.slice)
            if isinstance(k, int) and k < 0:
                return k
        return None

    def _is_cur(self, e):
        return isinstance(e, ast.Name) and e.id == self.roles["cur"]

    def classify(self, t):
        """-> (key, negated) for an atomic test, or None"""
        if isinstance(t, ast.Compare) and len(t.ops) == 1:
            op = type(t.ops[0])
            a, b = t.left, t.comparators[0]
            if op in (ast.Lt, ast.LtE):              # write everything as  big > small  /  big >= small
                a, b, op = b, a, (ast.Gt if op is ast.Lt else ast.GtE)
            if op not in (ast.Gt, ast.GtE):
                if is_self_attr(a, "_run_index") and const_value(b) == 1 and op is ast.Eq:
                    return "RUN1", False
                if is_self_attr(a, "_run_index") and const_value(b) == 1 and op is ast.NotEq:
                    return "RUN1", True
                return None
            strict = op is ast.Gt
            big, eb = _strip_eps(a)
            small, es = _strip_eps(b)
            eps = es - eb                              # big > small + eps
            ab, asm = _abs_arg(big), _abs_arg(small)
            mx = lambda z: isinstance(z, ast.Name) and z.id == self.roles["mx"]
            # |cur| > max + eps
            if ab is not None and self._is_cur(ab) and mx(small):
                if strict and 0 <= eps <= EPS_MAX:
                    return self._note("NEWMAX", t), False
                return self._note("NEWMAX?%s%g" % (">" if strict else ">=", eps), t), False
            # max + eps >= |cur|  ==  not NEWMAX
            if asm is not None and self._is_cur(asm) and mx(big):
                if not strict and -EPS_MAX <= eps <= 0:
                    return self._note("NEWMAX", t), True
                return self._note("NEWMAX?rev", t), True
            # previous extent (- eps) > current extent  ==  SMALLER ;  current >= previous - eps  ==  not SMALLER
            ext = lambda z: self._extent(z)
            if ab is not None and asm is not None:
                kb, ks = ext(ab), ext(asm)
                if kb == "prev" and ks == "cur":
                    if strict and 0 <= eps <= EPS_MAX:
                        return self._note("SMALLER", t), False
                    return self._note("SMALLER?%s%g" % (">" if strict else ">=", eps), t), False
                if kb == "cur" and ks == "prev":
                    if not strict and -EPS_MAX <= eps <= EPS_MAX:
                        return self._note("SMALLER", t), True
                    return self._note("SMALLER?rev", t), True
            # max (- eps) > |P_k|  : one half of INNER
            if asm is not None and mx(big) and self._slot(asm) in (-1, -2):
                if strict and -EPS_MAX <= eps <= EPS_MAX:
                    return ("INNER%d" % self._slot(asm)), False
                return self._note("INNER?%s%g" % (">" if strict else ">=", eps), t), False
            if ab is not None and mx(small) and self._slot(ab) in (-1, -2):
                if not strict:
                    return ("INNER%d" % self._slot(ab)), True
                return self._note("INNER?rev", t), True
        return None

    def _extent(self, d):
        """cur - P[-1] -> 'cur' ; P[-1] - P[-2] -> 'prev' (either order of the operands)"""
        if isinstance(d, ast.BinOp) and isinstance(d.op, ast.Sub):
            l, r = d.left, d.right
            if (self._is_cur(l) and self._slot(r) == -1) or (self._is_cur(r) and self._slot(l) == -1):
                return "cur"
            if {self._slot(l), self._slot(r)} == {-1, -2}:
                return "prev"
        return None

    def _note(self, key, t):
        self.preds.setdefault(key, norm_text(t))
        return key

    # ------------------------------------------------------------------ execution
    def run(self, d0, scenario, max_iter=12):
        """-> (events, d_iz, d_ir) ; scenario: dict NEWMAX/RUN1 -> bool, SMALLER/INNER -> list of bool per closing attempt"""
        ints = {"iz": 10 + d0, "ir": 10}
        self.ints0 = dict(ints)
        exprs = {}
        events = []
        self.closings = 0

        def subst(e):
            out = e
            for _ in range(4):
                new = subst_names(out, {k: v for k, v in exprs.items()})
                if ast.dump(new) == ast.dump(out):
                    break
                out = new
            return out

        def value_int(e):
            c = const_value(e)
            if isinstance(c, int) and not isinstance(c, bool):
                return c
            if isinstance(e, ast.Name) and e.id in ints:
                return ints[e.id]
            if isinstance(e, ast.BinOp) and isinstance(e.op, (ast.Add, ast.Sub)):
                a, b = value_int(e.left), value_int(e.right)
                if a is not None and b is not None:
                    return a + b if isinstance(e.op, ast.Add) else a - b
            if isinstance(e, ast.Call) and call_name(e) == "len" and e.args and is_self_attr(e.args[0], self.roles["stack"]):
                return ints["iz"]                      # iz == len(residuals) is the invariant the counter stands for
            return None

        def decide(t):
            if isinstance(t, ast.Constant):
                return bool(t.value)
            if isinstance(t, ast.UnaryOp) and isinstance(t.op, ast.Not):
                return not decide(t.operand)
            if isinstance(t, ast.BoolOp):
                vals = [decide(v) for v in t.values]
                return all(vals) if isinstance(t.op, ast.And) else any(vals)
            if isinstance(t, ast.Name) and t.id in exprs:
                return decide(exprs[t.id])
            if isinstance(t, ast.Compare) and len(t.ops) == 1:
                a, b = value_int(t.left), value_int(t.comparators[0])
                if a is not None and b is not None:
                    return {ast.Eq: a == b, ast.NotEq: a != b, ast.Lt: a < b, ast.LtE: a <= b, ast.Gt: a > b, ast.GtE: a >= b}[
                        type(t.ops[0])]
            ts = subst(t)
            if ts is not t and not isinstance(ts, ast.Compare):
                return decide(ts)
            got = self.classify(ts)
            if got is None:
                raise AnalysisError("%s: branch test %s is not one of the HCM predicates" % (self.fi.name, norm_text(ts)[:100]))
            key, neg = got
            if key.startswith("INNER-"):
                pair = scenario["INNER"][min(self.closings - 1, len(scenario["INNER"]) - 1)] if self.closings else (True, True)
                val = pair[0] if key == "INNER-2" else pair[1]
            elif key == "SMALLER":
                val = scenario["SMALLER"][min(self.closings, len(scenario["SMALLER"]) - 1)]
            elif key in ("NEWMAX", "RUN1"):
                val = scenario[key]
            else:
                raise AnalysisError("%s: predicate %s (%s) deviates from the HCM form" % (self.fi.name, key, self.preds.get(key)))
            return (not val) if neg else val

        def call_event(c, target=None):
            f = c.func
            if isinstance(f, ast.Attribute) and is_self_attr(f):
                kw = {}
                for k in c.keywords:
                    v = subst(k.value)
                    sl = self._slot(v)
                    kw[k.arg] = ("slot", sl) if sl is not None else None
                name = f.attr
                events.append((name, tuple(sorted((k, v) for k, v in kw.items() if v is not None))))
                if "c_ii" in name:
                    self.closings += 1
                return
            if isinstance(f, ast.Attribute) and f.attr == "append" and is_self_attr(f.value, "_strain_values"):
                events.append(("strain_append", ()))

        def block(body):
            for st in body:
                if isinstance(st, ast.Expr):
                    if isinstance(st.value, ast.Call):
                        call_event(st.value)
                elif isinstance(st, ast.Assign):
                    if isinstance(st.value, ast.Call) and isinstance(st.value.func, ast.Attribute) and is_self_attr(st.value.func):
                        call_event(st.value)
                        for t in st.targets:
                            for n in ast.walk(t):
                                if isinstance(n, ast.Name):
                                    exprs.pop(n.id, None)
                        continue
                    if len(st.targets) == 1 and isinstance(st.targets[0], ast.Name):
                        nm = st.targets[0].id
                        iv = value_int(st.value) if nm in ints else None
                        if nm in ints:
                            if iv is None:
                                raise AnalysisError("%s: counter %s assigned a non-constant" % (self.fi.name, nm))
                            ints[nm] = iv
                        else:
                            exprs[nm] = subst(st.value)
                elif isinstance(st, ast.AugAssign):
                    if isinstance(st.target, ast.Name) and st.target.id in ints:
                        c = const_value(st.value)
                        if not isinstance(c, int):
                            raise AnalysisError("%s: counter %s changed by a non-constant" % (self.fi.name, st.target.id))
                        ints[st.target.id] += c if isinstance(st.op, ast.Add) else -c
                    elif is_self_attr(st.target, "_n_strain_values_first_run"):
                        events.append(("count_first_run", ()))
                elif isinstance(st, ast.If):
                    block(st.body if decide(st.test) else st.orelse)
                elif isinstance(st, ast.While):
                    n = 0
                    while decide(st.test):
                        n += 1
                        if n > max_iter:
                            raise AnalysisError("%s: loop does not terminate in the abstract execution" % self.fi.name)
                        try:
                            block(st.body)
                        except _Break:
                            break
                        except _Continue:
                            continue
                    else:
                        block(st.orelse)
                elif isinstance(st, ast.Break):
                    raise _Break()
                elif isinstance(st, ast.Continue):
                    raise _Continue()
                elif isinstance(st, ast.Return):
                    raise _Return(st.value)
                elif isinstance(st, (ast.Pass, ast.Assert)):
                    pass
                else:
                    raise AnalysisError("%s: statement %s not modelled" % (self.fi.name, type(st).__name__))
        body = [s for s in self.fi.node.body if not (isinstance(s, ast.Expr) and isinstance(s.value, ast.Constant))]
        try:
            block(body)
        except _Return:
            pass
        except (_Break, _Continue):
            raise AnalysisError("%s: break/continue outside a loop" % self.fi.name)
        return events, ints["iz"] - self.ints0["iz"], ints["ir"] - self.ints0["ir"]


def spec_trace(d0, sc, names):
    """what the HCM case analysis does for one scenario: (events, d_iz, d_ir)"""
    ev = []
    d, diz, dir_, k = d0, 0, 0, 0
    while d > 0:
        smaller = sc["SMALLER"][min(k, len(sc["SMALLER"]) - 1)]
        if smaller:
            ev.append((names["c_i"], (("previous_point_1", ("slot", -1)),)))
            return ev, diz, dir_
        ev.append((names["c_ii"], (("previous_point_0", ("slot", -2)), ("previous_point_1", ("slot", -1)))))
        d -= 2
        diz -= 2
        inner = all(sc["INNER"][min(k, len(sc["INNER"]) - 1)])
        k += 1
        if not inner:
            ev.append((names["primary"], ()))
            ev.append(("strain_append", ()))
            if sc["RUN1"]:
                ev.append(("count_first_run", ()))
            return ev, diz, dir_
    if d < 0:
        ev.append((names["b"], ()))
    elif sc["NEWMAX"]:
        ev.append((names["a_i"], (("previous_point", ("slot", -1)),)))
        dir_ += 1
    else:
        ev.append((names["a_ii"], (("previous_point", ("slot", -1)),)))
    return ev, diz, dir_


def scenarios():
    for d0 in (-1, 0, 1, 2, 3, 4):
        for nm, r1 in itertools.product((True, False), repeat=2):
            for sm in itertools.product((True, False), repeat=2):
                for inn in itertools.product(list(itertools.product((True, False), repeat=2)), repeat=2):
                    yield d0, {"NEWMAX": nm, "RUN1": r1, "SMALLER": list(sm), "INNER": list(inn)}


def check_dispatch(fi, roles, names):
    """-> (number of scenarios, first mismatch or None, predicates found)"""
    dsp = Dispatch(fi, roles)
    n = 0
    for d0, sc in scenarios():
        got = dsp.run(d0, sc)
        want = spec_trace(d0, sc, names)
        n += 1
        if got != want:
            return n, (d0, sc, got, want), dsp.preds
    return n, None, dsp.preds


# ----------------------------------------------------------------------------------------------------------------------
# The plain FKM (Clormann-Seeger) detector: the per-turn body of FKMDetector.process

class TurnLoop(Dispatch):
    """abstract executor of the body of `for current in turns:` in FKMDetector.process.  Counters: the length of the residual
    stack (changed by pop / del / append) and the primary-path counter ir; data predicates as in Dispatch (SMALLER without
    round-off guard, i.e. the loop closes iff |cur - r[-1]| >= |r[-1] - r[-2]|).  Stack entries read into locals keep their
    absolute position, so the order of `record` and `pop` does not matter."""

    def __init__(self, fi, loop, roles, aliases, rec_lists):
        super().__init__(fi, roles)
        self.loop = loop
        self.aliases = aliases          # local names bound to the stack object
        self.rec = rec_lists            # (from-list name, to-list name)
        self.sl = 0

    def _is_stack(self, e):
        return is_self_attr(e, self.roles["stack"]) or (isinstance(e, ast.Name) and e.id in self.aliases)

    def _abs_slot(self, e):
        if isinstance(e, ast.Name) and e.id.startswith("__slot_"):
            return int(e.id[7:].replace("m", "-"))
        if isinstance(e, ast.Subscript) and self._is_stack(e.value):
            k = const_value(e.slice)
            if isinstance(k, int) and k < 0:
                return self.sl + k
        return None

    def _slot(self, e):
        a = self._abs_slot(e)
        if a is None:
            return None
        pair = getattr(self, "last_pair", None)
        if pair is not None and a in pair and a >= self.sl:
            return -2 if a == pair[0] else -1        # an end of the hysteresis just closed (already removed from the stack)
        return a - self.sl

    def run_turn(self, d0, scenario, max_iter=12):
        self.last_pair = None
        ir0 = 10
        self.sl = ir0 + d0
        sl0 = self.sl
        ints = {self.roles["ir"]: ir0}
        exprs = {}
        events = []
        self.closings = 0

        def subst(e):
            out = e
            for _ in range(4):
                new = subst_names(out, exprs)
                if ast.dump(new) == ast.dump(out):
                    break
                out = new
            return out

        def value_int(e):
            c = const_value(e)
            if isinstance(c, int) and not isinstance(c, bool):
                return c
            if isinstance(e, ast.Name) and e.id in ints:
                return ints[e.id]
            if isinstance(e, ast.Call) and call_name(e) == "len" and e.args and self._is_stack(e.args[0]):
                return self.sl
            if isinstance(e, ast.BinOp) and isinstance(e.op, (ast.Add, ast.Sub)):
                a, b = value_int(e.left), value_int(e.right)
                if a is not None and b is not None:
                    return a + b if isinstance(e.op, ast.Add) else a - b
            return None

        def decide(t):
            if isinstance(t, ast.Constant):
                return bool(t.value)
            if isinstance(t, ast.UnaryOp) and isinstance(t.op, ast.Not):
                return not decide(t.operand)
            if isinstance(t, ast.BoolOp):
                vals = [decide(v) for v in t.values]
                return all(vals) if isinstance(t.op, ast.And) else any(vals)
            if isinstance(t, ast.Name) and t.id in exprs:
                return decide(exprs[t.id])
            if isinstance(t, ast.Compare) and len(t.ops) == 1:
                a, b = value_int(t.left), value_int(t.comparators[0])
                if a is not None and b is not None:
                    return {ast.Eq: a == b, ast.NotEq: a != b, ast.Lt: a < b, ast.LtE: a <= b, ast.Gt: a > b, ast.GtE: a >= b}[
                        type(t.ops[0])]
            ts = subst(t)
            got = self.classify(ts)
            if got is None:
                raise AnalysisError("%s: branch test %s is not one of the HCM predicates" % (self.fi.name, norm_text(ts)[:100]))
            key, neg = got
            if key.startswith("INNER-"):
                # the closed pair has been removed or not yet; the halves refer to the pair of the last closing decision
                pair = scenario["INNER"][min(max(self.closings - 1, 0), len(scenario["INNER"]) - 1)]
                val = pair[0] if key == "INNER-2" else pair[1]
            elif key == "SMALLER":
                val = scenario["SMALLER"][min(self.closings, len(scenario["SMALLER"]) - 1)]
                if not val:
                    self.last_pair = (self.sl - 2, self.sl - 1)
            elif key == "NEWMAX":
                val = scenario["NEWMAX"]
            else:
                raise AnalysisError("%s: predicate %s (%s) deviates from the HCM form" % (self.fi.name, key, self.preds.get(key)))
            return (not val) if neg else val

        def stack_stmt(st):
            """pop / del / append on the stack; returns True if handled"""
            if isinstance(st, ast.Delete):
                for t in st.targets:
                    if isinstance(t, ast.Subscript) and self._is_stack(t.value) and isinstance(t.slice, ast.Slice) and \
                            t.slice.upper is None and isinstance(const_value(t.slice.lower), int) and const_value(t.slice.lower) < 0:
                        k = -const_value(t.slice.lower)
                        for _ in range(k):
                            self.sl -= 1
                            events.append(("pop", self.sl))
                        return True
                return False
            if isinstance(st, ast.Expr) and isinstance(st.value, ast.Call) and isinstance(st.value.func, ast.Attribute):
                c = st.value
                if self._is_stack(c.func.value):
                    if c.func.attr == "pop" and not c.args:
                        self.sl -= 1
                        events.append(("pop", self.sl))
                        return True
                    if c.func.attr == "append" and len(c.args) == 1:
                        v = subst(c.args[0])
                        events.append(("push", "cur" if self._is_cur(v) else norm_text(v)))
                        self.sl += 1
                        return True
                    raise AnalysisError("%s: stack operation %s not modelled" % (self.fi.name, norm_text(c)))
                if isinstance(c.func.value, ast.Name) and c.func.value.id in self.rec and c.func.attr == "append" and len(c.args) == 1:
                    v = subst(c.args[0])
                    events.append(("rec", "from" if c.func.value.id == self.rec[0] else "to", self._abs_slot(v)))
                    return True
            return False

        def block(body):
            for st in body:
                if stack_stmt(st):
                    if any(e[0] == "pop" for e in events[-1:]):
                        pops = sum(1 for e in events if e[0] == "pop")
                        self.closings = pops // 2
                    continue
                if isinstance(st, ast.Expr):
                    continue
                if isinstance(st, ast.Assign) and len(st.targets) == 1 and isinstance(st.targets[0], ast.Name):
                    nm = st.targets[0].id
                    if nm == self.roles["mx"]:
                        v = subst(st.value)
                        ok = isinstance(v, ast.Call) and (call_name(v) or "") in ("max", "np.maximum", "np.fmax") and len(v.args) == 2 and \
                            any(_abs_arg(a) is not None and self._is_cur(_abs_arg(a)) for a in v.args) and \
                            any(isinstance(a, ast.Name) and a.id == self.roles["mx"] for a in v.args)
                        events.append(("max_update", "ok" if ok else norm_text(v)))
                        continue
                    iv = value_int(st.value)
                    if nm in ints or iv is not None:
                        if iv is None:
                            raise AnalysisError("%s: counter %s assigned a non-constant" % (self.fi.name, nm))
                        ints[nm] = iv
                        continue
                    a = self._abs_slot(subst(st.value))
                    if a is not None:
                        exprs[nm] = ast.Name(id="__slot_%s" % str(a).replace("-", "m"), ctx=ast.Load())
                    else:
                        exprs[nm] = subst(st.value)
                elif isinstance(st, ast.AugAssign) and isinstance(st.target, ast.Name) and st.target.id in ints:
                    c = const_value(st.value)
                    if not isinstance(c, int):
                        raise AnalysisError("%s: counter %s changed by a non-constant" % (self.fi.name, st.target.id))
                    ints[st.target.id] += c if isinstance(st.op, ast.Add) else -c
                elif isinstance(st, ast.If):
                    block(st.body if decide(st.test) else st.orelse)
                elif isinstance(st, ast.While):
                    n = 0
                    broke = False
                    while decide(st.test):
                        n += 1
                        if n > max_iter:
                            raise AnalysisError("%s: loop does not terminate in the abstract execution" % self.fi.name)
                        try:
                            block(st.body)
                        except _Break:
                            broke = True
                            break
                        except _Continue:
                            continue
                    if not broke and st.orelse:
                        block(st.orelse)          # while ... else: runs when the condition became false
                elif isinstance(st, ast.Break):
                    raise _Break()
                elif isinstance(st, ast.Continue):
                    raise _Continue()
                elif isinstance(st, (ast.Pass, ast.Assert)):
                    pass
                elif isinstance(st, ast.Assign) and all(is_self_attr(t) for t in st.targets):
                    pass                         # write-back of the mirrored state (decided by R-C01-1)
                else:
                    raise AnalysisError("%s: statement %s not modelled" % (self.fi.name, type(st).__name__))
        try:
            block(self.loop.body)
        except (_Break, _Continue):
            raise AnalysisError("%s: break/continue outside the inner loop" % self.fi.name)
        return _canon_turn(events), self.sl - sl0, ints[self.roles["ir"]] - ir0


def _canon_turn(events):
    """the two record events of one closing may come in either order, and before or after the two pops"""
    out, buf = [], []
    for e in events:
        if e[0] in ("rec", "pop"):
            buf.append(e)
        else:
            out.extend(sorted(buf, key=repr))
            buf = []
            out.append(e)
    out.extend(sorted(buf, key=repr))
    return out


def spec_turn(d0, sc):
    ir0 = 10
    sl = ir0 + d0
    sl0, dir_, k, ev, buf = sl, 0, 0, [], []
    while True:
        d = sl - (ir0 + dir_)
        if d < 0:
            break
        if d > 0:
            if sc["SMALLER"][min(k, len(sc["SMALLER"]) - 1)]:
                break
            buf += [("rec", "from", sl - 2), ("rec", "to", sl - 1), ("pop", sl - 1), ("pop", sl - 2)]
            sl -= 2
            inner = all(sc["INNER"][min(k, len(sc["INNER"]) - 1)])
            k += 1
            if inner:
                continue
            break
        if sc["NEWMAX"]:
            dir_ += 1
        break
    ev = sorted(buf, key=repr) + [("max_update", "ok"), ("push", "cur")]
    return ev, sl + 1 - sl0, dir_


def check_turn_loop(fi, loop, roles, aliases, rec_lists):
    tl = TurnLoop(fi, loop, roles, aliases, rec_lists)
    n = 0
    for d0, sc in scenarios():
        if sc["RUN1"]:
            continue                         # no pass counter in the plain detector
        got = tl.run_turn(d0, sc)
        want = spec_turn(d0, sc)
        n += 1
        if got != want:
            return n, (d0, sc, got, want), tl.preds
    return n, None, tl.preds
