"""Symbolic evaluation of straight-line methods into normal forms (design §2.5).

``MethodNF`` translates a method body *from its syntax tree* into rational normal
forms: parameters are symbols (or given normal forms), ``self._x`` is inlined from
the ``__init__`` chain (MRO, ``super().__init__`` first), calls to other
straight-line methods of the same object (and ``super().m(...)``) are inlined to a
depth of 6.  Anything else raises NFUnsupported.  Nothing is executed.
"""
from __future__ import annotations

import ast

from .astutil import call_name, const_value, is_self_attr
from .nf import RF, NFUnsupported, Translator

IDENT_METHODS = ("_as_consistant_arrays",)


class MethodNF:
    def __init__(self, prog, positive=None, depth=6, extra_call=None):
        self.prog = prog
        self.extra_call = extra_call
        self.depth = depth
        self._d = 0
        self.positive = positive
        self._attrs = {}

    # ------------------------------------------------------------------ attributes from the constructor chain
    def attrs(self, ci):
        if ci.key in self._attrs:
            return self._attrs[ci.key]
        init = self.prog.lookup_method(ci, "__init__")
        if init is None:
            return {}
        params = [p for p in init.params if p != "self"]
        env = {p: RF.sym(p) for p in params}
        out = {}
        self._run_init(ci, init, env, out)
        self._attrs[ci.key] = out
        return out

    def _run_init(self, ci, init, env, out):
        for s in init.node.body:
            if isinstance(s, ast.Expr) and isinstance(s.value, ast.Constant):
                continue
            if isinstance(s, ast.Expr) and isinstance(s.value, ast.Call):
                c = s.value
                if isinstance(c.func, ast.Attribute) and c.func.attr == "__init__" and isinstance(c.func.value, ast.Call) \
                        and call_name(c.func.value) == "super":
                    owner = init.cls
                    parent = self.prog.lookup_method(owner, "__init__", skip_self=True)
                    if parent is None:
                        continue
                    pparams = [p for p in parent.params if p != "self"]
                    penv = {}
                    for p, a in zip(pparams, c.args):
                        penv[p] = self._expr(a, env, out, ci)
                    self._run_init(ci, parent, penv, out)
                    continue
                continue      # validation calls etc.
            if isinstance(s, ast.Assign) and len(s.targets) == 1 and is_self_attr(s.targets[0]):
                try:
                    out[s.targets[0].attr] = self._expr(s.value, env, out, ci)
                except NFUnsupported:
                    out.pop(s.targets[0].attr, None)
                continue
            if isinstance(s, ast.Assign) and len(s.targets) == 1 and isinstance(s.targets[0], ast.Name):
                try:
                    env[s.targets[0].id] = self._expr(s.value, env, out, ci)
                except NFUnsupported:
                    env.pop(s.targets[0].id, None)
                continue
            # anything else in a constructor (ifs raising errors) is ignored

    # ------------------------------------------------------------------ expressions
    def _expr(self, e, env, attrs, ci, owner=None):
        me = self

        def atom(x):
            if isinstance(x, ast.Name):
                v = env.get(x.id)
                if isinstance(v, RF):
                    return v
                if v is None and x.id not in env:
                    return None
                raise NFUnsupported("name %s holds a tuple" % x.id)
            if is_self_attr(x):
                if x.attr in attrs:
                    return attrs[x.attr]
                # property returning an attribute
                m = me.prog.lookup_method(ci, x.attr)
                if m is not None and m.is_property():
                    return me.call(ci, x.attr, [], owner_cls=None)
                raise NFUnsupported("attribute self.%s unknown" % x.attr)
            if isinstance(x, ast.Subscript) and isinstance(x.value, ast.Name) and isinstance(env.get(x.value.id), tuple):
                i = const_value(x.slice)
                if isinstance(i, int):
                    return env[x.value.id][i]
            return None

        def call(fn, c, tr):
            f = c.func
            if me.extra_call is not None:
                r = me.extra_call(fn, c, tr, ci)
                if r is not None:
                    return r
            if isinstance(f, ast.Attribute) and isinstance(f.value, ast.Name) and f.value.id == "self":
                args = [tr.tr(a) for a in c.args]
                kw = {k.arg: tr.tr(k.value) for k in c.keywords}
                r = me.call(ci, f.attr, args, kw)
                if isinstance(r, tuple):
                    raise NFUnsupported("tuple-valued call used as a scalar")
                return r
            return None
        return Translator(atom=atom, call=call, positive=self.positive).tr(e)

    # ------------------------------------------------------------------ method call
    def call(self, ci, name, args, kwargs=None, owner_cls=None, skip_self=False):
        """Evaluate ci.<name>(*args) -> RF or tuple of RF"""
        fi = self.prog.lookup_method(owner_cls or ci, name, skip_self=skip_self)
        if fi is None:
            raise NFUnsupported("method %s not found" % name)
        self._d += 1
        if self._d > self.depth:
            self._d -= 1
            raise NFUnsupported("inlining depth exceeded")
        try:
            params = [p for p in fi.params if p != "self"]
            env = {}
            for p, a in zip(params, args):
                env[p] = a
            for k, v in (kwargs or {}).items():
                env[k] = v
            attrs = self.attrs(ci)
            return self._body(fi, ci, env, attrs)
        finally:
            self._d -= 1

    def _body(self, fi, ci, env, attrs):
        for s in fi.node.body:
            if isinstance(s, ast.Expr) and isinstance(s.value, ast.Constant):
                continue
            if isinstance(s, (ast.FunctionDef,)):
                continue
            if isinstance(s, ast.If):
                # only guard clauses that raise are tolerated
                if all(isinstance(x, ast.Raise) for x in s.body) and not s.orelse:
                    continue
                # dtype normalisation of a parameter: `if not isinstance(x, float): x = x.astype(float)`
                if not s.orelse and all(isinstance(x, ast.Assign) and isinstance(x.targets[0], ast.Name) and
                                        isinstance(x.value, ast.Call) and isinstance(x.value.func, ast.Attribute) and
                                        x.value.func.attr == "astype" and isinstance(x.value.func.value, ast.Name) and
                                        x.value.func.value.id == x.targets[0].id for x in s.body):
                    continue
                raise NFUnsupported("branch in %s" % fi.key)
            if isinstance(s, ast.Assign) and len(s.targets) == 1:
                t = s.targets[0]
                v = self._value(s.value, env, attrs, ci, fi)
                if isinstance(t, ast.Name):
                    env[t.id] = v
                elif isinstance(t, ast.Tuple) and isinstance(v, tuple) and len(v) == len(t.elts):
                    for tt, vv in zip(t.elts, v):
                        if isinstance(tt, ast.Name):
                            env[tt.id] = vv
                else:
                    raise NFUnsupported("assignment form in %s" % fi.key)
                continue
            if isinstance(s, ast.Return):
                return self._value(s.value, env, attrs, ci, fi)
            raise NFUnsupported("statement %s in %s" % (type(s).__name__, fi.key))
        raise NFUnsupported("no return in %s" % fi.key)

    def _value(self, e, env, attrs, ci, fi):
        if isinstance(e, ast.Tuple):
            return tuple(self._value(x, env, attrs, ci, fi) for x in e.elts)
        if isinstance(e, (ast.GeneratorExp, ast.ListComp)) and len(e.generators) == 1 and not e.generators[0].ifs and \
                isinstance(e.generators[0].target, ast.Name) and isinstance(e.generators[0].iter, (ast.Tuple, ast.List)):
            # (f(x) for x in (a, b, c)): element-wise over a literal tuple
            g = e.generators[0]
            out = []
            for item in g.iter.elts:
                env2 = dict(env)
                env2[g.target.id] = self._value(item, env, attrs, ci, fi)
                out.append(self._value(e.elt, env2, attrs, ci, fi))
            return tuple(out)
        if isinstance(e, ast.Call) and call_name(e) in ("tuple", "list") and len(e.args) == 1 and \
                isinstance(e.args[0], (ast.GeneratorExp, ast.ListComp)):
            return self._value(e.args[0], env, attrs, ci, fi)
        if isinstance(e, ast.Call):
            f = e.func
            if isinstance(f, ast.Attribute) and isinstance(f.value, ast.Name) and f.value.id == "self":
                if f.attr in IDENT_METHODS:
                    return tuple(self._expr(a, env, attrs, ci) for a in e.args)
                args = [self._expr(a, env, attrs, ci) for a in e.args]
                kw = {k.arg: self._expr(k.value, env, attrs, ci) for k in e.keywords}
                return self.call(ci, f.attr, args, kw)
            if isinstance(f, ast.Attribute) and isinstance(f.value, ast.Call) and call_name(f.value) == "super":
                args = [self._expr(a, env, attrs, ci) for a in e.args]
                return self.call(ci, f.attr, args, owner_cls=fi.cls, skip_self=True)
        return self._expr(e, env, attrs, ci)
