"""C11 — Miner damage and Gassner lifetime (structural clauses)."""
from __future__ import annotations

import ast

from ..astutil import (call_name, calls_in, const_value, find_func, is_self_attr, names_in, parse_expr, parse_stmt,
                       replace_node)
from ..cfg import CFG
from ..dataflow import inline_env
from ..astutil import subst_names
from ..domains import Interval, interval_eval, TOP
from ..frontend import AnalysisError, walk_function
from ..nf import to_nf, NFUnsupported, RF
from ..ordertable import parse_pred
from ..report import norm_text
from ..witness import witness, twin

LEVEL = "other"
MINER = "pylife.strength.miner"
EXPLANATION = (
    "Static decision of structural clauses of C11. R-C11-1: an interval domain over min/max with literal bounds proves "
    "effective_damage_sum in [0.3, 1] for every input. R-C11-2: on the call-graph slice gassner_cycles -> lifetime_multiple "
    "-> solidity.haibach every 'largest amplitude' (a .max() whose provenance is the collective's amplitude, followed "
    "through helpers) is taken over the same class set - all masked by occupancy or none; a mixed choice makes the damage at "
    "the predicted Gassner cycles differ from one for collectives with empty classes. R-C11-3: the exponents of the Haibach "
    "lifetime multiple (full part k_1, reduced part, continuity factor) equal, in normal form, the k_2 that miner_haibach() "
    "writes into the curve (2 k_1 - 1) and k_1 - k_2; the elementary path passes k_1 and miner_elementary() writes k_2 = k_1. "
    "R-C11-4: Fatigue.damage is the collective's cycle counts divided by a quantity that does not depend on them (degree 1 "
    "in the counts). R-C11-5: the full/reduced damage masks of the Haibach sum partition the classes on every ordering of "
    "amplitude vs knee, both sums range over the same cycle vector and the numerator sums all classes. Not decided: the "
    "numerical identity damage = 1, damage ordering original <= Haibach <= elementary.")
EXPLANATION += (' R-C11-6: no write reaches the Woehler curve data handed to the Miner classes. R-C11-7: the damage of a collective does not depend on the order of its members (order-class analysis).')
EXPLANATION += (" R-C11-8: the Gassner cycles (cycles at the largest amplitude times the lifetime multiple of each Miner rule) combine quantities of one failure-probability level only: cycles()/load() evaluate the curve transformed to 50 %, so a lifetime multiple must not read the object's own SD / ND (interprocedural level typing over the Miner classes).")
EXPLANATION += (' R-C11-9: the reference cycle number of the Gassner line is evaluated on the Miner-elementary modification of the curve (slope k_1 at every amplitude), because the lifetime multiples are derived with the k_1 line as reference.')
EXPLANATION += (" R-C11-8 also requires Fatigue.damage - the damage the Gassner cycles are measured against - to evaluate the curve at the same 50 % level (an explicit self.failure_probability argument is the native level). R-C11-10 (memo rule): no caching decorator or unreset memo attribute in the Miner / Fatigue / solidity modules; a cache keyed by the identity of a collective returns the first value after its cycle counts were edited in place.")
EXPLANATION += (' R-C11-11: no absolute tolerance on cycle counts, amplitudes or cycle numbers in miner, solidity, fatigue and the histogram accessor (shared rule sa/tolerance.py; zero instances expected, built-in example).')
ASSUMPTIONS = ["builtin min/max on floats; np.dot is the plain sum of products"]


def run(ctx):
    ctx.attempt(_r1)
    ctx.attempt(_r2)
    ctx.attempt(_r3)
    ctx.attempt(_r4)
    ctx.attempt(_r5)
    ctx.attempt(_r6)
    ctx.attempt(_r7)
    ctx.attempt(_r8)
    ctx.attempt(_r9)
    ctx.attempt(_r10)
    ctx.attempt(_r11)
    ctx.attempt(_r12)
    ctx.attempt(_r13)


def _r13(ctx):
    """R-C11-13 (= R-C08-11, the same rule under this property): the Gassner clause compares `lifetime_multiple`, which places
    the knee at the 50 % endurance limit, with `Fatigue.damage`, which evaluates `cycles(load, 0.5)`.  Both describe one curve
    only if the Woehler accessor evaluates the curve TRANSFORMED to the requested probability on every path; a shortcut that
    uses the curve as given for the default probability makes the damage of the Haibach Gassner cycles differ from one for
    every curve whose native failure probability is not 50 %."""
    from . import c08
    c08._r11(ctx, "R-C11-13")


def class_selections(fn_node, ret_expr):
    """boolean-mask selections `<x>[<comparison>]` in the (temporaries expanded) returned expression that are NOT the operand of
    a max / min reduction: the sum or average of the solidity then runs over a selection of the classes"""
    from ..astutil import inline_single_defs
    from ..frontend import set_parents
    full = set_parents(ast.parse(norm_text(inline_single_defs(fn_node, ret_expr)), mode="eval")).body
    masks = {st.targets[0].id for st in ast.walk(fn_node) if isinstance(st, ast.Assign) and len(st.targets) == 1 and
             isinstance(st.targets[0], ast.Name) and any(isinstance(c, ast.Compare) for c in ast.walk(st.value))}
    out = []
    for n in ast.walk(full):
        if not isinstance(n, ast.Subscript):
            continue
        sl = n.slice
        if not (any(isinstance(c, ast.Compare) for c in ast.walk(sl)) or isinstance(sl, ast.Name) and sl.id in masks):
            continue
        par = getattr(n, "_parent", None)
        if isinstance(par, ast.Attribute) and par.attr in ("max", "min") or \
                isinstance(par, ast.Call) and (call_name(par) or "") in ("np.max", "np.min", "np.amax", "np.amin", "max", "min"):
            continue
        out.append(n)
    return out


def _r12(ctx):
    """R-C11-12: the solidity is an average over ALL classes of the collective, weighted with their cycles - the same classes the
    damage sum runs over.  The only class selection in solidity.haibach is the one that finds the largest occupied amplitude;
    a mask on the summands (`xi[xi > 0]`, `hi[loaded]`) drops the cycles of the masked classes from the collective size, and the
    Gassner cycles of the elementary rule no longer give damage one for a collective with an occupied zero-amplitude class."""
    prog = ctx.prog
    ctx.rule("R-C11-12", floor=1, what="the solidity sums over all classes (no mask on the summands)")
    f = prog.func("pylife.strength.solidity:haibach")
    rets = [st for st in walk_function(f.node) if isinstance(st, ast.Return) and st.value is not None]
    if len(rets) != 1:
        raise AnalysisError("solidity.haibach: expected one return")
    hits = class_selections(f.node, rets[0].value)
    ex = ast.parse("def f(c, k):\n    hi = c.cycles\n    xi = c.amplitude / c.amplitude[hi > 0].max()\n    loaded = xi > 0\n"
                   "    return np.average(xi[loaded] ** k, weights=hi[loaded])\n").body[0]
    if len(class_selections(ex, ex.body[-1].value)) < 2:
        raise AnalysisError("R-C11-12 built-in example not matched")
    if hits:
        ctx.violated(f, rets[0], "solidity.haibach sums over a selection of the classes (%s): the cycles of the other classes are "
                     "missing from the collective size, the solidity - and with it the elementary lifetime multiple - is too large"
                     % ", ".join(sorted({norm_text(h)[:40] for h in hits})), text="class selection in the solidity sum")
    else:
        ctx.holds(f, rets[0], "no mask on the summands of the solidity (the largest-amplitude selection apart)")


def _r11(ctx):
    """R-C11-11: damage and lifetime are proportional to the cycle counts and homogeneous in the load unit; no absolute
    tolerance on counts, amplitudes or cycle numbers in the Miner / solidity / fatigue modules and the histogram accessor
    (shared rule `sa/tolerance.py`) - a class with 1e-9 relative frequency is an occupied class."""
    from .. import tolerance
    ctx.rule("R-C11-11", floor=1, what="no absolute tolerance on cycle counts, amplitudes or cycle numbers in the damage accumulation chain")
    tolerance.run_rule(ctx, ctx.prog, ["pylife.strength.miner", "pylife.strength.solidity", "pylife.strength.fatigue",
                                       "pylife.stress.collective.load_histogram"],
                       "cycle counts, amplitudes or cycle numbers")


def _r10(ctx):
    """Nothing the Miner / Fatigue calculation derives from a collective or curve is cached across calls: collectives and
    curve frames are mutable pandas objects (cycle counts are edited in place, e.g. emptying a class)."""
    from .. import memo
    prog = ctx.prog
    ctx.rule("R-C11-10", floor=1, what="no cache in the Miner / Fatigue / solidity modules outlives a change of collective or curve")
    classes = [prog.cls(MINER + ":MinerBase"), prog.cls(MINER + ":MinerElementary"), prog.cls(MINER + ":MinerHaibach"),
               prog.cls("pylife.strength.fatigue:Fatigue")]
    memo.run_rule(ctx, classes=classes, modules=["pylife.strength.miner", "pylife.strength.fatigue", "pylife.strength.solidity"],
                  what="load collectives / histograms (pandas accessor objects)")


def _r9(ctx):
    """The lifetime multiples are derived with the k_1 line as reference (full-damage classes contribute n_i s_i^k_1): the
    reference cycle number at the largest amplitude must therefore be taken from a curve whose slope there is k_1 for EVERY
    amplitude - the Miner-elementary modification - and not from the curve as given, whose k_2 (default inf) applies as soon
    as the collective is scaled below the endurance limit."""
    prog = ctx.prog
    ctx.rule("R-C11-9", floor=1, what="Gassner reference cycles are evaluated on the k_1 line extended below the endurance limit")
    base = prog.cls(MINER + ":MinerBase")
    # the base implementation and every override in the hierarchy (a rule-specific override must use the same reference line)
    impls = []
    for ck in [base] + sorted(prog.subclasses(base.key), key=lambda x_: x_ if isinstance(x_, str) else x_.key):
        c_ = prog.classes.get(ck) if isinstance(ck, str) else ck
        if c_ is not None and "gassner_cycles" in c_.methods:
            impls.append(c_.methods["gassner_cycles"][-1])
    if not impls:
        raise AnalysisError("gassner_cycles not found in the Miner classes")
    for g in impls:
      cs = [c for c in calls_in(g.node) if isinstance(c.func, ast.Attribute) and c.func.attr in ("cycles", "basquin_cycles")]
      if len(cs) != 1:
        if any(isinstance(c.func, ast.Attribute) and c.func.attr == "gassner_cycles" for c in calls_in(g.node)):
            ctx.holds(g, g.node, "%s delegates to the inherited gassner_cycles" % g.qualname)
            continue
        raise AnalysisError("%s: reference cycles call not found" % g.qualname)
      recv = cs[0].func.value
      if isinstance(recv, ast.Call) and isinstance(recv.func, ast.Attribute) and is_self_attr(recv.func, "miner_elementary"):
        ctx.holds(g, cs[0], "reference cycles from self.miner_elementary().cycles(...): slope k_1 at every amplitude")
      else:
        ctx.violated(g, cs[0], "the reference cycles of the Gassner line are %s: evaluated on %s, whose slope below the endurance limit "
                     "is the curve's own k_2 (inf by default), so a collective scaled below SD gets infinite Gassner cycles and the "
                     "damage sum there is not one" % (norm_text(cs[0]), norm_text(recv)), text="reference curve " + norm_text(recv))


LEVEL_DEPENDENT = ("SD", "ND")      # curve parameters that change with the failure probability


def _prob_level(prog, ci, fi, e, depth=0):
    """Which failure-probability level does an expression of a Woehler-curve accessor method refer to?
    'P50' - evaluated on the curve transformed to the default 50 % (cycles()/load() without an explicit probability,
    transform_to_failure_probability(0.5)...), 'NATIVE' - a level-dependent parameter (SD, ND) read from the object as it is."""
    out = set()

    def visit(n):
        if isinstance(n, ast.Call) and isinstance(n.func, ast.Attribute):
            f = n.func
            if f.attr == "transform_to_failure_probability":
                out.add("P50" if n.args and const_value(n.args[0]) == 0.5 else "OTHER")
                return                      # do not descend: attributes of the transformed curve are at that level
            derived = isinstance(f.value, ast.Call) and isinstance(f.value.func, ast.Attribute) and is_self_attr(f.value.func) and \
                f.value.func.attr.startswith("miner_")
            if (is_self_attr(f) or derived) and f.attr in ("cycles", "load", "basquin_cycles", "basquin_load"):
                pa = n.args[1] if len(n.args) > 1 else next((k.value for k in n.keywords if k.arg == "failure_probability"), None)
                if pa is None or const_value(pa) == 0.5:
                    out.add("P50")
                elif is_self_attr(pa, "failure_probability"):
                    out.add("NATIVE")
                else:
                    out.add("OTHER")
                for a in n.args:
                    visit(a)
                return
            if is_self_attr(f) and depth < 3:
                for cand in [ci] + list(prog.subclasses(ci.key)):
                    callee = prog.lookup_method(cand, f.attr)
                    if callee is not None and callee.module.name == fi.module.name:
                        for st in walk_function(callee.node):
                            if isinstance(st, ast.Return) and st.value is not None:
                                out.update(_prob_level(prog, cand, callee, st.value, depth + 1))
                            elif isinstance(st, ast.Assign):
                                out.update(_prob_level(prog, cand, callee, st.value, depth + 1))
        if isinstance(n, ast.Attribute) and is_self_attr(n) and n.attr in LEVEL_DEPENDENT:
            out.add("NATIVE")
        if isinstance(n, ast.Attribute) and not is_self_attr(n) and n.attr in LEVEL_DEPENDENT and isinstance(n.value, ast.Call):
            visit(n.value)
            return
        for c in ast.iter_child_nodes(n):
            visit(c)
    visit(e)
    return out


def _r8(ctx):
    """One failure-probability level per lifetime formula.  cycles()/load() (and the damage calculation built on them) evaluate
    the curve transformed to 50 %; a formula that multiplies such a value with a term computed from the object's own SD / ND
    mixes two levels whenever the curve's native failure probability is not 50 % - the Gassner cycles then do not give a
    damage sum of one."""
    prog = ctx.prog
    ctx.rule("R-C11-8", floor=3, what="Gassner cycles combine quantities of one failure-probability level only")
    base = prog.cls(MINER + ":MinerBase")
    g = prog.lookup_method(base, "gassner_cycles")
    ret = [s_ for s_ in walk_function(g.node) if isinstance(s_, ast.Return) and s_.value is not None]
    if not ret:
        raise AnalysisError("gassner_cycles: return not found")
    n = 0
    for ci in prog.subclasses(base.key):
        if "lifetime_multiple" not in ci.methods:
            continue
        lv = set()
        for r in ret:
            lv |= _prob_level(prog, ci, g, r.value)
        lm = prog.lookup_method(ci, "lifetime_multiple")
        n += 1
        if "NATIVE" in lv and "P50" in lv:
            nat = [x for x in ast.walk(lm.node) if isinstance(x, ast.Attribute) and is_self_attr(x) and x.attr in LEVEL_DEPENDENT]
            ctx.violated(lm, nat[0]._parent if nat else lm.node, "%s: the Gassner cycles multiply cycles() - evaluated on the curve "
                         "transformed to 50 %% failure probability - with a lifetime multiple computed from the object's own %s: for a "
                         "curve whose native failure probability is not 50 %% the damage sum at the Gassner cycles is not one" %
                         (ci.name, "/".join(sorted({x.attr for x in nat})) or "SD/ND"), text="probability levels " + ci.name)
        else:
            ctx.holds(lm, lm.node, "%s: Gassner cycles use level(s) %s only" % (ci.name, sorted(lv) or ["level-free"]))
    if n == 0:
        raise AnalysisError("no Miner rule with a lifetime multiple found")
    # the damage the Gassner cycles are measured against is evaluated on the same (50 %) level
    fat = prog.cls("pylife.strength.fatigue:Fatigue")
    dmg = prog.lookup_method(fat, "damage")
    lv, site = set(), None
    for st in walk_function(dmg.node):
        if isinstance(st, (ast.Assign, ast.Return)) and st.value is not None:
            l2 = _prob_level(prog, fat, dmg, st.value)
            if l2 - {"P50"} and site is None:
                site = st
            lv |= l2
    if "P50" not in lv and not lv - {"P50"}:
        raise AnalysisError("Fatigue.damage: curve evaluation not found")
    if lv == {"P50"}:
        ctx.holds(dmg, dmg.node, "Fatigue.damage evaluates the curve at 50 %, the level of the Gassner cycles")
    else:
        ctx.violated(dmg, site or dmg.node, "Fatigue.damage evaluates the curve at level(s) %s while the Gassner cycles and lifetime "
                     "multiples are at 50 %%: for a curve with scatter whose native failure probability is not 50 %% the damage sum at "
                     "the Gassner cycles is not one" % sorted(lv), text="damage level")


def _r6(ctx):
    """No Miner / Fatigue method writes into the curve data it was called on (a second evaluation would differ)."""
    from ..effects import Effects
    prog = ctx.prog
    ctx.rule("R-C11-6", floor=8, what="Miner / Fatigue methods do not write into the curve data of the object they are called on")
    eff = Effects(prog)
    classes = [prog.cls(MINER + ":MinerBase"), prog.cls(MINER + ":MinerElementary"), prog.cls(MINER + ":MinerHaibach"),
               prog.cls("pylife.strength.fatigue:Fatigue"), prog.cls("pylife.materiallaws.woehlercurve:WoehlerCurve")]
    n = 0
    for ci in classes:
        for name, defs in ci.methods.items():
            f = defs[-1]
            if name in ("__init__", "_validate"):
                continue
            if ci.name == "WoehlerCurve" and not (name.startswith("miner_") or name in ("cycles", "load", "basquin_cycles",
                                                                                     "basquin_load")):
                continue        # of the base accessor only the Miner modifiers and the evaluation functions belong here
            summ = eff.summary(f)
            if summ is None:
                raise AnalysisError("effect summary of %s unavailable" % f.key)
            # the broadcaster's paired temporary re-coding (restored on every normal path, decided by C13) is not a write
            bad = [e for e in summ["effects"] if e.origin == ("self", "_obj") and
                   not e.func.startswith("pylife.core.broadcaster:")]
            n += 1
            if bad:
                e = bad[0]
                node = next((st for st in walk_function(f.node) if isinstance(st, ast.stmt) and st.lineno == e.lineno), f.node)
                ctx.violated(f, node, "%s.%s writes into the curve data of the object it is called on (%s): evaluating the same "
                             "object again gives another lifetime" % (ci.name, name, e.kind), text="%s.%s %s" % (ci.name, name, e.kind))
            else:
                ctx.holds(f, f.node, "%s.%s leaves the curve data untouched" % (ci.name, name))


def _r7(ctx):
    """Member-order independence: no order-sensitive operation on the collective's member arrays."""
    from ..orders import Orders
    prog = ctx.prog
    ctx.rule("R-C11-7", floor=1, what="damage and lifetime multiples are independent of the order of the collective's members")
    mods = {"pylife.strength.miner", "pylife.strength.solidity", "pylife.strength.fatigue"}

    def row_source(e, fi):
        return isinstance(e, ast.Attribute) and e.attr in ("amplitude", "cycles", "meanstress", "upper", "lower", "R") and \
            isinstance(e.value, ast.Name) and e.value.id in fi.params and e.value.id not in ("self",)
    o = Orders(prog, mods, row_source=row_source, sorted_input_sinks=True)
    n = o.run()
    seen = set()
    for fi, s_, node, msg in o.sinks:
        k = (fi.key, norm_text(node))
        if k in seen:
            continue
        seen.add(k)
        ctx.violated(fi, s_, "%s: the result would depend on the order of the collective's members" % msg, text=norm_text(node))
    if o.flows < 6:
        raise AnalysisError("only %d member-array flows seeded in the Miner modules" % o.flows)
    ctx.holds("pylife.strength.miner", None, "%d functions scanned, %d member-array flows, %d order-sensitive uses" % (n, o.flows, len(seen)))
    for fi, s_, call, ks in o.pairings:
        if set(ks) <= {"ROW"}:
            ctx.holds(fi, s_, "pairwise reduction over aligned member arrays: %s" % norm_text(call)[:70])


def _fold(env):
    def fold(e):
        c = const_value(e)
        if isinstance(c, (int, float)) and not isinstance(c, bool):
            return float(c)
        if isinstance(e, ast.Name) and e.id in env:
            return env[e.id]
        return None
    return fold


def _r1(ctx):
    """Interval of everything effective_damage_sum can return, path by path: on each path through the function the locals get
    intervals (min/max/clip semantics), a comparison of a local with a constant on the path refines its interval (so an explicit
    if-chain clamps just like min(max(.)))), and the union over all returns must be exactly [0.3, 1]."""
    prog = ctx.prog
    ctx.rule("R-C11-1", floor=2, what="effective damage sum lies in [0.3, 1] for every input")
    f = prog.func(MINER + ":effective_damage_sum")
    consts = {}
    seen = {}
    for s in f.module.tree.body:          # module-level constants bound once
        if isinstance(s, ast.Assign) and len(s.targets) == 1 and isinstance(s.targets[0], ast.Name):
            seen[s.targets[0].id] = seen.get(s.targets[0].id, 0) + 1
            c = const_value(s.value)
            if isinstance(c, (int, float)) and not isinstance(c, bool):
                consts[s.targets[0].id] = float(c)
    consts = {k: v for k, v in consts.items() if seen[k] == 1}
    for s in f.node.body:
        if isinstance(s, ast.Assign) and isinstance(s.targets[0], ast.Name):
            c = const_value(s.value)
            if isinstance(c, (int, float)) and not isinstance(c, bool):
                consts[s.targets[0].id] = float(c)
    fold = _fold(consts)
    cfg = CFG(f.node)
    rets = [s for s in walk_function(f.node) if isinstance(s, ast.Return) and s.value is not None]
    if not rets:
        raise AnalysisError("effective_damage_sum: no return found")
    lo, hi = None, None
    npaths = 0
    for path in cfg.paths(cfg.entry, {cfg.exit}, limit=512):
        env = {}
        out = None
        for n, lab in path:
            st = cfg.stmt[n]
            if st is None:
                continue
            if cfg.kind[n] == "test" and isinstance(st, ast.If):
                t = st.test
                if isinstance(t, ast.Compare) and len(t.ops) == 1:
                    for var, other, flip in ((t.left, t.comparators[0], False), (t.comparators[0], t.left, True)):
                        c = fold(other)
                        if isinstance(var, ast.Name) and var.id not in consts and c is not None:
                            op = type(t.ops[0])
                            if flip:
                                op = {ast.Gt: ast.Lt, ast.GtE: ast.LtE, ast.Lt: ast.Gt, ast.LtE: ast.GtE}.get(op, op)
                            cur = env.get(var.id, TOP)
                            upper = (op in (ast.Lt, ast.LtE)) == bool(lab)       # the path constrains var from above
                            if op in (ast.Gt, ast.GtE, ast.Lt, ast.LtE):
                                cur = Interval(cur.lo, min(cur.hi, c)) if upper else Interval(max(cur.lo, c), cur.hi)
                                env[var.id] = cur
            elif cfg.kind[n] == "stmt" and isinstance(st, ast.Assign) and isinstance(st.targets[0], ast.Name):
                env[st.targets[0].id] = interval_eval(st.value, env, fold)
            elif cfg.kind[n] == "stmt" and isinstance(st, ast.Return) and st.value is not None:
                out = interval_eval(st.value, env, fold)
        if out is None:
            continue
        npaths += 1
        lo = out.lo if lo is None else min(lo, out.lo)
        hi = out.hi if hi is None else max(hi, out.hi)
    if npaths == 0:
        raise AnalysisError("effective_damage_sum: no path to a return")
    iv = Interval(lo, hi)
    if iv == Interval(0.3, 1.0):
        ctx.holds(f, rets[0], "interval of the returned value over %d path(s) is [0.3, 1.0] for every input" % npaths)
    else:
        ctx.violated(f, rets[0], "effective damage sum ranges over %s for arbitrary input; it must stay within [0.3, 1]" % iv)
    m = prog.func(MINER + ":MinerBase.effective_damage_sum")
    r = [s for s in m.node.body if isinstance(s, ast.Return)]
    ok = r and isinstance(r[0].value, ast.Call) and f.key in prog.resolve_call(m, r[0].value)
    if ok:
        ctx.holds(m, r[0], "method delegates to the clamped function")
    else:
        ctx.violated(m, r[0] if r else m.node, "MinerBase.effective_damage_sum does not return the clamped function's value")


def _amplitude_max_sites(prog, fi, depth=0, seen=None, roles=None):
    """(.max() sites on values derived from <x>.amplitude) reachable from fi: list of (fi, call, masked).  `roles` says which
    parameters of `fi` were handed an amplitude vector ("amp") / a cycle-count vector ("cyc") by the caller."""
    seen = seen if seen is not None else set()
    roles = dict(roles or {})
    key = (fi.key, tuple(sorted(roles.items())))
    if key in seen or depth > 4:
        return []
    seen.add(key)
    out = []
    derived = dict(roles)
    for s in walk_function(fi.node):
        if isinstance(s, ast.Assign) and isinstance(s.targets[0], ast.Name):
            v = s.value
            # only pure renamings keep the 'amplitude vector' / 'cycle vector' role
            if isinstance(v, ast.Attribute) and v.attr == "amplitude":
                derived[s.targets[0].id] = "amp"
            elif isinstance(v, ast.Attribute) and v.attr == "cycles":
                derived[s.targets[0].id] = "cyc"
            elif isinstance(v, ast.Name) and v.id in derived:
                derived[s.targets[0].id] = derived[v.id]

    def role_of(e):
        if isinstance(e, ast.Attribute) and e.attr == "amplitude":
            return "amp"
        if isinstance(e, ast.Attribute) and e.attr == "cycles":
            return "cyc"
        if isinstance(e, ast.Name):
            return derived.get(e.id)
        return None
    for c in calls_in(fi.node):
        if isinstance(c.func, ast.Attribute) and c.func.attr == "max" and not c.args:
            recv = c.func.value
            base = recv
            masked = False
            if isinstance(base, ast.Subscript):
                masked = any(isinstance(n, ast.Compare) for n in ast.walk(base.slice))
                mask_ok = masked and _is_occupancy_mask(base.slice, fi, derived)
                base = base.value
                masked = mask_ok if masked else False
                if not mask_ok and any(isinstance(n, ast.Compare) for n in ast.walk(recv.slice)):
                    masked = "other"
            if role_of(base) == "amp":
                out.append((fi, c, masked))
        for k in prog.resolve_call(fi, c):
            callee = prog.functions.get(k)
            if callee is not None and callee.module.name.startswith("pylife.strength"):
                ps = [p_ for p_ in callee.params if p_ not in ("self", "cls")]
                sub = {}
                for i, a_ in enumerate(c.args):
                    if i < len(ps) and role_of(a_):
                        sub[ps[i]] = role_of(a_)
                for kw in c.keywords:
                    if kw.arg in ps and role_of(kw.value):
                        sub[kw.arg] = role_of(kw.value)
                out += _amplitude_max_sites(prog, callee, depth + 1, seen, sub)
    return out


def _is_occupancy_mask(sl, fi, roles=None):
    """mask of the form <cycles> > 0 where <cycles> is .cycles of the collective or a local / parameter bound to it"""
    from ..astutil import oriented
    cmp_ = [oriented(n) for n in ast.walk(sl) if isinstance(n, ast.Compare)]
    if len(cmp_) != 1 or len(cmp_[0].ops) != 1 or not isinstance(cmp_[0].ops[0], ast.Lt) or const_value(cmp_[0].left) != 0:
        return False
    l = cmp_[0].comparators[0]                       # 0 < <cycles>
    if isinstance(l, ast.Attribute) and l.attr == "cycles":
        return True
    if isinstance(l, ast.Name):
        return (roles or {}).get(l.id) == "cyc"
    return False


def _r2(ctx):
    prog = ctx.prog
    ctx.rule("R-C11-2", floor=3, what="one reference amplitude (same class set) on the Gassner path")
    sites = []
    roots = [MINER + ":MinerBase.gassner_cycles", MINER + ":MinerElementary.lifetime_multiple",
             MINER + ":MinerHaibach.lifetime_multiple", MINER + ":MinerElementary.gassner"]
    seen = set()
    for r in roots:
        sites += _amplitude_max_sites(prog, prog.func(r), 0, seen)
    uniq = {}
    for fi, c, masked in sites:
        uniq[(fi.key, norm_text(c))] = (fi, c, masked)
    sites = list(uniq.values())
    if not sites:
        raise AnalysisError("no reference-amplitude site found on the Gassner path")
    kinds = {m for _, _, m in sites}
    if len(kinds) == 1 and "other" not in kinds:
        for fi, c, m in sites:
            ctx.holds(fi, c, "reference amplitude %s over %s classes" % (norm_text(c), "occupied" if m else "all"))
        # every function on the path must see one of those sites
        for r in roots[:3]:
            fi = prog.func(r)
            if not _amplitude_max_sites(prog, fi, 0, set()):
                ctx.violated(fi, fi.node, "%s does not normalise by the collective's reference amplitude" % fi.qualname,
                             text="no reference amplitude in %s" % fi.qualname)
            else:
                ctx.holds(fi, fi.node, "%s reaches the common reference amplitude" % fi.qualname)
    else:
        ref = max(kinds, key=lambda k: sum(1 for s in sites if s[2] == k))
        for fi, c, m in sites:
            if m != ref:
                ctx.violated(fi, c, "reference amplitude %s is taken over %s classes while the other functions on the Gassner "
                             "path use %s classes: for a collective with an empty top class the damage at the predicted "
                             "Gassner cycles is not one" % (norm_text(c), "occupied" if m is True else ("all" if m is False else "other"),
                                                            "occupied" if ref is True else "all"), text=norm_text(c))
            else:
                ctx.holds(fi, c, "reference amplitude %s over %s classes" % (norm_text(c), "occupied" if m else "all"))


def _k_atom(e):
    if isinstance(e, ast.Attribute) and e.attr == "k_1":
        return "k1"
    if isinstance(e, ast.Attribute) and e.attr == "k_2":
        return "k2"
    if isinstance(e, ast.Name):
        return e.id
    return None


def _r3(ctx):
    prog = ctx.prog
    ctx.rule("R-C11-3", floor=4, what="exponents of the lifetime multiple agree with the k_2 the Miner modifiers write")
    W = "pylife.materiallaws.woehlercurve:WoehlerCurve."
    written = {}
    for name in ("miner_haibach", "miner_elementary"):
        f = prog.func(W + name)
        st = [s for s in f.node.body if isinstance(s, ast.Assign) and isinstance(s.targets[0], ast.Subscript)
              and const_value(s.targets[0].slice) == "k_2"]
        val = st[0].value if len(st) == 1 else None
        if val is None:
            # one level of helper: `return self._helper(<value>)` whose body stores [...]['k_2'] = <its parameter>
            for c in calls_in(f.node):
                if isinstance(c.func, ast.Attribute) and is_self_attr(c.func) and len(c.args) == 1:
                    h_ = prog.lookup_method(f.cls, c.func.attr)
                    if h_ is None:
                        continue
                    hp = [q for q in h_.params if q != "self"]
                    hs = [s_ for s_ in walk_function(h_.node) if isinstance(s_, ast.Assign) and isinstance(s_.targets[0], ast.Subscript)
                          and const_value(s_.targets[0].slice) == "k_2" and isinstance(s_.value, ast.Name) and hp and s_.value.id == hp[0]]
                    if len(hs) == 1:
                        st, val = [c._parent if isinstance(c._parent, ast.stmt) else f.node.body[-1]], c.args[0]
        if val is None:
            guarded = [s_ for s_ in walk_function(f.node) if isinstance(s_, ast.Assign) and isinstance(s_.targets[0], ast.Subscript)
                       and const_value(s_.targets[0].slice) == "k_2" and s_ not in f.node.body]
            if guarded:
                ctx.violated(f, guarded[0], "%s writes the second slope only under a condition: a curve that brings a finite k_2 along keeps "
                             "it, while the lifetime multiple and the Gassner cycles of that rule go on using the rule's own exponent - the "
                             "damage at the predicted Gassner cycles is no longer one" % name, text="k_2 of %s written conditionally" % name)
                return
            raise AnalysisError("%s: k_2 store not found" % name)
        written[name] = (f, st[0], to_nf(val, atom=_k_atom))
    h = prog.func(MINER + ":MinerHaibach.lifetime_multiple")
    # exponents read off the symbolic value (names of locals and helper functions do not matter): the denominator is
    #   dot(n[s >= x_D], s[..] ** e_full)  +  x_D ** e_knee * dot(n[s < x_D], s[..] ** e_red)
    from ..absint import Interp, TermDomain, term_walk, term_to_nf
    tv = Interp(prog, TermDomain(), follow=lambda c_: c_.name not in ("_max_amplitude",) and c_.cls is None).run(
        h, [("p", q) for q in h.params if q != "self"])
    tv = _single_quotient(ctx, h, tv)
    if not (isinstance(tv, tuple) and len(tv) == 4 and tv[:2] == ("op", "/")):
        raise AnalysisError("MinerHaibach.lifetime_multiple: returned value is not a quotient")
    den = tv[3]
    roles = {}

    def dot_info(z):
        if isinstance(z, tuple) and z[:2] == ("call", "np.dot") and len(z[2]) == 2:
            pw = z[2][1]
            if isinstance(pw, tuple) and len(pw) == 4 and pw[:2] == ("op", "**") and isinstance(pw[2], tuple) and pw[2][0] == "at":
                mask = pw[2][2]
                return mask, pw[3]
        return None, None
    knee_base = None
    for z in term_walk(den):
        m_, e_ = dot_info(z)
        if m_ is None or not (isinstance(m_, tuple) and len(m_) == 4 and m_[0] == "cmp"):
            continue
        # s >= x_D is written le(x_D, s); s < x_D is lt(s, x_D)
        if m_[1] == "le":
            roles["full"], knee_base = e_, m_[2]
        elif m_[1] == "lt":
            roles["reduced"] = e_
    for z in term_walk(den):
        if isinstance(z, tuple) and len(z) == 4 and z[:2] == ("op", "*"):
            for fac, other in ((z[2], z[3]), (z[3], z[2])):
                if isinstance(fac, tuple) and len(fac) == 4 and fac[:2] == ("op", "**") and fac[2] == knee_base and \
                        dot_info(other)[0] is not None:
                    roles["knee"] = fac[3]
    if set(roles) != {"full", "reduced", "knee"}:
        raise AnalysisError("MinerHaibach.lifetime_multiple: weighted sums / knee factor not recognised (found %s)" % sorted(roles))

    def katom(z):
        if z == ("self", "k_1") or (isinstance(z, tuple) and len(z) == 3 and z[0] == "attr" and z[2] == "k_1"):
            return "k1"
        return None
    try:
        e_full, e_red, e_knee = (term_to_nf(roles[k_], katom) for k_ in ("full", "reduced", "knee"))
    except NFUnsupported as e:
        raise AnalysisError("lifetime multiple exponents outside the fragment: %s" % e)
    roles = {k_: h.node for k_ in roles}
    k1 = RF.sym("k1")
    if e_full == k1:
        ctx.holds(h, roles["full"], "full-damage exponent == k_1")
    else:
        ctx.violated(h, roles["full"], "full-damage classes are weighted with exponent %r, the curve's slope above the knee is k_1" % e_full)
    if e_red == written["miner_haibach"][2]:
        ctx.holds(h, roles["reduced"], "reduced-damage exponent == k_2 written by miner_haibach() (%r)" % e_red)
    else:
        ctx.violated(h, roles["reduced"], "reduced-damage classes are weighted with exponent %r but miner_haibach() sets "
                     "k_2 = %r: lifetime multiple and damage rule disagree" % (e_red, written["miner_haibach"][2]))
    if e_knee == e_full - e_red:
        ctx.holds(h, roles["knee"], "knee factor exponent == k_1 - k_2 (continuity at the knee)")
    else:
        ctx.violated(h, roles["knee"], "knee factor exponent is %r, continuity at the knee needs k_1 - k_2 = %r" %
                     (e_knee, e_full - e_red))
    want_h = to_nf(parse_expr("2*k1 - 1"), atom=_k_atom)
    f, st, nf = written["miner_haibach"]
    if nf == want_h:
        ctx.holds(f, st, "miner_haibach writes k_2 = 2 k_1 - 1")
    else:
        ctx.violated(f, st, "miner_haibach writes k_2 = %r, Haibach's rule is 2 k_1 - 1" % nf)
    f, st, nf = written["miner_elementary"]
    if nf == k1:
        ctx.holds(f, st, "miner_elementary writes k_2 = k_1")
    else:
        ctx.violated(f, st, "miner_elementary writes k_2 = %r, the elementary rule is k_2 = k_1" % nf)
    el = prog.func(MINER + ":MinerElementary.lifetime_multiple")
    cs = [c for c in calls_in(el.node) if (call_name(c) or "").endswith("haibach")]
    if len(cs) == 1 and len(cs[0].args) == 2 and to_nf(cs[0].args[1], atom=_k_atom) == k1:
        ctx.holds(el, cs[0], "elementary lifetime multiple uses the solidity with exponent k_1")
    else:
        ctx.violated(el, cs[0] if cs else el.node, "elementary lifetime multiple does not use the solidity with exponent k_1")
    so = prog.func("pylife.strength.solidity:haibach")
    kp = so.params[1]
    pw = [n for n in ast.walk(so.node) if isinstance(n, ast.BinOp) and isinstance(n.op, ast.Pow)]
    if len(pw) == 1 and isinstance(pw[0].right, ast.Name) and pw[0].right.id == kp:
        ctx.holds(so, pw[0], "solidity weights the normalised amplitudes with the given exponent")
    else:
        ctx.violated(so, pw[0] if pw else so.node, "solidity does not weight the normalised amplitudes with the given exponent")


def _r4(ctx):
    prog = ctx.prog
    ctx.rule("R-C11-4", floor=1, what="damage is degree 1 in the collective's cycle counts")
    from ..inline import inlined
    f = inlined(prog, prog.func("pylife.strength.fatigue:Fatigue.damage"))     # private helpers (module level too) expanded
    coll = [p for p in f.params if p != "self"][0]
    cfg = CFG(f.node)
    ret = [s for s in f.node.body if isinstance(s, ast.Return)][-1]
    env = inline_env(cfg, ret)
    env.pop("__ambiguous__")
    R = subst_names(ret.value, env)
    while isinstance(R, ast.Call) and call_name(R) in ("pd.Series", "np.asarray", "pd.DataFrame") and R.args:
        R = R.args[0]

    def is_counts(e):
        return isinstance(e, ast.Attribute) and e.attr == "cycles" and isinstance(e.value, ast.Name) and e.value.id == coll
    ok = isinstance(R, ast.BinOp) and isinstance(R.op, ast.Div) and is_counts(R.left) and \
        not any(is_counts(n) for n in ast.walk(R.right))
    den_ok = ok and any(isinstance(n, ast.Attribute) and n.attr == "amplitude" for n in ast.walk(R.right)) and \
        any(isinstance(c.func, ast.Attribute) and c.func.attr == "cycles" and is_self_attr(c.func) for c in calls_in(R.right))
    if ok and den_ok:
        ctx.holds(f, ret, "damage = collective.cycles / self.cycles(collective.amplitude): linear in the counts")
    else:
        ctx.violated(f, ret, "damage is %s; it must be the cycle counts divided by the allowable cycles of the amplitudes "
                     "(degree 1 in the counts, counts nowhere else)" % norm_text(R))


def _single_quotient(ctx, h, t):
    """The Haibach lifetime multiple is ONE closed form (total cycles over the two weighted power sums); it needs no case
    distinction - for a collective entirely below the knee the 'full' sum is empty and the reduced sum still gives a finite
    multiple.  If the function returns a constant (inf, 0, nan) on some path next to the quotient, that path is the culprit."""
    from ..absint import term_alternatives
    alts = term_alternatives(t)
    quot = [a for a in alts if isinstance(a, tuple) and len(a) == 4 and a[:2] == ("op", "/")]
    rest = [a for a in alts if a not in quot]
    if len(quot) == 1 and rest:
        rets = [s_ for s_ in walk_function(h.node) if isinstance(s_, ast.Return) and s_.value is not None and
                not isinstance(s_.value, ast.BinOp)]
        ctx.violated(h, rets[0] if rets else h.node, "%s returns %s on a path of its own instead of the closed form: the Haibach "
                     "multiple of a collective whose largest amplitude lies below the knee is finite (every class is damaging "
                     "with the reduced exponent), the predicted Gassner cycles jump to %s at the knee" %
                     (h.name, norm_text(rets[0].value) if rets else "a constant", norm_text(rets[0].value) if rets else "it"),
                     text="lifetime multiple constant on a path")
        return quot[0]
    return t


def _r5(ctx):
    """Decided on the symbolic value of MinerHaibach.lifetime_multiple (helper functions followed): total cycles divided by
    the sum of two weighted power sums  dot(n[M], s[M]**e)  whose masks M1, M2 are complementary comparisons of the same
    relative amplitude with the same knee value and select from the same count and amplitude vectors."""
    from ..absint import Interp, TermDomain, term_walk
    prog = ctx.prog
    ctx.rule("R-C11-5", floor=3, what="full/reduced masks partition the classes; both sums use the same counts; numerator sums all")
    h = prog.func(MINER + ":MinerHaibach.lifetime_multiple")
    dom = TermDomain()
    t = Interp(prog, dom, follow=lambda c: c.name not in ("_max_amplitude",) and c.cls is None).run(
        h, [("p", q) for q in h.params if q != "self"])
    t = _single_quotient(ctx, h, t)
    if not (isinstance(t, tuple) and len(t) == 4 and t[:2] == ("op", "/")):
        raise AnalysisError("lifetime_multiple: the returned value is not a quotient")
    num, den = t[2], t[3]
    dots = []
    for z in term_walk(den):
        if isinstance(z, tuple) and z[:2] == ("call", "np.dot") and len(z[2]) == 2 and z not in dots:
            dots.append(z)
    if len(dots) != 2:
        raise AnalysisError("lifetime_multiple: two weighted sums np.dot(n[mask], s[mask]**e) expected in the denominator, found %d"
                            % len(dots))

    def masked(z):
        """(vector, mask) of vector[mask], looking through a power"""
        if isinstance(z, tuple) and len(z) == 4 and z[:2] == ("op", "**"):
            z = z[2]
        if isinstance(z, tuple) and len(z) == 3 and z[0] == "at":
            return z[1], z[2]
        return None, None
    parts = []
    for d_ in dots:
        (n_vec, n_mask), (s_vec, s_mask) = masked(d_[2][0]), masked(d_[2][1])
        if n_vec is None or s_vec is None:
            raise AnalysisError("lifetime_multiple: operands of %r are not masked vectors" % (d_[:2],))
        parts.append((n_vec, n_mask, s_vec, s_mask))
    (n1, m1, s1, ms1), (n2, m2, s2, ms2) = parts
    if m1 == ms1 and m2 == ms2 and n1 == n2 and s1 == s2:
        ctx.holds(h, h.node, "both masks select from the same amplitude and count vectors")
    else:
        ctx.violated(h, h.node, "the two class masks are applied to different vectors (counts %s, amplitudes %s, mask pairing %s)" %
                     ("equal" if n1 == n2 else "differ", "equal" if s1 == s2 else "differ",
                      "consistent" if (m1 == ms1 and m2 == ms2) else "inconsistent"), text="mask sources")
    if dom.negate(m1) == m2 or dom.negate(m2) == m1:
        ctx.holds(h, h.node, "the two class masks are complementary comparisons of the same quantities")
    else:
        ctx.violated(h, h.node, "class masks %r and %r do not partition the classes (a class at the knee is counted twice or not at all)"
                     % (m1[:2] if isinstance(m1, tuple) else m1, m2[:2] if isinstance(m2, tuple) else m2), text="mask partition")
    ok = isinstance(num, tuple) and num[:1] == ("m",) and num[2] == "sum" and num[1] == n1 and \
        isinstance(den, tuple) and den[:2] == ("op", "+")
    if ok:
        ctx.holds(h, h.node, "lifetime multiple = total cycles / (full sum + reduced sum)")
    else:
        ctx.violated(h, h.node, "lifetime multiple is not the total of the cycle counts used in the sums over the sum of both damage "
                     "parts", text="numerator")


# =========================================================================== variants

MP = "src/pylife/strength/miner.py"
SP = "src/pylife/strength/solidity.py"
WP = "src/pylife/materiallaws/woehlercurve.py"
FP = "src/pylife/strength/fatigue.py"


def variants():
    out = []

    def solidity_loaded_only(tree):
        f = find_func(tree, "haibach")
        i = next(k for k, st in enumerate(f.body) if isinstance(st, ast.Assign) and norm_text(st.targets[0]) == "V")
        f.body[i:i + 1] = [parse_stmt("loaded = xi > 0"), parse_stmt("V = np.average(xi[loaded] ** k, weights=hi[loaded])")]
        return True
    out.append(witness("solidity averaged over the loaded classes only", SP, solidity_loaded_only, "R-C11-12"))

    def solidity_average(tree):
        f = find_func(tree, "haibach")
        i = next(k for k, st in enumerate(f.body) if isinstance(st, ast.Assign) and norm_text(st.targets[0]) == "V")
        f.body[i] = parse_stmt("V = np.sum(hi * xi ** k) / hi.sum()")
        return True
    out.append(twin("solidity written as sum(hi xi^k) / sum(hi)", SP, solidity_average))

    def reference_as_given(tree):
        f = find_func(tree, "MinerBase.gassner_cycles")
        for c in calls_in(f):
            if isinstance(c.func, ast.Attribute) and c.func.attr == "cycles" and isinstance(c.func.value, ast.Call):
                c.func.value = ast.Name(id="self", ctx=ast.Load())
                return True
        return False
    out.append(witness("Gassner reference cycles on the curve as given", MP, reference_as_given, "R-C11-9"))

    def native_sd(tree):
        f = find_func(tree, "MinerHaibach.lifetime_multiple")
        for n in ast.walk(f):
            if isinstance(n, ast.Attribute) and n.attr == "SD" and isinstance(n.value, ast.Call):
                return replace_node(n, parse_expr("self.SD"))
        return False
    out.append(witness("Haibach lifetime multiple reads the native SD", MP, native_sd, "R-C11-8"))

    def no_lower(tree):
        f = find_func(tree, "effective_damage_sum")
        for s in f.body:
            if isinstance(s, ast.Assign) and isinstance(s.targets[0], ast.Name) and s.targets[0].id == "d_m":
                s.value = parse_expr("min(d_m_no_limits, d_max)")
                return True
        return False
    out.append(witness("lower clamp removed", MP, no_lower, "R-C11-1"))

    def swapped(tree):
        f = find_func(tree, "effective_damage_sum")
        for s in f.body:
            if isinstance(s, ast.Assign) and isinstance(s.targets[0], ast.Name) and s.targets[0].id == "d_m":
                s.value = parse_expr("max(min(d_min, d_m_no_limits), d_max)")
                return True
        return False
    out.append(witness("min/max swapped", MP, swapped, "R-C11-1"))

    def bound(tree):
        f = find_func(tree, "effective_damage_sum")
        for s in f.body:
            if isinstance(s, ast.Assign) and isinstance(s.targets[0], ast.Name) and s.targets[0].id == "d_min":
                s.value = ast.Constant(0.03)
                return True
        return False
    out.append(witness("lower bound 0.03", MP, bound, "R-C11-1"))

    def bypass(tree):
        f = find_func(tree, "MinerBase.effective_damage_sum")
        f.body[-1].value = parse_expr("2.0 / A ** 0.25")
        return True
    out.append(witness("method bypasses the clamp", MP, bypass, "R-C11-1"))

    def gassner_all(tree):
        f = find_func(tree, "MinerBase.gassner_cycles")
        for c in calls_in(f, name="_max_amplitude"):
            return replace_node(c, parse_expr("collective.amplitude.max()"))
        return False
    out.append(witness("gassner_cycles normalises by all classes", MP, gassner_all, "R-C11-2"))

    def solidity_all(tree):
        f = find_func(tree, "haibach")
        for n in ast.walk(f):
            if isinstance(n, ast.Subscript) and isinstance(n.value, ast.Name) and n.value.id == "S":
                return replace_node(n, n.value)
        return False
    out.append(witness("solidity normalises by all classes", SP, solidity_all, "R-C11-2"))

    def helper_all(tree):
        f = find_func(tree, "_max_amplitude")
        f.body[-1].value = parse_expr("amplitude.max()")
        f2 = find_func(tree, "MinerBase.gassner_cycles")
        return True
    out.append(witness("helper drops the occupancy mask (solidity keeps it)", MP, helper_all, "R-C11-2"))

    def expo(tree):
        f = find_func(tree, "MinerHaibach.lifetime_multiple")
        for n in ast.walk(f):
            if isinstance(n, ast.BinOp) and isinstance(n.op, ast.Pow) and isinstance(n.left, ast.Name) and "reduced" in n.left.id:
                n.right = parse_expr("2 * self.k_1 - 2")
                return True
        return False
    out.append(witness("reduced exponent 2k-2", MP, expo, "R-C11-3"))

    def knee(tree):
        f = find_func(tree, "MinerHaibach.lifetime_multiple")
        for n in ast.walk(f):
            if isinstance(n, ast.BinOp) and isinstance(n.op, ast.Pow) and isinstance(n.left, ast.Name) and n.left.id == "x_D":
                n.right = parse_expr("self.k_1 - 1")
                return True
        return False
    out.append(witness("knee factor exponent k-1", MP, knee, "R-C11-3"))

    def wc_haibach(tree):
        f = find_func(tree, "WoehlerCurve.miner_haibach")
        for s in f.body:
            if isinstance(s, ast.Assign) and isinstance(s.targets[0], ast.Subscript):
                s.value = parse_expr("2.0 * self._obj.k_1 - 2.0")
                return True
        return False
    out.append(witness("miner_haibach writes 2k-2", WP, wc_haibach, "R-C11-3"))

    def el_k2(tree):
        f = find_func(tree, "MinerElementary.lifetime_multiple")
        for c in calls_in(f):
            if len(c.args) == 2:
                c.args[1] = parse_expr("self.k_2")
                return True
        return False
    out.append(witness("elementary multiple with k_2", MP, el_k2, "R-C11-3"))

    def dmg(tree):
        f = find_func(tree, "Fatigue.damage")
        f.body[-1].value = parse_expr("pd.Series(load_collective.cycles ** 2 / cycles, name='damage')")
        return True
    out.append(witness("damage quadratic in the counts", FP, dmg, "R-C11-4"))

    def overlap(tree):
        f = find_func(tree, "MinerHaibach.lifetime_multiple")
        for s in f.body:
            if isinstance(s, ast.Assign) and isinstance(s.value, ast.Compare) and isinstance(s.value.ops[0], ast.Lt):
                s.value.ops = [ast.LtE()]
                return True
        return False
    out.append(witness("masks overlap at the knee", MP, overlap, "R-C11-5"))

    def numerator(tree):
        f = find_func(tree, "MinerHaibach.lifetime_multiple")
        f.body[-1].value.left = parse_expr("n_full_damage.sum()")
        return True
    out.append(witness("numerator sums only the full-damage classes", MP, numerator, "R-C11-5"))

    def gassner_nocopy(tree):
        f = find_func(tree, "MinerElementary.gassner")
        for st in f.body:
            if isinstance(st, ast.Assign) and isinstance(st.value, ast.Call) and isinstance(st.value.func, ast.Attribute) and \
                    st.value.func.attr == "copy":
                st.value = st.value.func.value
                return True
        return False
    out.append(witness("gassner() shifts ND of the object itself", MP, gassner_nocopy, "R-C11-6"))

    def split_by_position(tree):
        f = find_func(tree, "MinerHaibach.lifetime_multiple")
        for st in f.body:
            if isinstance(st, ast.Assign) and isinstance(st.targets[0], ast.Name) and st.targets[0].id == "n_full_damage":
                st.value = parse_expr("cycles.iloc[np.searchsorted(s_a, x_D):]")
                return True
        return False
    out.append(witness("full-damage classes taken by position in unsorted data", MP, split_by_position, "R-C11-7"))

    def first_member(tree):
        f = find_func(tree, "haibach")
        f.body.insert(1, parse_stmt("ref = collective.amplitude.iloc[0]"))
        return True
    out.append(witness("reference amplitude from the first member", SP, first_member, "R-C11-7"))

    # twins
    def clip(tree):
        f = find_func(tree, "effective_damage_sum")
        for s in f.body:
            if isinstance(s, ast.Assign) and isinstance(s.targets[0], ast.Name) and s.targets[0].id == "d_m":
                s.value = parse_expr("max(d_min, min(d_m_no_limits, d_max))")
                return True
        return False
    out.append(twin("clamp written as max(lo, min(x, hi))", MP, clip))

    def expo_eq(tree):
        f = find_func(tree, "MinerHaibach.lifetime_multiple")
        for n in ast.walk(f):
            if isinstance(n, ast.BinOp) and isinstance(n.op, ast.Pow) and isinstance(n.left, ast.Name) and "reduced" in n.left.id:
                n.right = parse_expr("self.k_1 + self.k_1 - 1")
                return True
        return False
    out.append(twin("reduced exponent k+k-1", MP, expo_eq))

    def mask_not(tree):
        f = find_func(tree, "MinerHaibach.lifetime_multiple")
        for s in f.body:
            if isinstance(s, ast.Assign) and isinstance(s.value, ast.Compare) and isinstance(s.value.ops[0], ast.Lt):
                s.value = parse_expr("x_D > s_a")
                return True
        return False
    out.append(twin("reduced mask written as x_D > s_a", MP, mask_not))
    return out
