"""C15 — failure probability: WHICH integral is handed to the quadrature (design §3 C15).

Decides the structural clause only: integrand, coordinate shift, limits, returned component, the deterministic-load formula,
the sampled-density integrand, and that the strength parameters are not rewritten.  The accuracy of scipy's quadrature over
the parameter space is not decided (stated in the level note)."""
from __future__ import annotations

import ast
from fractions import Fraction

from ..astutil import call_name, clone, const_value, dotted, find_func, is_self_attr, kwarg, parse_expr, parse_stmt, subst_names
from ..cfg import CFG
from ..dataflow import inline_env
from ..frontend import AnalysisError, walk_function
from ..inline import inlined
from ..nf import RF, NFUnsupported, Poly, Translator
from ..report import norm_text
from ..witness import witness, twin

LEVEL = "other"
MOD = "pylife.strength.failure_probability"
CLS = MOD + ":FailureProbability"
PATH = "src/pylife/strength/failure_probability.py"
K_MIN = 8
EXPLANATION = (
    "Static decision of which integral FailureProbability computes (C15); the numerical accuracy of the quadrature is NOT "
    "decided. R-C15-1: the integrand handed to scipy.integrate.quad in pf_norm_load (lambda, nested def or local name; captured "
    "locals in closed form at the quad statement) is a product of exactly one norm.pdf and one norm.cdf factor; in the rational "
    "normal form with log10 atoms and self attributes resolved through the constructor, both arguments are the integration "
    "variable plus a constant, (a_cdf - loc_cdf) - (a_pdf - loc_pdf) == log10(load_median) - log10(strength_median), the pdf "
    "scale is load_std and the cdf scale is strength_std (invariant under the choice of the coordinate shift; the closed form "
    "Phi((lm-sm)/sqrt(sL^2+sS^2)) is accepted as well). R-C15-2: a given integration limit is moved into the integrand's "
    "coordinate by the same shift as the load median, a default limit is the centre of the load pdf -/+ k load_std with a "
    "literal k >= 8 on the correct side (or infinite). R-C15-3: every return of pf_norm_load yields component 0 of the quad "
    "result unaltered (a clip to [0,1] accepted). R-C15-4: pf_simple_load returns norm.cdf(a, loc, scale) with a - loc == "
    "log10(load) - log10(strength_median) and scale == strength_std. R-C15-5: pf_arbitrary_load returns a trapezoid/trapz/"
    "simpson call (also through the local compatibility alias) over exactly load_pdf * norm.cdf(load_values, loc=log10("
    "strength_median), scale=strength_std) with the abscissa load_values. R-C15-6: no method other than the constructor writes "
    "an attribute the pf_* methods read. R-C15-7: every quad call gets an absolute tolerance below a tenth of the smallest "
    "probability the property names (1e-12); R-C15-8: the quadrature gets break points (sub-interval ends or points=) at the "
    "centre of the strength cdf -/+ 4..16 strength_std, so that its rise is resolved when the load scatter is much larger "
    "(both added with the repair 0182f69 of the far-tail and narrow-strength defects). R-C15-9: no pf_* method writes into an "
    "array argument. The integration limits may not depend on the strength parameters.")
LEVEL_NOTE = ("Decides WHICH integral is computed (integrand, coordinate shift, limits, returned component, deterministic and sampled "
              "variants, strength parameters left alone) - necessary conditions of the property. NOT decided, and the larger part "
              "of the property: whether scipy's adaptive quadrature resolves a narrow strength distribution for every scatter "
              "ratio, the monotonicity in the medians, the range [0, 1] and the convergence of the trapezoid variant - these "
              "quantify over runtime values of a library routine. Trusted: the in-house front end / def-use / normal-form engine "
              "under /verif/sa, python's ast, and: ")
ASSUMPTIONS = ["scipy.stats.norm.pdf/cdf(x, loc, scale) are the density / distribution function of (x-loc)/scale (density divided by scale)",
               "scipy.integrate.quad(f, a, b) returns (integral of f over [a, b], error estimate); np.trapezoid(y, x=x) integrates y over x",
               "strength_std and load_std are positive; medians are positive",
               "limits passed by the caller are log10 values of the load, as the docstring of pf_norm_load says"]

NORM = ("scipy.stats.norm", "scipy.stats.distributions.norm")
QUAD = ("scipy.integrate.quad",)
TRAPZ = ("numpy.trapezoid", "numpy.trapz", "scipy.integrate.trapezoid", "scipy.integrate.trapz", "scipy.integrate.simpson",
         "scipy.integrate.simps", "scipy.integrate.cumulative_trapezoid")
INF_TEXT = {"np.inf": 1, "numpy.inf": 1, "math.inf": 1, "float('inf')": 1, "np.Inf": 1, "np.infty": 1,
            "-np.inf": -1, "-numpy.inf": -1, "-math.inf": -1, "float('-inf')": -1, "-float('inf')": -1, "-np.Inf": -1, "-np.infty": -1}


def run(ctx):
    for r in (_norm_load, _simple, _arbitrary, _state, _arguments):
        ctx.attempt(r)


def _arguments(ctx):
    """R-C15-9: no pf_* method writes into an array argument (augmented assignment, item store, out=, mutating method): the
    sampled density handed to pf_arbitrary_load twice - for two strengths, or simply again - must give the same integral the
    second time.  Exempt: augmented assignment to a parameter whose default is None (the documented scalar limits)."""
    prog = ctx.prog
    ci = prog.cls(CLS)
    ctx.rule("R-C15-9", floor=3, what="the pf_* methods do not write into their array arguments")
    for name, fi in sorted(prog.methods_of(ci, inherited=True).items()):
        if not name.startswith("pf_"):
            continue
        a = fi.node.args
        params = [x.arg for x in a.args if x.arg != "self"]
        none_default = {p.arg for p, d in zip(a.args[len(a.args) - len(a.defaults):], a.defaults) if isinstance(d, ast.Constant) and d.value is None}
        aliases = {p: p for p in params}
        for st in walk_function(fi.node):
            if isinstance(st, ast.Assign) and len(st.targets) == 1 and isinstance(st.targets[0], ast.Name):
                v = _strip_conv(st.value)
                if isinstance(v, ast.Name) and v.id in aliases and st.targets[0].id not in params:
                    aliases[st.targets[0].id] = aliases[v.id]           # np.asarray(p) is a view of p
        bad = []
        for st in walk_function(fi.node):
            if isinstance(st, ast.AugAssign):
                t = st.target
                base = t
                while isinstance(base, (ast.Subscript, ast.Attribute)):
                    base = base.value
                if isinstance(base, ast.Name) and base.id in aliases and not (t is base and aliases[base.id] in none_default):
                    bad.append((st, aliases[base.id]))
            elif isinstance(st, ast.Assign):
                for t in st.targets:
                    base = t
                    while isinstance(base, (ast.Subscript, ast.Attribute)):
                        base = base.value
                    if base is not t and isinstance(base, ast.Name) and base.id in aliases:
                        bad.append((st, aliases[base.id]))
            for c in ast.walk(st) if isinstance(st, (ast.Expr, ast.Assign, ast.Return, ast.AugAssign)) else []:
                if not isinstance(c, ast.Call):
                    continue
                for k in c.keywords:
                    if k.arg == "out" and isinstance(k.value, ast.Name) and k.value.id in aliases:
                        bad.append((st, aliases[k.value.id]))
                if isinstance(c.func, ast.Attribute) and c.func.attr in ("sort", "fill", "put", "resize", "partition", "itemset", "setflags") and \
                        isinstance(c.func.value, ast.Name) and c.func.value.id in aliases:
                    bad.append((st, aliases[c.func.value.id]))
        seen = set()
        for st, p in bad:
            if (id(st), p) in seen:
                continue
            seen.add((id(st), p))
            ctx.violated(fi, st, "%s writes into its argument `%s` (%s): the caller's array is changed, a second call with the same "
                         "array integrates something else" % (name, p, norm_text(st)[:60]), text="in-place write to %s" % p)
        if not bad:
            ctx.holds(fi, fi.node, "%s leaves its array arguments untouched" % name)


# ------------------------------------------------------------------------------------------------ helpers
def _full(module, e):
    """dotted name with the module's import aliases expanded (np -> numpy, norm -> scipy.stats.norm, ...)"""
    d = dotted(e)
    if not d:
        return None
    head, _, rest = d.partition(".")
    tgt = module.imports.get(head)
    if tgt is None:
        return d
    return tgt + ("." + rest if rest else "")


class _Sym:
    """translation context of one method: parameters are symbols, self attributes come from the constructor"""

    def __init__(self, prog, fi, env, extra_atoms=None):
        self.prog, self.fi, self.env = prog, fi, env
        self.extra = extra_atoms or {}
        self._attrs = None

    def attrs(self):
        if self._attrs is not None:
            return self._attrs
        ci = self.prog.cls(CLS)
        init = self.prog.lookup_method(ci, "__init__")
        if init is None:
            raise AnalysisError("FailureProbability.__init__ vanished")
        init = inlined(self.prog, init)
        out = {}
        rets = [s for s in init.node.body]
        last = rets[-1]
        env = inline_env(CFG(init.node), last)
        env.pop("__ambiguous__", None)
        for s in walk_function(init.node):
            if isinstance(s, ast.Assign):
                for t in s.targets:
                    if is_self_attr(t):
                        if t.attr in out:
                            raise AnalysisError("constructor assigns self.%s twice" % t.attr)
                        e2 = inline_env(CFG(init.node), s)
                        e2.pop("__ambiguous__", None)
                        out[t.attr] = subst_names(s.value, e2)
            elif isinstance(s, (ast.AugAssign, ast.AnnAssign)) and is_self_attr(s.target):
                raise AnalysisError("constructor form not modelled: %s" % norm_text(s))
        self._attrs = out
        return out

    def nf(self, e, x=None):
        me = self

        def atom(n):
            if isinstance(n, ast.Name) and n.id in me.extra:
                return me.extra[n.id]
            if is_self_attr(n):
                a = me.attrs()
                if n.attr not in a:
                    raise NFUnsupported("self.%s is not set by the constructor" % n.attr)
                return Translator(atom=ctor_atom, strip=strip).tr(a[n.attr])
            return None

        def ctor_atom(n):
            if is_self_attr(n):
                a = me.attrs()
                if n.attr in a:
                    return Translator(atom=ctor_atom, strip=strip).tr(a[n.attr])
                raise NFUnsupported("self.%s unknown" % n.attr)
            if isinstance(n, ast.Name):
                return RF.sym("ctor." + n.id)
            return None

        def strip(n):
            # value-preserving conversions
            if isinstance(n, ast.Call) and (call_name(n) or "") in ("float", "np.float64", "np.asarray", "np.asanyarray", "np.array",
                                                                    "np.atleast_1d", "np.double") and len(n.args) == 1 and \
                    not [k for k in n.keywords if k.arg != "dtype" or norm_text(k.value) not in ("float", "np.float64", "np.double")]:
                return n.args[0]
            if isinstance(n, ast.Call) and (call_name(n) or "") in ("np.hypot", "numpy.hypot", "math.hypot") and len(n.args) == 2 and not n.keywords:
                sq = [ast.BinOp(left=a, op=ast.Pow(), right=ast.Constant(2)) for a in n.args]
                return ast.Call(func=parse_expr("np.sqrt"), args=[ast.BinOp(left=sq[0], op=ast.Add(), right=sq[1])], keywords=[])
            return n
        return Translator(atom=atom, env=self.env, strip=strip).tr(e)


def _strength():
    return RF.sym("ctor.strength_median"), RF.sym("ctor.strength_std")


def _log10(r: RF):
    return Translator()._transcendental("np.log10", r)


def _dist_call(module, c):
    """norm.pdf / norm.cdf call -> ('pdf'|'cdf'|..., arg, loc, scale) expressions, or None"""
    if not isinstance(c, ast.Call) or not isinstance(c.func, ast.Attribute):
        return None
    kind = c.func.attr
    base = c.func.value
    if _full(module, base) in NORM:
        if not c.args:
            return None
        loc = kwarg(c, "loc", 1) or ast.Constant(0)
        scale = kwarg(c, "scale", 2) or ast.Constant(1)
        return kind, c.args[0], loc, scale
    if isinstance(base, ast.Call) and _full(module, base.func) in NORM and len(c.args) == 1 and not c.keywords:
        loc = kwarg(base, "loc", 0) or ast.Constant(0)
        scale = kwarg(base, "scale", 1) or ast.Constant(1)
        return kind, c.args[0], loc, scale
    return None


def _factors(e):
    if isinstance(e, ast.BinOp) and isinstance(e.op, ast.Mult):
        return _factors(e.left) + _factors(e.right)
    if isinstance(e, ast.Call) and (call_name(e) or "") in ("np.multiply", "numpy.multiply") and len(e.args) == 2 and not e.keywords:
        return _factors(e.args[0]) + _factors(e.args[1])
    return [e]


def _method(prog, name):
    ci = prog.cls(CLS)
    fi = prog.lookup_method(ci, name)
    if fi is None:
        raise AnalysisError("FailureProbability.%s vanished" % name)
    return inlined(prog, fi)


def _closed(fi, stmt):
    env = inline_env(CFG(fi.node), stmt)
    amb = env.pop("__ambiguous__", set())
    return env, amb


def _stmt_of(n):
    while not isinstance(n, ast.stmt):
        n = n._parent
    return n


def _split_none(e, assume):
    """resolve `A if p is None else B` for the assumption {param: is_none}; returns the selected expression"""
    while isinstance(e, ast.IfExp):
        t, neg = e.test, False
        while isinstance(t, ast.UnaryOp) and isinstance(t.op, ast.Not):
            t, neg = t.operand, not neg
        if isinstance(t, ast.Compare) and len(t.ops) == 1 and isinstance(t.ops[0], (ast.Is, ast.IsNot, ast.Eq, ast.NotEq)) and \
                isinstance(t.left, ast.Name) and const_value(t.comparators[0]) is None and isinstance(t.comparators[0], ast.Constant) \
                and t.left.id in assume:
            isnone = assume[t.left.id]
            val = isnone if isinstance(t.ops[0], (ast.Is, ast.Eq)) else not isnone
            if neg:
                val = not val
            e = e.body if val else e.orelse
            continue
        raise AnalysisError("selector of an integration limit not modelled: %s" % norm_text(e.test)[:80])
    return e


def _split_none_everywhere(e, assume):
    """resolve every `A if p is None else B` inside e for the assumption"""
    e = _split_none(e, assume)

    def rec(n):
        for f, v in ast.iter_fields(n):
            if isinstance(v, ast.IfExp):
                setattr(n, f, _split_none_everywhere(v, assume))
            elif isinstance(v, list):
                for i, x in enumerate(v):
                    if isinstance(x, ast.IfExp):
                        v[i] = _split_none_everywhere(x, assume)
                    elif isinstance(x, ast.AST):
                        rec(x)
            elif isinstance(v, ast.AST):
                rec(v)
    if isinstance(e, ast.AST):
        rec(e)
    return e


# ------------------------------------------------------------------------------------------------ R-C15-1..3
def _integrand(prog, fi, qcall, env):
    """-> (param name of the integration variable, body expression with captured locals substituted)"""
    f = qcall.args[0] if qcall.args else kwarg(qcall, "func")
    if f is None:
        raise AnalysisError("quad call without integrand")
    if isinstance(f, ast.Name) and f.id in env:
        f = env[f.id]
    if isinstance(f, ast.Lambda):
        if len(f.args.args) != 1 or f.args.defaults or f.args.vararg or f.args.kwarg:
            raise AnalysisError("integrand lambda with other than one parameter")
        x = f.args.args[0].arg
        e2 = {k: v for k, v in env.items() if k != x}
        return x, subst_names(f.body, e2)
    if isinstance(f, ast.Name):
        for s in walk_function(fi.node, include_nested=False):
            if isinstance(s, ast.FunctionDef) and s.name == f.id:
                if len(s.args.args) != 1 or s.args.defaults:
                    raise AnalysisError("integrand function with other than one parameter")
                x = s.args.args[0].arg
                rets = [r for r in walk_function(s) if isinstance(r, ast.Return)]
                if len(rets) != 1 or rets[0].value is None:
                    raise AnalysisError("integrand function: single return expected")
                inner = inline_env(CFG(s), rets[0])
                inner.pop("__ambiguous__", None)
                body = subst_names(rets[0].value, inner)
                e2 = {k: v for k, v in env.items() if k != x and k not in inner}
                return x, subst_names(body, e2)
    raise AnalysisError("integrand of the quad call is not a lambda / local function: %s" % norm_text(f)[:60])


def _norm_load(ctx):
    prog = ctx.prog
    fi = _method(prog, "pf_norm_load")
    mod = fi.module
    ctx.rule("R-C15-1", floor=4, what="integrand of the quadrature = load pdf x strength cdf in one coordinate")
    ctx.rule("R-C15-2", floor=4, what="integration limits follow the coordinate shift; default limits cover >= 8 load_std on the right side")
    ctx.rule("R-C15-3", floor=1, what="pf_norm_load returns the integral itself")
    ctx.rule("R-C15-7", floor=1, what="absolute tolerance of the quadrature below the smallest probability named")
    ctx.rule("R-C15-8", floor=1, what="break points enclose the rise of the strength cdf")
    ctx._rule = "R-C15-1"
    params = [p for p in fi.params if p != "self"]
    if len(params) < 2:
        raise AnalysisError("pf_norm_load: load median / scatter parameters expected")
    p_med, p_std = params[0], params[1]
    lm = _log10(RF.sym(p_med))
    s_med, s_std = _strength()
    sm = _log10(s_med)
    qcalls = [c for c in ast.walk(fi.node) if isinstance(c, ast.Call) and _full(mod, c.func) in QUAD]
    rets = [r for r in walk_function(fi.node) if isinstance(r, ast.Return) and r.value is not None]
    if not qcalls:
        _closed_form(ctx, prog, fi, rets, lm, sm, RF.sym(p_std), s_std)
        return
    if len(qcalls) != 1:
        raise AnalysisError("pf_norm_load: one quad call expected, found %d" % len(qcalls))
    q = qcalls[0]
    qstmt = _stmt_of(q)
    env, amb = _closed(fi, qstmt)
    x, body = _integrand(prog, fi, q, env)
    sym = _Sym(prog, fi, {}, extra_atoms={x: RF.sym("@x")})
    X = RF.sym("@x")
    fac = _factors(body)
    dist = [(f, _dist_call(mod, f)) for f in fac]
    pdfs = [(f, d) for f, d in dist if d and d[0] == "pdf"]
    cdfs = [(f, d) for f, d in dist if d and d[0] == "cdf"]
    others = [f for f, d in dist if not d or d[0] not in ("pdf", "cdf")]
    if len(pdfs) != 1 or len(cdfs) != 1:
        if any(d for f, d in dist):
            ctx.violated(fi, q, "the integrand is not the product of one normal density (load) and one normal distribution function "
                         "(strength): %d pdf and %d cdf factors in %s" % (len(pdfs), len(cdfs), norm_text(body)[:120]),
                         text="integrand factors")
            return
        raise AnalysisError("integrand shape not modelled: %s" % norm_text(body)[:100])
    for o in others:
        try:
            v = sym.nf(o)
        except NFUnsupported as e:
            raise AnalysisError("extra factor of the integrand not modelled: %s (%s)" % (norm_text(o)[:60], e))
        if v == RF.const(1):
            ctx.holds(fi, o, "extra factor %s is one" % norm_text(o))
        else:
            ctx.violated(fi, q, "the integrand carries the extra factor %s besides load pdf x strength cdf" % norm_text(o)[:60],
                         text="extra factor " + norm_text(o)[:80])
    (pf, (_, pa, ploc, pscale)), (cf, (_, ca, cloc, cscale)) = pdfs[0], cdfs[0]
    try:
        pa_n, ploc_n, pscale_n = sym.nf(pa), sym.nf(ploc), sym.nf(pscale)
        ca_n, cloc_n, cscale_n = sym.nf(ca), sym.nf(cloc), sym.nf(cscale)
    except NFUnsupported as e:
        raise AnalysisError("integrand arguments outside the normal-form fragment: %s" % e)
    # both arguments are x + const
    shift_ok = True
    for nm, a, node in (("pdf", pa_n, pa), ("cdf", ca_n, ca)):
        d = a - X
        if "@x" in _syms(d):
            ctx.violated(fi, q, "the %s factor is evaluated at %s, not at the integration variable plus a constant: the substitution "
                         "would need a Jacobian" % (nm, norm_text(node)[:60]), text="%s argument" % nm)
            shift_ok = False
        else:
            ctx.holds(fi, node, "%s factor evaluated at the integration variable (+ constant)" % nm)
    for nm, v in (("pdf loc", ploc_n), ("pdf scale", pscale_n), ("cdf loc", cloc_n), ("cdf scale", cscale_n)):
        if "@x" in _syms(v):
            ctx.violated(fi, q, "%s depends on the integration variable" % nm, text=nm + " depends on x")
            shift_ok = False
    if not shift_ok:
        return
    off = (ca_n - cloc_n) - (pa_n - ploc_n)
    if off == lm - sm:
        ctx.holds(fi, cloc, "offset between strength cdf and load pdf == log10(load median) - log10(strength median)",
                  facts={"offset": repr(off)})
    else:
        ctx.violated(fi, q, "the strength distribution is placed at the wrong distance from the load distribution: "
                     "(a_cdf - loc_cdf) - (a_pdf - loc_pdf) = %r, expected log10(%s) - log10(strength_median) = %r"
                     % (off, p_med, lm - sm), text="offset strength-load")
    if pscale_n == RF.sym(p_std):
        ctx.holds(fi, pscale, "scale of the load pdf == %s" % p_std)
    else:
        ctx.violated(fi, q, "the load density has scale %r instead of %s" % (pscale_n, p_std), text="pdf scale")
    if cscale_n == s_std:
        ctx.holds(fi, cscale, "scale of the strength cdf == strength_std")
    else:
        ctx.violated(fi, q, "the strength distribution function has scale %r instead of strength_std" % (cscale_n,), text="cdf scale")
    # ---- limits
    centre = ploc_n - (pa_n - X)          # x value at which the load pdf is centred
    shift = centre - lm                   # x = y + shift for a log10-load y
    lims = [kwarg(q, "a", 1), kwarg(q, "b", 2)]
    if lims[0] is None or lims[1] is None:
        raise AnalysisError("quad call without both limits")
    try:
        part = _partition(fi, q, env)
    except _WrongComponent as wc:
        ctx.violated(fi, q, "the pieces summed are component %s of the quad results, not the integrals" % wc.args[0],
                     text="returned component", rule="R-C15-3")
        return
    breaks = []
    if part is not None:
        lims, breaks, comp = part
    lim_params = params[2:4]
    ctx._rule = "R-C15-2"
    for side, (lim, sgn) in enumerate(zip(lims, (-1, 1))):
        lim_full = lim if part is not None else (subst_names(lim, env) if not isinstance(lim, ast.Name) or lim.id in env else lim)
        which = "lower" if sgn < 0 else "upper"
        tests = _none_params(lim_full)
        if not tests:
            cases = [({}, "always")]
        else:
            if len(tests) != 1:
                raise AnalysisError("%s limit selected by several parameters" % which)
            p = next(iter(tests))
            cases = [({p: True}, "%s is None" % p), ({p: False}, "%s given" % p)]
        for assume, label in cases:
            e = _split_none_everywhere(clone_noparent(lim_full), assume)
            given = [p for p, isnone in assume.items() if not isnone]
            inf = INF_TEXT.get(norm_text(e).replace('"', "'"))
            if inf is not None:
                if inf == sgn:
                    ctx.holds(fi, lim, "%s limit (%s) is infinite" % (which, label))
                else:
                    ctx.violated(fi, q, "%s limit (%s) is %s: the wrong end of the axis" % (which, label, norm_text(e)),
                                 text="%s limit %s infinite" % (which, label))
                continue
            try:
                v = sym.nf(e)
            except NFUnsupported as ex:
                if any(is_self_attr(n) for n in ast.walk(e)):
                    ctx.violated(fi, q, "the %s integration limit (%s) depends on the strength parameters (%s): the range must cover "
                                 "the load distribution whatever the strength is - load mass outside a window around the strength "
                                 "median is lost (above it the strength cdf is 1, not 0)" % (which, label, norm_text(e)[:90]),
                                 text="%s limit depends on the strength" % which)
                    continue
                raise AnalysisError("%s limit (%s) outside the normal-form fragment: %s" % (which, label, ex))
            if any(a.startswith("ctor.") for a in _syms(v)):
                ctx.violated(fi, q, "the %s integration limit (%s) depends on the strength parameters: %r" % (which, label, v),
                             text="%s limit depends on the strength" % which)
                continue
            if given or (not assume and _syms(v) & set(lim_params)):
                p = given[0] if given else next(iter(_syms(v) & set(lim_params)))
                want = RF.sym(p) + shift
                if v == want:
                    ctx.holds(fi, lim, "%s limit (%s) is moved into the integrand's coordinate by the shift of the load median" % (which, label))
                else:
                    ctx.violated(fi, q, "a given %s limit arrives as %r in the integrand's coordinate; with the load pdf centred at %r "
                                 "it must be %r (the same shift as the load median)" % (which, v, centre, want),
                                 text="%s limit given" % which)
                continue
            # default: centre -/+ k * scale
            d = v - centre
            k = d / pscale_n
            kc = k.as_const()
            if kc is None:
                ctx.violated(fi, q, "the default %s limit %r is not the centre of the load pdf (%r) plus a multiple of its scale"
                             % (which, v, centre), text="%s limit default form" % which)
            elif kc * sgn < K_MIN:
                ctx.violated(fi, q, "the default %s limit is the centre of the load pdf %+g scales: it must lie at least %d scales "
                             "%s the centre (tail mass below 1e-15)" % (which, float(kc), K_MIN, "below" if sgn < 0 else "above"),
                             text="%s limit default width" % which)
            else:
                ctx.holds(fi, lim, "default %s limit = centre %+g load scales" % (which, float(kc)))
    ctx.attempt(_tolerance_and_breaks, fi, q, env, sym, cloc_n - (ca_n - X), cscale_n, breaks, None)
    # ---- result
    ctx._rule = "R-C15-3"
    if not rets:
        raise AnalysisError("pf_norm_load has no return")
    for r in rets:
        renv, _ = _closed(fi, r)
        val = subst_names(r.value, renv)
        val = _strip_clip(val)
        if part is not None:
            if val is comp or norm_text(val) == norm_text(subst_names(comp, renv)) or norm_text(val) == norm_text(comp):
                ctx.holds(fi, r, "returns the sum of component 0 of the quad results over the partition of the range")
            elif any(norm_text(n) in (norm_text(comp), norm_text(subst_names(comp, renv))) for n in ast.walk(val) if isinstance(n, ast.Call)):
                ctx.violated(fi, r, "pf_norm_load returns %s: the integral is altered before it is returned" % norm_text(r.value)[:80],
                             text="returned value altered")
            else:
                raise AnalysisError("return of pf_norm_load not traced to the piecewise quadrature: %s" % norm_text(r.value)[:80])
            continue
        ok = isinstance(val, ast.Subscript) and val.value is not None and _same_call(val.value, q, env) and const_value(val.slice) == 0
        if ok:
            ctx.holds(fi, r, "returns component 0 of the quad result")
        elif isinstance(val, ast.Subscript) and _same_call(val.value, q, env):
            ctx.violated(fi, r, "pf_norm_load returns component %s of the quad result, not the integral" % norm_text(val.slice),
                         text="returned component")
        elif _mentions_call(val, q, env):
            ctx.violated(fi, r, "pf_norm_load returns %s: the integral is altered before it is returned" % norm_text(r.value)[:80],
                         text="returned value altered")
        else:
            raise AnalysisError("return of pf_norm_load not traced to the quad call: %s" % norm_text(r.value)[:80])


def clone_noparent(e):
    return clone(e)


class _WrongComponent(Exception):
    pass


P_MIN = Fraction(1, 10 ** 12)       # smallest failure probability the property names


def _tolerance_and_breaks(ctx, fi, q, env, sym, centre_cdf, cscale_n, breaks, lims_n):
    """R-C15-7 / R-C15-8 (added with the repair of the far-tail / narrow-strength defects, DESIGN section 4)"""
    ctx._rule = "R-C15-7"
    ea = kwarg(q, "epsabs", 4)
    if ea is None:
        ctx.violated(fi, q, "quad is called with its default absolute tolerance (1.49e-8): the refinement stops as soon as the error "
                     "estimate is below it, so probabilities below about 1e-8 are not resolved (the property names 1e-12)",
                     text="epsabs default")
    else:
        try:
            v = sym.nf(subst_names(ea, env)).as_const()
        except NFUnsupported:
            v = None
        if v is None:
            raise AnalysisError("absolute tolerance of the quadrature is not a literal: %s" % norm_text(ea))
        if v <= P_MIN / 10:
            ctx.holds(fi, ea, "absolute tolerance %g is below a tenth of the smallest probability named (1e-12)" % float(v))
        else:
            ctx.violated(fi, q, "the absolute tolerance of the quadrature is %g: probabilities down to 1e-12 need it below 1e-13"
                         % float(v), text="epsabs too large")
    ctx._rule = "R-C15-8"
    pts = kwarg(q, "points")
    cand = list(breaks)
    if pts is not None:
        cand += _elements(subst_names(pts, env))
    ks = []
    for e in cand:
        try:
            k = ((sym.nf(e) - centre_cdf) / cscale_n).as_const()
        except NFUnsupported:
            continue
        if k is not None:
            ks.append(k)
    lo = [k for k in ks if -16 <= k <= -4]
    hi = [k for k in ks if 4 <= k <= 16]
    if lo and hi:
        ctx.holds(fi, q, "break points at the centre of the strength cdf %+g and %+g strength_std enclose its rise" % (float(max(lo)), float(min(hi))))
    else:
        ctx.violated(fi, q, "the quadrature gets no break points enclosing the rise of the strength cdf (centre -/+ 4..16 strength_std, "
                     "as sub-interval ends or points=): when the load scatter is much larger than the strength scatter none of the "
                     "21 nodes of the first pass falls into the rise and the error estimate is blind to it (0.4995 instead of 0.5 "
                     "for load_std = 300 strength_std)", text="break points around the strength cdf")


def _elements(e):
    """scalar element expressions of an array-valued expression: list/tuple literals, np.array([...]), element-wise arithmetic
    with one array literal, np.clip(X, lo, hi) (elements of X; the clip keeps a break point or moves it onto a limit)"""
    e = _strip_conv(e)
    if isinstance(e, ast.Call) and (call_name(e) or "") in ("np.clip", "numpy.clip") and e.args:
        return _elements(e.args[0])
    if isinstance(e, ast.Call) and (call_name(e) or "") in ("np.unique", "np.sort", "sorted", "np.concatenate", "np.hstack", "np.r_") and e.args:
        return _elements(e.args[0])
    if isinstance(e, (ast.List, ast.Tuple)):
        out = []
        for x in e.elts:
            if isinstance(x, (ast.List, ast.Tuple)) or (isinstance(x, ast.Call) and (call_name(x) or "") in
                                                        ("np.clip", "np.array", "np.asarray", "np.unique", "np.sort", "np.concatenate")):
                out += _elements(x)
            else:
                sub = _elements(x) if _array_literals(x) else [x]
                out += sub
        return out
    lits = _array_literals(e)
    if len(lits) == 1:
        lit = lits[0]
        out = []
        for x in lit.elts:
            out.append(_replace(e, lit, x))
        return out
    if not lits:
        return [e]
    raise AnalysisError("break points: expression with several array literals not modelled: %s" % norm_text(e)[:80])


def _array_literals(e):
    out = []
    for n in ast.walk(e):
        if isinstance(n, ast.Call) and (call_name(n) or "") in ("np.array", "np.asarray", "numpy.array") and n.args and \
                isinstance(n.args[0], (ast.List, ast.Tuple)):
            out.append(n.args[0])
    if not out and isinstance(e, (ast.List, ast.Tuple)):
        out.append(e)
    return out


def _replace(e, lit, x):
    """copy of e with the array literal (and its np.array wrapper) replaced by the scalar x"""
    def rec(n):
        if isinstance(n, ast.Call) and n.args and n.args[0] is lit:
            return clone(x)
        if n is lit:
            return clone(x)
        if not isinstance(n, ast.AST):
            return n
        new = type(n)()
        for f, v in ast.iter_fields(n):
            if isinstance(v, list):
                setattr(new, f, [rec(i) for i in v])
            elif isinstance(v, ast.AST):
                setattr(new, f, rec(v))
            else:
                setattr(new, f, v)
        return new
    return rec(e)


def _partition_loop(fi, q, env):
    """the same piecewise integration written as a loop:
        for i in range(len(E) - 1): v = quad(f, E[i], E[i + 1], ...)[0] (or v, err = quad(...)); L.append(v) / total += v
    followed by `sum(L)` / `total`.  -> ([lo, hi], break points, the expression that holds the sum) or None"""
    p = q
    loop = None
    while p is not None and not isinstance(p, (ast.FunctionDef, ast.Lambda)):
        if isinstance(p, ast.For):
            loop = p
            break
        p = getattr(p, "_parent", None)
    if loop is None:
        return None
    it = loop.iter
    if not (isinstance(loop.target, ast.Name) and isinstance(it, ast.Call) and call_name(it) == "range" and len(it.args) == 1):
        raise AnalysisError("piecewise quadrature: loop form not modelled: %s" % norm_text(it)[:60])
    i = loop.target.id
    n = it.args[0]
    ok_n = isinstance(n, ast.BinOp) and isinstance(n.op, ast.Sub) and const_value(n.right) == 1 and isinstance(n.left, ast.Call) and \
        call_name(n.left) == "len" and len(n.left.args) == 1
    if not ok_n:
        raise AnalysisError("piecewise quadrature: loop bound is not len(E) - 1")
    E = n.left.args[0]
    la, lb = kwarg(q, "a", 1), kwarg(q, "b", 2)
    if not (isinstance(la, ast.Subscript) and isinstance(lb, ast.Subscript) and norm_text(la.value) == norm_text(E) == norm_text(lb.value) and
            norm_text(la.slice) == i and norm_text(lb.slice) in ("%s + 1" % i, "1 + %s" % i)):
        raise AnalysisError("piecewise quadrature: the limits of a piece are not E[i], E[i + 1]")
    st = _stmt_of(q)
    val = None
    if isinstance(st, ast.Assign) and len(st.targets) == 1:
        t = st.targets[0]
        if isinstance(t, ast.Tuple) and st.value is q and isinstance(t.elts[0], ast.Name):
            val = t.elts[0].id
        elif isinstance(t, ast.Name) and isinstance(st.value, ast.Subscript) and st.value.value is q:
            if const_value(st.value.slice) != 0:
                raise _WrongComponent(const_value(st.value.slice))
            val = t.id
    acc = None
    for s2 in loop.body:
        if val is not None and isinstance(s2, ast.Expr) and isinstance(s2.value, ast.Call) and isinstance(s2.value.func, ast.Attribute) and \
                s2.value.func.attr == "append" and isinstance(s2.value.func.value, ast.Name) and len(s2.value.args) == 1 and \
                norm_text(s2.value.args[0]) == val:
            acc = ("list", s2.value.func.value.id)
        if isinstance(s2, ast.AugAssign) and isinstance(s2.op, ast.Add) and isinstance(s2.target, ast.Name):
            v = s2.value
            if (val is not None and norm_text(v) == val) or (isinstance(v, ast.Subscript) and v.value is q and const_value(v.slice) == 0):
                acc = ("sum", s2.target.id)
            elif isinstance(v, ast.Subscript) and v.value is q:
                raise _WrongComponent(const_value(v.slice))
    if acc is None:
        raise AnalysisError("piecewise quadrature: the pieces are not collected")
    total = None
    for r in walk_function(fi.node):
        if isinstance(r, ast.Return) and r.value is not None:
            for c in ast.walk(r.value):
                if acc[0] == "list" and isinstance(c, ast.Call) and (call_name(c) or "") in ("sum", "np.sum", "math.fsum", "fsum") and \
                        len(c.args) == 1 and norm_text(c.args[0]) == acc[1]:
                    total = c
                if acc[0] == "sum" and isinstance(c, ast.Name) and c.id == acc[1]:
                    total = c
    if total is None:
        raise AnalysisError("piecewise quadrature: the sum of the pieces is not returned")
    lims, breaks = _interval_ends(subst_names(E, env))
    return lims, breaks, total


def _interval_ends(Ef):
    """E = sort / unique of [lo, clip(X, lo, hi)..., hi]  ->  ([lo, hi], break point expressions)"""
    if not (isinstance(Ef, ast.Call) and (call_name(Ef) or "") in ("np.unique", "np.sort", "sorted", "numpy.unique", "numpy.sort") and Ef.args):
        raise AnalysisError("piecewise quadrature: the interval ends are not sorted (np.unique / np.sort): %s" % norm_text(Ef)[:60])
    inner = _strip_conv(Ef.args[0])
    if isinstance(inner, ast.Call) and (call_name(inner) or "") in ("np.concatenate", "np.hstack", "numpy.concatenate") and inner.args:
        inner = inner.args[0]
    if not isinstance(inner, (ast.List, ast.Tuple)):
        raise AnalysisError("piecewise quadrature: interval ends not given as a list: %s" % norm_text(inner)[:60])
    scalars, clips = [], []
    for x in inner.elts:
        x0 = _strip_conv(x)
        if isinstance(x0, (ast.List, ast.Tuple)) and len(x0.elts) == 1:
            scalars.append(x0.elts[0])
        elif isinstance(x0, ast.Call) and (call_name(x0) or "") in ("np.clip", "numpy.clip") and len(x0.args) == 3:
            clips.append(x0)
        elif isinstance(x0, (ast.List, ast.Tuple)):
            raise AnalysisError("piecewise quadrature: unclipped break points: %s" % norm_text(x0)[:60])
        else:
            scalars.append(x0)
    if len(scalars) != 2:
        raise AnalysisError("piecewise quadrature: expected the two limits besides clipped break points, found %d" % len(scalars))
    lo, hi = scalars
    for c in clips:
        if not (norm_text(c.args[1]) == norm_text(lo) and norm_text(c.args[2]) == norm_text(hi)):
            if norm_text(c.args[1]) == norm_text(hi) and norm_text(c.args[2]) == norm_text(lo):
                lo, hi = hi, lo
            else:
                raise AnalysisError("piecewise quadrature: break points are not clipped to the two limits")
    breaks = []
    for c in clips:
        breaks += _elements(c.args[0])
    return [lo, hi], breaks


def _partition(fi, q, env):
    """`sum(quad(f, a, b, ...)[0] for a, b in zip(E[:-1], E[1:]))` with E = sort/unique of [lo, clip(X, lo, hi)..., hi]:
    the sub-intervals tile [lo, hi].  -> ([lo, hi], break point expressions, the sum expression) or None if the quad call is
    not inside a comprehension"""
    p = q
    comp = None
    while p is not None and not isinstance(p, ast.stmt):
        if isinstance(p, (ast.GeneratorExp, ast.ListComp)):
            comp = p
        p = getattr(p, "_parent", None)
    if comp is None:
        loop = _partition_loop(fi, q, env)
        if loop is not None:
            return loop
        return None
    if len(comp.generators) != 1 or comp.generators[0].ifs:
        raise AnalysisError("piecewise quadrature: comprehension form not modelled")
    g = comp.generators[0]
    elt = comp.elt
    if isinstance(elt, ast.Subscript) and elt.value is q and isinstance(const_value(elt.slice), int) and const_value(elt.slice) != 0:
        raise _WrongComponent(const_value(elt.slice))
    if not (isinstance(elt, ast.Subscript) and elt.value is q and const_value(elt.slice) == 0):
        raise AnalysisError("piecewise quadrature: the summed element is not component 0 of the quad result: %s" % norm_text(elt)[:60])
    outer = getattr(comp, "_parent", None)
    if not (isinstance(outer, ast.Call) and (call_name(outer) or "") in ("sum", "np.sum", "math.fsum", "fsum", "numpy.sum") and
            outer.args and outer.args[0] is comp and len(outer.args) == 1 and not outer.keywords):
        raise AnalysisError("piecewise quadrature: the pieces are not summed")
    if not (isinstance(g.target, ast.Tuple) and len(g.target.elts) == 2 and all(isinstance(t, ast.Name) for t in g.target.elts)):
        raise AnalysisError("piecewise quadrature: loop target not modelled")
    a_name, b_name = g.target.elts[0].id, g.target.elts[1].id
    la, lb = kwarg(q, "a", 1), kwarg(q, "b", 2)
    if not (isinstance(la, ast.Name) and isinstance(lb, ast.Name) and (la.id, lb.id) == (a_name, b_name)):
        raise AnalysisError("piecewise quadrature: the limits of a piece are not the loop variables in order")
    it = g.iter
    E = None
    if isinstance(it, ast.Call) and (call_name(it) or "") == "zip" and len(it.args) == 2:
        u, v = it.args
        if isinstance(u, ast.Subscript) and isinstance(v, ast.Subscript) and norm_text(u.value) == norm_text(v.value) and \
                norm_text(u.slice) == ":-1" and norm_text(v.slice) == "1:":
            E = u.value
    elif isinstance(it, ast.Call) and (call_name(it) or "") in ("itertools.pairwise", "pairwise") and len(it.args) == 1:
        E = it.args[0]
    if E is None:
        raise AnalysisError("piecewise quadrature: the pieces are not consecutive pairs of one array: %s" % norm_text(it)[:60])
    lims_, breaks = _interval_ends(subst_names(E, env))
    return lims_, breaks, outer


def _none_params(e):
    out = set()
    for n in ast.walk(e):
        if isinstance(n, ast.IfExp):
            for t in ast.walk(n.test):
                if isinstance(t, ast.Compare) and isinstance(t.left, ast.Name) and len(t.ops) == 1 and \
                        isinstance(t.comparators[0], ast.Constant) and t.comparators[0].value is None:
                    out.add(t.left.id)
    return out


def _syms(r: RF):
    out = set()
    for a in r.atoms():
        out |= _atom_syms(a)
    return out


def _atom_syms(a):
    if isinstance(a, str):
        return {a}
    out = set()
    if isinstance(a, tuple):
        for x in a:
            if isinstance(x, (str, tuple)):
                out |= _atom_syms(x)
            elif isinstance(x, Poly):
                for y in x.atoms():
                    out |= _atom_syms(y)
    return out


def _strip_clip(v):
    while isinstance(v, ast.Call):
        cn = call_name(v) or ""
        if cn in ("np.clip", "numpy.clip") and len(v.args) == 3 and const_value(v.args[1]) == 0 and const_value(v.args[2]) == 1:
            v = v.args[0]
        elif cn in ("min", "np.minimum", "np.fmin") and len(v.args) == 2 and 1 in (const_value(v.args[0]), const_value(v.args[1])):
            v = v.args[1] if const_value(v.args[0]) == 1 else v.args[0]
        elif cn in ("max", "np.maximum", "np.fmax") and len(v.args) == 2 and 0 in (const_value(v.args[0]), const_value(v.args[1])):
            v = v.args[1] if const_value(v.args[0]) == 0 else v.args[0]
        elif cn in ("float", "np.float64") and len(v.args) == 1:
            v = v.args[0]
        else:
            break
    return v


def _same_call(e, q, env):
    return isinstance(e, ast.Call) and norm_text(e) == norm_text(subst_names(q, env))


def _mentions_call(e, q, env):
    t = norm_text(subst_names(q, env))
    return any(isinstance(n, ast.Call) and norm_text(n) == t for n in ast.walk(e))


def _closed_form(ctx, prog, fi, rets, lm, sm, sl, ss):
    """no quadrature: accept the analytic value Phi((lm - sm)/sqrt(sl^2 + ss^2))"""
    ctx._rule = "R-C15-1"
    if not rets:
        raise AnalysisError("pf_norm_load: neither a quad call nor a return")
    for r in rets:
        env, _ = _closed(fi, r)
        val = _strip_clip(subst_names(r.value, env))
        d = _dist_call(fi.module, val)
        if not d or d[0] != "cdf":
            raise AnalysisError("pf_norm_load without quadrature: return is not norm.cdf(...): %s" % norm_text(val)[:80])
        sym = _Sym(prog, fi, {})
        try:
            z = (sym.nf(d[1]) - sym.nf(d[2])) / sym.nf(d[3])
        except NFUnsupported as e:
            raise AnalysisError("closed form outside the normal-form fragment: %s" % e)
        want = (lm - sm) / (sl * sl + ss * ss).pow(RF.const(Fraction(1, 2)))
        if z == want:
            for _ in range(4):
                ctx.holds(fi, r, "closed form Phi((lm - sm)/sqrt(sL^2 + sS^2))", rule="R-C15-1")
            for _ in range(4):
                ctx.holds(fi, r, "no integration limits: closed form", rule="R-C15-2")
            ctx.holds(fi, r, "closed form returned", rule="R-C15-3")
            ctx.holds(fi, r, "no quadrature, no tolerance: closed form", rule="R-C15-7")
            ctx.holds(fi, r, "no quadrature, no break points needed: closed form", rule="R-C15-8")
        else:
            ctx.violated(fi, r, "pf_norm_load returns Phi(z) with z = %r; the overlap of the two log-normal distributions is "
                         "z = (lm - sm)/sqrt(load_std^2 + strength_std^2) = %r" % (z, want), text="closed form")


# ------------------------------------------------------------------------------------------------ R-C15-4
def _simple(ctx):
    prog = ctx.prog
    fi = _method(prog, "pf_simple_load")
    ctx.rule("R-C15-4", floor=2, what="pf_simple_load = Phi((log10 load - log10 strength median)/strength_std)")
    params = [p for p in fi.params if p != "self"]
    if not params:
        raise AnalysisError("pf_simple_load: load parameter expected")
    rets = [r for r in walk_function(fi.node) if isinstance(r, ast.Return) and r.value is not None]
    if not rets:
        raise AnalysisError("pf_simple_load has no return")
    s_med, s_std = _strength()
    for r in rets:
        env, _ = _closed(fi, r)
        val = _strip_clip(subst_names(r.value, env))
        d = _dist_call(fi.module, val)
        if not d or d[0] != "cdf":
            if d:
                ctx.violated(fi, r, "pf_simple_load returns norm.%s, the failure probability for a given load is the strength's "
                             "distribution function at that load" % d[0], text="distribution function")
                continue
            raise AnalysisError("pf_simple_load: return is not a norm.cdf call: %s" % norm_text(val)[:80])
        sym = _Sym(prog, fi, {})
        try:
            a, loc, sc = sym.nf(d[1]), sym.nf(d[2]), sym.nf(d[3])
        except NFUnsupported as e:
            raise AnalysisError("pf_simple_load outside the normal-form fragment: %s" % e)
        want = _log10(RF.sym(params[0])) - _log10(s_med)
        if a - loc == want:
            ctx.holds(fi, r, "argument - loc == log10(load) - log10(strength_median)")
        else:
            ctx.violated(fi, r, "pf_simple_load evaluates the strength distribution at a - loc = %r, expected %r" % (a - loc, want),
                         text="argument - loc")
        if sc == s_std:
            ctx.holds(fi, r, "scale == strength_std")
        else:
            ctx.violated(fi, r, "pf_simple_load uses the scale %r instead of strength_std" % (sc,), text="scale")


# ------------------------------------------------------------------------------------------------ R-C15-5
def _module_level(module, name):
    """value of a module-level `name = <expr>` (single definition), else None"""
    defs = [st.value for st in module.tree.body if isinstance(st, ast.Assign) and len(st.targets) == 1 and
            isinstance(st.targets[0], ast.Name) and st.targets[0].id == name]
    return defs[0] if len(defs) == 1 else None


def _callee_names(module, func, env):
    """all dotted targets a call's function expression can stand for (through a local alias `t = A if c else B`)"""
    out = []

    def rec(e, depth=0):
        if isinstance(e, ast.IfExp):
            rec(e.body, depth)
            rec(e.orelse, depth)
        elif isinstance(e, ast.Name) and e.id in env and depth < 4:
            rec(env[e.id], depth + 1)
        elif isinstance(e, ast.Name) and depth < 4 and _module_level(module, e.id) is not None:
            rec(_module_level(module, e.id), depth + 1)
        elif isinstance(e, ast.Call) and (call_name(e) or "") == "getattr" and len(e.args) >= 2 and isinstance(e.args[1], ast.Constant):
            base = _full(module, e.args[0])
            out.append("%s.%s" % (base, e.args[1].value))
            if len(e.args) == 3:
                rec(e.args[2], depth)
        else:
            out.append(_full(module, e))
    rec(func)
    return out


def _arbitrary(ctx):
    prog = ctx.prog
    fi = _method(prog, "pf_arbitrary_load")
    ctx.rule("R-C15-5", floor=4, what="pf_arbitrary_load integrates load_pdf x strength cdf(load_values) over load_values")
    params = [p for p in fi.params if p != "self"]
    if len(params) < 2:
        raise AnalysisError("pf_arbitrary_load: load values / pdf parameters expected")
    p_val, p_pdf = params[0], params[1]
    rets = [r for r in walk_function(fi.node) if isinstance(r, ast.Return) and r.value is not None]
    if not rets:
        raise AnalysisError("pf_arbitrary_load has no return")
    s_med, s_std = _strength()
    for r in rets:
        env, _ = _closed(fi, r)
        val = _strip_clip(r.value if not isinstance(r.value, ast.Name) else env.get(r.value.id, r.value))
        if not isinstance(val, ast.Call):
            raise AnalysisError("pf_arbitrary_load: return is not an integration call: %s" % norm_text(val)[:80])
        names = _callee_names(fi.module, val.func, env)
        if not names or any(n not in TRAPZ for n in names):
            raise AnalysisError("pf_arbitrary_load: integration routine not recognised: %s" % names)
        ctx.holds(fi, r, "integration routine: %s" % ", ".join(sorted(set(n.rsplit('.', 1)[-1] for n in names))))
        y = kwarg(val, "y", 0)
        xs = kwarg(val, "x", 1)
        if y is None:
            raise AnalysisError("integration call without integrand")
        sym = _Sym(prog, fi, {})
        if xs is None:
            ctx.violated(fi, r, "the sampled integrand is integrated without its abscissa (x=%s): unit spacing is assumed" % p_val,
                         text="abscissa missing")
        else:
            xs_full = subst_names(xs, env)
            try:
                ok = sym.nf(xs_full) == RF.sym(p_val)
            except NFUnsupported:
                ok = norm_text(_strip_conv(xs_full)) == p_val
            if ok:
                ctx.holds(fi, r, "abscissa is %s" % p_val)
            else:
                ctx.violated(fi, r, "the abscissa of the integration is %s, not %s" % (norm_text(xs_full)[:60], p_val), text="abscissa")
        yf = subst_names(y, env)
        fac = _factors(yf)
        dist = [(f, _dist_call(fi.module, f)) for f in fac]
        cdfs = [(f, d) for f, d in dist if d]
        rest = [f for f, d in dist if not d]
        if len(cdfs) != 1 or cdfs[0][1][0] != "cdf":
            if cdfs:
                ctx.violated(fi, r, "the sampled load density is not multiplied with exactly one strength distribution function: %s"
                             % norm_text(yf)[:100], text="integrand factors")
                continue
            raise AnalysisError("pf_arbitrary_load: integrand shape not modelled: %s" % norm_text(yf)[:100])
        try:
            prod = RF.const(1)
            for f in rest:
                prod = prod * sym.nf(_strip_conv(f))
        except NFUnsupported as e:
            raise AnalysisError("pf_arbitrary_load: factor outside the fragment: %s" % e)
        if prod == RF.sym(p_pdf):
            ctx.holds(fi, r, "the other factor is %s" % p_pdf)
        else:
            ctx.violated(fi, r, "the strength distribution function is multiplied with %r instead of the sampled density %s"
                         % (prod, p_pdf), text="density factor")
        _, a, loc, sc = cdfs[0][1]
        try:
            a_n, loc_n, sc_n = sym.nf(_strip_conv(a)), sym.nf(loc), sym.nf(sc)
        except NFUnsupported as e:
            raise AnalysisError("pf_arbitrary_load: cdf arguments outside the fragment: %s" % e)
        if a_n - loc_n == RF.sym(p_val) - _log10(s_med):
            ctx.holds(fi, r, "strength cdf evaluated at %s with loc log10(strength_median)" % p_val)
        else:
            ctx.violated(fi, r, "the strength distribution function is evaluated at a - loc = %r, expected %s - log10(strength_median)"
                         % (a_n - loc_n, p_val), text="cdf argument - loc")
        if sc_n == s_std:
            ctx.holds(fi, r, "scale == strength_std")
        else:
            ctx.violated(fi, r, "the strength distribution function has scale %r instead of strength_std" % (sc_n,), text="cdf scale")


def _strip_conv(e):
    while isinstance(e, ast.Call) and (call_name(e) or "") in ("np.asarray", "np.asanyarray", "np.array", "np.atleast_1d") and len(e.args) == 1 \
            and not e.keywords:
        e = e.args[0]
    return e


# ------------------------------------------------------------------------------------------------ R-C15-6
def _state(ctx):
    prog = ctx.prog
    ci = prog.cls(CLS)
    ctx.rule("R-C15-6", floor=3, what="no method but the constructor writes the strength parameters")
    read = set()
    meths = list(prog.methods_of(ci, inherited=True).values())
    for m in meths:
        if m.name.startswith("pf_"):
            for n in ast.walk(m.node):
                if is_self_attr(n) and isinstance(n.ctx, ast.Load):
                    read.add(n.attr)
    if not read:
        raise AnalysisError("the pf_* methods read no attribute")
    for m in meths:
        if m.name == "__init__":
            continue
        bad = []
        aliases = {"self"}
        for n in walk_function(m.node, include_nested=True):
            if isinstance(n, ast.Assign) and isinstance(n.value, ast.Name) and n.value.id in aliases:
                aliases |= {t.id for t in n.targets if isinstance(t, ast.Name)}
        for n in walk_function(m.node, include_nested=True):
            tg = []
            if isinstance(n, ast.Assign):
                tg = list(n.targets)
            elif isinstance(n, (ast.AugAssign, ast.AnnAssign)):
                tg = [n.target]
            elif isinstance(n, ast.Delete):
                tg = list(n.targets)
            elif isinstance(n, (ast.For, ast.With)):
                tg = [n.target] if isinstance(n, ast.For) else [i.optional_vars for i in n.items if i.optional_vars is not None]
            flat = []
            for t in tg:
                flat += list(t.elts) if isinstance(t, (ast.Tuple, ast.List)) else [t]
            for t in flat:
                base = t
                while isinstance(base, ast.Subscript):
                    base = base.value
                if isinstance(base, ast.Attribute) and isinstance(base.value, ast.Name) and base.value.id in aliases:
                    if base.attr in read or base.attr == "__dict__":
                        bad.append((n, base.attr))
            if isinstance(n, ast.Expr) and isinstance(n.value, ast.Call) or isinstance(n, ast.Call):
                c = n.value if isinstance(n, ast.Expr) else n
                cn = call_name(c) or ""
                if cn in ("setattr", "delattr", "object.__setattr__") and c.args and isinstance(c.args[0], ast.Name) and c.args[0].id in aliases:
                    a = const_value(c.args[1]) if len(c.args) > 1 else None
                    if a is None or a in read:
                        bad.append((c, a or "?"))
                if isinstance(c.func, ast.Attribute) and c.func.attr == "update" and isinstance(c.func.value, ast.Attribute) and \
                        c.func.value.attr == "__dict__":
                    bad.append((c, "__dict__"))
        seen = set()
        for n, a in bad:
            k = (norm_text(n), a)
            if k in seen:
                continue
            seen.add(k)
            ctx.violated(m, n, "%s rewrites self.%s, which the pf_* methods read: a later call on the same object no longer sees "
                         "the strength it was constructed with" % (m.name, a), text="writes self.%s" % a)
        if not bad:
            ctx.holds(m, m.node, "%s leaves %s untouched" % (m.name, ", ".join("self." + a for a in sorted(read))))


# ------------------------------------------------------------------------------------------------ variants
def variants():
    out = []
    NL = "FailureProbability.pf_norm_load"

    def _q(tree):
        f = find_func(tree, NL)
        for n in ast.walk(f):
            if isinstance(n, ast.Call) and (call_name(n) or "").endswith("quad"):
                return f, n
        return f, None

    def _offset_sub(f):
        for n in ast.walk(f):
            if isinstance(n, ast.BinOp) and isinstance(n.op, ast.Sub) and is_self_attr(n.left):
                return n
        return None

    def sign_offset(tree):
        f, q = _q(tree)
        n = _offset_sub(f)
        if n is None:
            return False
        n.op = ast.Add()
        return True
    out.append(witness("strength located at s_50 + lm in the shifted coordinate", PATH, sign_offset, "R-C15-1"))

    def no_offset(tree):
        f, q = _q(tree)
        n = _offset_sub(f)
        if n is None:
            return False
        n.right = ast.Constant(0.0)
        return True
    out.append(witness("strength cdf not shifted with the load median", PATH, no_offset, "R-C15-1"))

    def swap_scales(tree):
        f, q = _q(tree)
        kws = [n for n in ast.walk(f) if isinstance(n, ast.keyword) and n.arg == "scale"]
        if len(kws) != 2:
            return False
        kws[0].value, kws[1].value = kws[1].value, kws[0].value
        return True
    out.append(witness("scales of load and strength exchanged", PATH, swap_scales, "R-C15-1"))

    def natural_log(tree):
        f, q = _q(tree)
        for n in ast.walk(f):
            if isinstance(n, ast.Call) and call_name(n) == "np.log10":
                n.func.attr = "log"
                return True
        return False
    out.append(witness("load median in natural logarithm, strength in log10", PATH, natural_log, "R-C15-1"))

    def _integrand_value(f):
        for n in ast.walk(f):
            if isinstance(n, ast.Lambda):
                return n, "body"
            if isinstance(n, ast.FunctionDef) and n is not f:
                r = [x for x in n.body if isinstance(x, ast.Return)]
                if r:
                    return r[-1], "value"
        return None, None

    def extra_factor(tree):
        f, q = _q(tree)
        n, field = _integrand_value(f)
        if n is None:
            return False
        setattr(n, field, ast.BinOp(left=getattr(n, field), op=ast.Mult(), right=parse_expr("0.5")))
        return True
    out.append(witness("integrand halved", PATH, extra_factor, "R-C15-1"))

    def pdf_pdf(tree):
        f, q = _q(tree)
        for n in ast.walk(f):
            if isinstance(n, ast.Attribute) and n.attr == "cdf":
                n.attr = "pdf"
                return True
        return False
    out.append(witness("strength density instead of distribution function", PATH, pdf_pdf, "R-C15-1"))

    def lim_plus(tree):
        f, q = _q(tree)
        for n in ast.walk(f):
            if isinstance(n, ast.AugAssign) and isinstance(n.op, ast.Sub):
                n.op = ast.Add()
                return True
        return False
    out.append(witness("given lower limit shifted the wrong way", PATH, lim_plus, "R-C15-2"))

    def lim_unshifted(tree):
        f, q = _q(tree)
        for n in ast.walk(f):
            if isinstance(n, ast.If) and n.orelse and isinstance(n.orelse[0], ast.AugAssign):
                n.orelse = [ast.Pass()]
                return True
        return False
    out.append(witness("given lower limit not shifted", PATH, lim_unshifted, "R-C15-2"))

    def narrow(tree):
        f, q = _q(tree)
        for n in ast.walk(f):
            if isinstance(n, ast.Constant) and n.value == 16.0:
                n.value = 4.0
                return True
        return False
    out.append(witness("default lower limit at 4 sigma", PATH, narrow, "R-C15-2"))

    def wrong_side(tree):
        f, q = _q(tree)
        for n in ast.walk(f):
            if isinstance(n, ast.Assign) and isinstance(n.value, ast.BinOp) and isinstance(n.value.left, ast.UnaryOp) and \
                    isinstance(n.value.left.op, ast.UAdd):
                n.value.left.op = ast.USub()
                return True
        return False
    out.append(witness("default upper limit below the centre", PATH, wrong_side, "R-C15-2"))

    def by_strength(tree):
        f, q = _q(tree)
        for n in ast.walk(f):
            if isinstance(n, ast.Assign) and isinstance(n.value, ast.BinOp) and isinstance(n.value.right, ast.Name) and \
                    isinstance(n.value.op, ast.Mult) and isinstance(n.targets[0], ast.Name) and "limit" in n.targets[0].id:
                n.value.right = parse_expr("self.s_std")
                return True
        return False
    out.append(witness("default limit scaled with the strength scatter", PATH, by_strength, "R-C15-2"))

    def err(tree):
        f, q = _q(tree)
        for n in ast.walk(f):
            if isinstance(n, ast.Subscript) and n.value is q:
                n.slice = ast.Constant(1)
                return True
        st = _stmt_of_plain(f, q)
        if isinstance(st, ast.Assign) and isinstance(st.targets[0], ast.Tuple):
            st.targets[0].elts.reverse()
            return True
        return False
    out.append(witness("error estimate returned", PATH, err, "R-C15-3"))

    def complement(tree):
        f, q = _q(tree)
        r = f.body[-1]
        if not isinstance(r, ast.Return):
            return False
        r.value = ast.BinOp(left=ast.Constant(1.0), op=ast.Sub(), right=r.value)
        return True
    out.append(witness("complement returned", PATH, complement, "R-C15-3"))

    def no_epsabs(tree):
        f, q = _q(tree)
        if not any(k.arg == "epsabs" for k in q.keywords):
            return False
        q.keywords = [k for k in q.keywords if k.arg != "epsabs"]
        return True
    out.append(witness("default absolute tolerance of quad", PATH, no_epsabs, "R-C15-7"))

    def coarse_epsabs(tree):
        f, q = _q(tree)
        for k in q.keywords:
            if k.arg == "epsabs":
                k.value = ast.Constant(1e-10)
                return True
        return False
    out.append(witness("absolute tolerance 1e-10", PATH, coarse_epsabs, "R-C15-7"))

    def centre_only(tree):
        f, q = _q(tree)
        for n in ast.walk(f):
            if isinstance(n, ast.Call) and call_name(n) == "np.array" and n.args and isinstance(n.args[0], ast.List) and len(n.args[0].elts) == 3:
                n.args[0].elts = [ast.Constant(0.0)]
                return True
        return False
    out.append(witness("range split at the centre of the strength cdf only", PATH, centre_only, "R-C15-8"))

    def load_layer(tree):
        f, q = _q(tree)
        for n in ast.walk(f):
            if isinstance(n, ast.BinOp) and isinstance(n.op, ast.Mult) and isinstance(n.left, ast.Call) and call_name(n.left) == "np.array" \
                    and is_self_attr(n.right):
                n.right = ast.Name(id=f.args.args[2].arg, ctx=ast.Load())
                return True
        return False
    out.append(witness("break points scaled with the load scatter", PATH, load_layer, "R-C15-8"))

    def simple_ln(tree):
        f = find_func(tree, "FailureProbability.pf_simple_load")
        for n in ast.walk(f):
            if isinstance(n, ast.Call) and call_name(n) == "np.log10":
                n.func.attr = "log"
                return True
        return False
    out.append(witness("pf_simple_load in natural logarithm", PATH, simple_ln, "R-C15-4"))

    def simple_noscale(tree):
        f = find_func(tree, "FailureProbability.pf_simple_load")
        for n in ast.walk(f):
            if isinstance(n, ast.Call) and n.keywords:
                n.keywords = [k for k in n.keywords if k.arg != "scale"]
                return True
        return False
    out.append(witness("pf_simple_load with unit scale", PATH, simple_noscale, "R-C15-4"))

    def arb_nox(tree):
        f = find_func(tree, "FailureProbability.pf_arbitrary_load")
        r = f.body[-1]
        if isinstance(r, ast.Return) and isinstance(r.value, ast.Call):
            r.value.keywords = [k for k in r.value.keywords if k.arg != "x"]
            return True
        return False
    out.append(witness("trapezoid without abscissa", PATH, arb_nox, "R-C15-5"))

    def arb_at_pdf(tree):
        f = find_func(tree, "FailureProbability.pf_arbitrary_load")
        for n in ast.walk(f):
            if isinstance(n, ast.Call) and (call_name(n) or "").endswith("norm.cdf"):
                n.args[0] = ast.Name(id=f.args.args[2].arg, ctx=ast.Load())
                return True
        return False
    out.append(witness("strength cdf evaluated at the density values", PATH, arb_at_pdf, "R-C15-5"))

    def arb_log(tree):
        f = find_func(tree, "FailureProbability.pf_arbitrary_load")
        for n in ast.walk(f):
            if isinstance(n, ast.Call) and (call_name(n) or "").endswith("norm.cdf"):
                n.args[0] = ast.Call(func=parse_expr("np.log10"), args=[n.args[0]], keywords=[])
                return True
        return False
    out.append(witness("strength cdf at log10 of the (already logarithmic) load values", PATH, arb_log, "R-C15-5"))

    def leak(tree):
        f = find_func(tree, NL)
        f.body.insert(1, parse_stmt("self.s_50 = self.s_50 - np.log10(load_median)"))
        return True
    out.append(witness("pf_norm_load stores the shifted strength median on the object", PATH, leak, "R-C15-6"))

    # ---- twins
    def _body(src):
        return ast.parse(src).body[0].body

    def unshifted(tree):
        f = find_func(tree, NL)
        f.body = _body("""
def pf_norm_load(self, load_median, load_std, lower_limit=None, upper_limit=None):
    lm = np.log10(load_median)
    if lower_limit is None:
        lower_limit = lm - 16.0 * load_std
    if upper_limit is None:
        upper_limit = lm + 16.0 * load_std
    res = integrate.quad(lambda y: norm.cdf(y, loc=self.s_50, scale=self.s_std) * norm.pdf(y, loc=lm, scale=load_std), lower_limit, upper_limit,
                         epsabs=1e-15, points=[self.s_50 - 6 * self.s_std, self.s_50 + 6 * self.s_std])
    return res[0]
""")
        return True
    out.append(twin("one quad call in the unshifted coordinate with points=, factors exchanged, result by subscript", PATH, unshifted))

    def as_lambda(tree):
        f, q = _q(tree)
        inner = [n for n in f.body if isinstance(n, ast.FunctionDef)]
        if len(inner) != 1 or not isinstance(q.args[0], ast.Name):
            return False
        d = inner[0]
        r = [x for x in d.body if isinstance(x, ast.Return)]
        if len(d.body) != 1 or not r:
            return False
        lam = ast.Lambda(args=d.args, body=r[0].value)
        f.body[f.body.index(d)] = ast.Assign(targets=[ast.Name(id="dens_times_cdf", ctx=ast.Store())], value=lam)
        q.args[0] = ast.Name(id="dens_times_cdf", ctx=ast.Load())
        return True
    out.append(twin("integrand as a lambda bound to a local name", PATH, as_lambda))

    def wider(tree):
        f, q = _q(tree)
        hit = False
        for n in ast.walk(f):
            if isinstance(n, ast.Constant) and n.value == 16.0:
                n.value = 12.0
                hit = True
        return hit
    out.append(twin("default limits at 12 sigma", PATH, wider))

    def layer6(tree):
        f, q = _q(tree)
        hit = False
        for n in ast.walk(f):
            if isinstance(n, ast.Constant) and n.value == 8.0:
                n.value = 6.0
                hit = True
            elif isinstance(n, ast.UnaryOp) and isinstance(n.operand, ast.Constant) and n.operand.value == 8.0:
                n.operand.value = 6.0
                hit = True
        return hit
    out.append(twin("break points at 6 strength scatters", PATH, layer6))

    def clip(tree):
        f, q = _q(tree)
        r = f.body[-1]
        if not isinstance(r, ast.Return):
            return False
        r.value = ast.Call(func=parse_expr("np.clip"), args=[r.value, ast.Constant(0.0), ast.Constant(1.0)], keywords=[])
        return True
    out.append(twin("result clipped to [0, 1]", PATH, clip))

    def closed(tree):
        f = find_func(tree, NL)
        f.body = _body("def f():\n    lm = np.log10(load_median)\n    return norm.cdf((lm - self.s_50) / np.sqrt(load_std ** 2 + self.s_std ** 2))")
        return True
    out.append(twin("quadrature replaced by the closed form", PATH, closed))

    def closed_wrong(tree):
        f = find_func(tree, NL)
        f.body = _body("def f():\n    lm = np.log10(load_median)\n    return norm.cdf((lm - self.s_50) / (load_std + self.s_std))")
        return True
    out.append(witness("closed form with added standard deviations", PATH, closed_wrong, "R-C15-1"))

    def frozen(tree):
        f = find_func(tree, NL)
        f.body = _body("def f():\n    lm = np.log10(load_median)\n    lo = lm - 20 * load_std if lower_limit is None else lower_limit\n    hi = lm + 20 * load_std if upper_limit is None else upper_limit\n    L = norm(loc=lm, scale=load_std)\n    S = norm(self.s_50, self.s_std)\n    ends = np.unique(np.concatenate([[lo], np.clip(self.s_50 + np.array([-5.0, 5.0]) * self.s_std, lo, hi), [hi]]))\n    q = sum(integrate.quad(lambda x: L.pdf(x) * S.cdf(x), a, b, epsabs=0)[0] for a, b in zip(ends[:-1], ends[1:]))\n    return q")
        return True
    out.append(twin("frozen distributions, unshifted coordinate, two break points, epsabs=0", PATH, frozen))
    return out


def _stmt_of_plain(f, node):
    for st in ast.walk(f):
        if isinstance(st, ast.stmt) and not isinstance(st, (ast.FunctionDef, ast.If, ast.For, ast.While, ast.With, ast.Try)):
            if any(x is node for x in ast.walk(st)):
                return st
    return None
