"""C19 — mesh operators (structural clauses).

R-C19-1 node/element labels are never used as positions (kind analysis);
R-C19-2 shape-function derivatives <-> hand-expanded Jacobian (partial
evaluation + normal form) which implies exactness on linear fields;
R-C19-3 hot-spot threshold and numbering shape.
"""
from __future__ import annotations

import ast
from fractions import Fraction

from ..astutil import (assigned_targets, call_name, calls_in, const_value, find_func, is_self_attr, names_in, parse_expr,
                       parse_stmt, replace_node, tuple_assign_pairs)
from ..astutil import inline_single_defs
from ..frontend import AnalysisError, Program, Module, set_parents, walk_function, walk_stmts
from ..nf import RF, NFUnsupported, to_nf, _subst_atom
from ..peval import Closure, call_closure, exec_block, module_env
from ..report import norm_text
from ..witness import witness, twin

LEVEL = "other"
EXPLANATION = (
    "Static decision of three structural clauses of C19. R-C19-1 (kind analysis over all modules of pylife.mesh): values "
    "that originate from the node_id/element_id index levels (get_level_values, group keys and group indices of those "
    "levels, sets and arithmetic built from them, containers filled with them) have kind LABEL; a LABEL may be compared, "
    "used with .loc/.isin/get_indexer and as dict key, but may not subscript a numpy array or .iloc - otherwise the result "
    "depends on the node numbering. R-C19-2: the nested ansatz-derivative helpers of Gradient3D are partially evaluated "
    "from their syntax trees at every node/direction, giving dphi_a/dxi_j as polynomials; obligations discharged by "
    "normal-form equality: each hand-expanded Jacobian entry J_ij == sum_a x_a,i * dphi_a/dxi_j (hexahedral: 9 trilinear "
    "polynomials in 24 coordinates, tetrahedral: 9), sum_a dphi_a/dxi_j == 0, reference node list consistent with the "
    "ansatz membership lists and identical in both places, contraction with Jinv[j,k]. Together these imply that the "
    "element gradient is exact for every linear field on every non-degenerate element, for any numbering. R-C19-3: "
    "hot-spot threshold is a non-strict comparison with fraction*max, each round is seeded at the arg-max of the remaining "
    "entries, labels increase by one per round and assigned entries are removed. Not decided: connectivity semantics, "
    "interpolation, solid angles.")
EXPLANATION += (' R-C19-4: an attribute that several methods set to different values (the ansatz derivative of the element type) is per-type state: every method that calls a reader of it calls the matching writer on every path before (CFG dominance).')
EXPLANATION += (' R-C19-5: Meshmapper.process addresses source and target points with the same complete coordinate key list of the mesh; a list cut by the data-dependent `dimensions` property is a violation.')
EXPLANATION += (" R-C19-8: the frame whose columns the Gradient3D workers address by position is the projection self._obj[['x','y','z',value]] by name.")
EXPLANATION += (" R-C19-6: the gradient module contains no comparison against an absolute numeric tolerance (float literal in a comparison, isclose/allclose): the operators are homogeneous in the length unit. R-C19-7: no frame whose index level order was fixed by the code (reorder_levels with literal names / swaplevel, followed through locals and helper methods) is re-indexed with the caller's index, because pandas aligns MultiIndex tuples by position.")
EXPLANATION += (" R-C19-9 (shared state-family rules, sa/statefam.py): no mesh accessor memoises a value computed from a call's argument under a test that inspects only a part of that argument (index, shape, length, identity), changes a mutable class attribute through an instance, or hands out a memoised object.")
ASSUMPTIONS = [
    "pandas .loc/.isin/get_indexer are label based, numpy subscripts and .iloc are positional",
    "np.linalg.inv returns the inverse (non-degenerate element)",
]

LEVELS = ("node_id", "element_id")
LABEL_FUNCS = ("np.unique", "np.setdiff1d", "np.union1d", "np.intersect1d", "np.asarray", "np.array", "set", "list",
               "sorted", "np.sort", "np.concatenate", "np.append", "tuple", "np.int64", "int")
LABEL_METHODS = ("to_numpy", "unique", "astype", "drop_duplicates", "copy", "tolist", "to_list", "sort_values",
                 "flatten", "append", "union", "difference", "intersection")
POS_METHODS = ("get_indexer", "get_loc", "get_indexer_for", "searchsorted", "argsort", "argmax", "argmin", "nonzero")
ARRAY_FUNCS = ("np.zeros", "np.empty", "np.ones", "np.full", "np.zeros_like", "np.empty_like", "np.array",
               "np.asarray", "np.linspace")


class Kinds:
    def __init__(self, prog, modules):
        self.prog = prog
        self.modules = modules
        self.attr = {}       # (class key, attr) -> kind
        self.findings = []   # (fi, stmt, subscript node, base text, index text)
        self.flows = 0

    def kind(self, e, env, ci):
        if isinstance(e, ast.Name):
            return env.get(e.id)
        if is_self_attr(e):
            return self.attr.get((ci.key if ci else None, e.attr))
        if isinstance(e, ast.Constant):
            return None
        if isinstance(e, ast.Attribute):
            b = self.kind(e.value, env, ci)
            if e.attr in ("values", "array", "T"):
                if b == "LABEL":
                    return "LABEL"
                return "ARRAY" if e.attr in ("values", "array") else b
            if e.attr == "index" and isinstance(b, tuple) and b[0] == "GROUPED":
                return "LABEL"
            if e.attr in ("iloc", "iat"):
                return "ILOC"
            return None
        if isinstance(e, ast.BinOp):
            l, r = self.kind(e.left, env, ci), self.kind(e.right, env, ci)
            if "LABEL" in (l, r):
                return "LABEL"
            if "POS" in (l, r):
                return "POS"
            return None
        if isinstance(e, ast.Subscript):
            b = self.kind(e.value, env, ci)
            if isinstance(b, tuple) and b[0] == "DICTOF":
                return b[1]
            if b == "LABEL":
                return "LABEL"
            if b == "POS":
                return "POS"
            return None
        if isinstance(e, ast.Call):
            fn = call_name(e) or ""
            f = e.func
            if isinstance(f, ast.Attribute):
                if f.attr == "get_level_values" and e.args and const_value(e.args[0]) in LEVELS:
                    self.flows += 1
                    return "LABEL"
                if f.attr == "groupby":
                    by = e.args[0] if e.args else next((k.value for k in e.keywords if k.arg in ("by", "level")), None)
                    if by is not None and const_value(by) in LEVELS:
                        return ("GROUPBY", const_value(by))
                    return None
                recv = self.kind(f.value, env, ci)
                if isinstance(recv, tuple) and recv[0] == "GROUPBY" and f.attr in ("first", "last", "mean", "sum", "max",
                                                                                    "min", "size", "count", "median"):
                    return ("GROUPED", recv[1])
                if isinstance(recv, tuple) and recv[0] == "GROUPBY" and f.attr == "__getitem__":
                    return recv
                if f.attr in POS_METHODS:
                    return "POS"
                if recv == "LABEL" and f.attr in LABEL_METHODS:
                    return "LABEL"
                if f.attr in ("to_numpy",):
                    return "ARRAY"
                if f.attr in ("items", "keys", "values") and isinstance(recv, tuple) and recv[0] == "DICTOF":
                    return ("ITER_" + f.attr, recv[1])
            if fn in LABEL_FUNCS and e.args and self.kind(e.args[0], env, ci) == "LABEL":
                return "LABEL"
            if fn in ("np.arange", "range", "np.where", "np.argsort", "np.flatnonzero", "np.argwhere", "enumerate",
                      "np.searchsorted", "len"):
                return "POS"
            if fn in ARRAY_FUNCS:
                return "ARRAY"
            if fn == "zip":
                return ("ZIP", tuple(self.kind(a, env, ci) for a in e.args))
            return None
        if isinstance(e, ast.Subscript):
            return None
        if isinstance(e, (ast.List, ast.Tuple, ast.Set)):
            ks = {self.kind(x, env, ci) for x in e.elts}
            if "LABEL" in ks:
                return "LABEL"
            return None
        if isinstance(e, (ast.ListComp, ast.SetComp, ast.GeneratorExp)):
            env2 = dict(env)
            for g in e.generators:
                self.bind_iter(g.target, g.iter, env2, ci)
            return "LABEL" if self.kind(e.elt, env2, ci) == "LABEL" else None
        if isinstance(e, ast.Dict):
            return ("DICTOF", None)
        return None

    def bind_iter(self, target, it, env, ci):
        k = self.kind(it, env, ci)
        if isinstance(k, tuple) and k[0] == "GROUPBY":
            if isinstance(target, ast.Tuple) and len(target.elts) == 2 and isinstance(target.elts[0], ast.Name):
                env[target.elts[0].id] = "LABEL"
                self.flows += 1
            return
        if isinstance(k, tuple) and k[0] == "ZIP" and isinstance(target, ast.Tuple):
            for t, kk in zip(target.elts, k[1]):
                if isinstance(t, ast.Name):
                    if kk in ("LABEL",) or (isinstance(kk, tuple) and kk[0] == "GROUPED"):
                        env[t.id] = "LABEL"
                    elif kk == "POS":
                        env[t.id] = "POS"
            return
        if isinstance(k, tuple) and k[0].startswith("ITER_") and k[1] == "LABEL":
            if k[0] == "ITER_items" and isinstance(target, ast.Tuple) and len(target.elts) == 2:
                if isinstance(target.elts[1], ast.Name):
                    env[target.elts[1].id] = "LABEL"
            elif isinstance(target, ast.Name) and k[0] == "ITER_values":
                env[target.id] = "LABEL"
            return
        if isinstance(it, ast.Call) and call_name(it) == "enumerate" and isinstance(target, ast.Tuple) and \
                len(target.elts) == 2:
            if isinstance(target.elts[0], ast.Name):
                env[target.elts[0].id] = "POS"
            if it.args and self.kind(it.args[0], env, ci) == "LABEL" and isinstance(target.elts[1], ast.Name):
                env[target.elts[1].id] = "LABEL"
            return
        if k in ("LABEL", "POS") and isinstance(target, ast.Name):
            env[target.id] = k

    def scan_function(self, fi, report):
        ci = fi.cls or (fi.parent.cls if fi.parent else None)
        env = {}
        for _ in range(2):
            for s in walk_stmts(fi.node.body):
                if isinstance(s, ast.Assign):
                    for t, v in tuple_assign_pairs(s):
                        k = self.kind(v, env, ci)
                        if isinstance(k, tuple) and k[0] == "GROUPED":
                            k2 = k
                        if isinstance(t, ast.Name):
                            if k is not None:
                                env[t.id] = k
                            else:
                                env.pop(t.id, None)
                        elif is_self_attr(t) and k is not None:
                            self.attr[(ci.key if ci else None, t.attr)] = k
                        elif isinstance(t, ast.Subscript) and is_self_attr(t.value) and k == "LABEL":
                            cur = self.attr.get((ci.key if ci else None, t.value.attr))
                            if isinstance(cur, tuple) and cur[0] == "DICTOF":
                                self.attr[(ci.key if ci else None, t.value.attr)] = ("DICTOF", "LABEL")
                                self.flows += 1
                        elif isinstance(t, ast.Subscript) and isinstance(t.value, ast.Name) and k == "LABEL":
                            cur = env.get(t.value.id)
                            if isinstance(cur, tuple) and cur[0] == "DICTOF":
                                env[t.value.id] = ("DICTOF", "LABEL")
                elif isinstance(s, (ast.For, ast.AsyncFor)):
                    self.bind_iter(s.target, s.iter, env, ci)
        if not report:
            return
        for s in walk_stmts(fi.node.body):
            nodes = [s] if not isinstance(s, (ast.If, ast.For, ast.While, ast.With, ast.Try)) else \
                ([s.test] if isinstance(s, (ast.If, ast.While)) else ([s.iter] if isinstance(s, ast.For) else []))
            for root in nodes:
                for n in ast.walk(root):
                    if not isinstance(n, ast.Subscript):
                        continue
                    bk = self.kind(n.value, env, ci)
                    if bk not in ("ARRAY", "ILOC"):
                        continue
                    idx = n.slice.elts if isinstance(n.slice, ast.Tuple) else [n.slice]
                    for i in idx:
                        if self.kind(i, env, ci) == "LABEL":
                            self.findings.append((fi, s, n, norm_text(n.value), norm_text(i)))

    def run(self):
        funcs = [fi for fi in self.prog.functions.values() if fi.module.name in self.modules]
        for _ in range(2):
            for fi in funcs:
                self.scan_function(fi, report=False)
        for fi in funcs:
            self.scan_function(fi, report=True)
        return len(funcs)


def run(ctx):
    ctx.attempt(_r1_labels)
    ctx.attempt(_r2_jacobian)
    ctx.attempt(_r3_hotspot)
    ctx.attempt(_r4_shape_state)
    ctx.attempt(_r5_mapping_coords)
    ctx.attempt(_r6_scale)
    ctx.attempt(_r7_level_order)
    ctx.attempt(_r8_column_layout)
    ctx.attempt(_r9_state)


def _r9_state(ctx):
    """R-C19-9 (state families, sa/statefam.py): the mesh accessors keep nothing computed from one call's argument for the next call
    under a test that looks at a part of that argument only (a triangulation of the source mesh re-used because the INDEX of the
    next source equals the cached one, while its coordinates differ), share no class-level mutable state and hand out no memoised
    object."""
    from .. import statefam
    prog = ctx.prog
    classes = [ci for k, ci in sorted(prog.classes.items()) if ci.module.name.startswith('pylife.mesh.')]
    statefam.apply(ctx, 'R-C19-9', 'no partially keyed memo / shared class-level state in the mesh accessors', classes=classes, floor=4)


MESH_MODS = ("pylife.mesh.gradient", "pylife.mesh.surface", "pylife.mesh.hotspot", "pylife.mesh.meshsignal")


def _absolute_tolerances(fn_node):
    """Comparisons / closeness tests with an absolute numeric tolerance: a float literal (non-integral or written with an
    exponent) on one side of a comparison, or np.isclose / np.allclose / math.isclose anywhere."""
    out, seen = [], 0

    def is_tol(e):
        for n in ast.walk(e):
            if isinstance(n, ast.Constant) and isinstance(n.value, float) and n.value != 0.0 and \
                    (n.value != int(n.value) or abs(n.value) >= 1e6):
                return True
        return False
    for n in ast.walk(fn_node):
        if isinstance(n, ast.Compare):
            seen += 1
            sides = [n.left] + list(n.comparators)
            if any(isinstance(o, (ast.In, ast.NotIn, ast.Is, ast.IsNot)) for o in n.ops):
                continue
            if any(is_tol(x) for x in sides):
                out.append(n)
        elif isinstance(n, ast.Call) and (call_name(n) or "") in ("np.isclose", "np.allclose", "math.isclose"):
            seen += 1
            out.append(n)
    return seen, out


def _r6_scale(ctx):
    """The gradient operators are homogeneous in the length unit (coordinates scaled by c scale the gradient by 1/c).  Any test of
    a coordinate-derived quantity against a fixed numeric tolerance (|det J| < 1e-10, isclose) breaks that: elements small in
    absolute terms are then treated as degenerate.  The gradient module therefore contains only index / count comparisons."""
    prog = ctx.prog
    ctx.rule("R-C19-6", floor=3, what="gradient operators contain no comparison against an absolute numeric tolerance")
    ex = ast.parse("def f(J):\n    if abs(np.linalg.det(J)) < 1e-10:\n        return None\n    if len(J) == 3:\n        return 1\n").body[0]
    sn, bad = _absolute_tolerances(ex)
    if sn != 2 or len(bad) != 1:
        raise AnalysisError("R-C19-6 built-in example not matched")
    total = 0
    for key, fi in sorted(prog.functions.items()):
        if fi.module.name != "pylife.mesh.gradient" or fi.parent is not None:
            continue
        sn, bad = _absolute_tolerances(fi.node)
        total += sn
        for b in bad:
            st = b
            while not isinstance(st, ast.stmt):
                st = st._parent
            ctx.violated(fi, st, "%s: %s tests a quantity computed from the node coordinates against a fixed number: the result "
                         "depends on the length unit of the mesh (elements that are small in absolute terms are treated as "
                         "degenerate), the gradient of a linear field is no longer its constant gradient" % (fi.name, norm_text(b)),
                         text="absolute tolerance " + norm_text(b))
        if sn and not bad:
            ctx.holds(fi, fi.node, "%s: %d comparison(s), all on indices / counts" % (fi.name, sn))
    if total < 10:
        raise AnalysisError("only %d comparisons found in the gradient module" % total)
    # ... and no fixed additive constant on a coordinate-derived matrix (a ridge 1e-10 * I on normal equations whose entries
    # scale with the squared edge length biases the gradient by 1e-10 / h^2), no closeness test, no rounding
    from .. import tolerance
    if not tolerance.selfcheck():
        raise AnalysisError("absolute-tolerance helper: built-in example not matched")
    for key, fi in sorted(prog.functions.items()):
        if fi.module.name != "pylife.mesh.gradient" or fi.parent is not None:
            continue
        for node, kind, text in tolerance.absolute_tolerances(fi.node):
            if kind == "threshold":
                continue                      # (decided above)
            ctx.violated(fi, node, "%s: %s applies an absolute %s to a quantity computed from the node coordinates: the gradient "
                         "then depends on the length unit of the mesh (bias of the order constant / h^2)" %
                         (fi.name, text[:80], {"offset": "additive constant", "close": "closeness test", "round": "rounding"}[kind]),
                         text="absolute tolerance " + text[:60])


def _fixed_order(prog, fi, e, depth=0):
    """Does the frame expression carry a level order fixed by the code (swaplevel / reorder_levels with literal names), as
    opposed to the caller's?  Follows locals and self.method() results."""
    n = e
    while True:
        if isinstance(n, ast.Call) and isinstance(n.func, ast.Attribute):
            if n.func.attr == "swaplevel":
                return True
            if n.func.attr == "reorder_levels" and n.args and isinstance(n.args[0], (ast.List, ast.Tuple)) and \
                    all(isinstance(x, ast.Constant) for x in n.args[0].elts):
                return True
            if is_self_attr(n.func) and depth < 2:
                callee = prog.lookup_method(fi.cls, n.func.attr) if fi.cls is not None else None
                if callee is not None:
                    return any(_fixed_order(prog, callee, r.value, depth + 1) for r in walk_function(callee.node)
                               if isinstance(r, ast.Return) and r.value is not None)
                return False
            n = n.func.value
        elif isinstance(n, (ast.Subscript, ast.Attribute)):
            n = n.value
        elif isinstance(n, ast.Name):
            defs = [s_ for s_ in walk_function(fi.node) if isinstance(s_, ast.Assign) and
                    any(isinstance(t, ast.Name) and t.id == n.id for t in s_.targets)]
            if depth >= 4 or not defs:
                return False
            return any(_fixed_order(prog, fi, d.value, depth + 1) for d in defs)
        else:
            return False


def _caller_index_alignments(prog, fi):
    """X.reindex(self._obj.index) / X.loc[self._obj.index] / X.reindex_like(self._obj) where X has a code-fixed level order"""
    out = []
    for n in ast.walk(fi.node):
        recv = tgt = None
        if isinstance(n, ast.Call) and isinstance(n.func, ast.Attribute) and n.func.attr in ("reindex", "reindex_like") and n.args:
            recv, tgt = n.func.value, n.args[0]
        elif isinstance(n, ast.Subscript) and isinstance(n.value, ast.Attribute) and n.value.attr == "loc":
            recv, tgt = n.value.value, n.slice
        if recv is None:
            continue
        t = norm_text(tgt)
        if t not in ("self._obj.index", "self._obj"):
            continue
        if isinstance(recv, ast.Call) and isinstance(recv.func, ast.Attribute) and recv.func.attr == "reorder_levels" and recv.args \
                and norm_text(recv.args[0]) in ("self._obj.index.names", "list(self._obj.index.names)"):
            continue
        if _fixed_order(prog, fi, recv):
            out.append(n)
    return out


def _r7_level_order(ctx):
    """Results are handed back under the caller's index.  pandas aligns MultiIndex tuples by position, not by level name, so
    re-indexing a frame whose level order was fixed by the code (reorder_levels / swaplevel) with the caller's index is right for
    one level order of the caller's mesh only."""
    prog = ctx.prog
    ctx.rule("R-C19-7", floor=1, what="no frame with a code-fixed level order is re-indexed with the caller's index")
    src = ("class S:\n    def _h(self):\n        return self._obj.reorder_levels(['element_id', 'node_id'])\n"
           "    def f(self):\n        r = self._h()\n        return r['a'].swaplevel().reindex(self._obj.index)\n"
           "    def g(self):\n        r = self._h()\n        return r['a'].reorder_levels(self._obj.index.names).reindex(self._obj.index)\n")
    from .c18 import _mini_program
    p2 = _mini_program(src)
    if len(_caller_index_alignments(p2, p2.functions["ex:S.f"])) != 1 or _caller_index_alignments(p2, p2.functions["ex:S.g"]):
        raise AnalysisError("R-C19-7 built-in example not matched")
    n = 0
    for key, fi in sorted(prog.functions.items()):
        if fi.module.name not in MESH_MODS or fi.parent is not None or fi.cls is None:
            continue
        n += 1
        for b in _caller_index_alignments(prog, fi):
            st = b
            while not isinstance(st, ast.stmt):
                st = st._parent
            ctx.violated(fi, st, "%s: %s re-indexes a frame whose level order was fixed by the code with the caller's index; pandas "
                         "matches the index tuples by position, so for a mesh indexed in the other level order the values are NaN "
                         "or belong to other nodes" % (fi.name, norm_text(b)[:90]), text="caller index alignment " + fi.name)
    if n < 10:
        raise AnalysisError("only %d mesh accessor methods found" % n)
    ctx.holds("pylife.mesh", None, "%d mesh accessor methods: none re-indexes a fixed-level-order frame with the caller's index" % n)


def _r5_mapping_coords(ctx):
    """Mesh mapping interpolates in the coordinate space of the meshes: source points and target points are addressed with the
    same, complete list of coordinate keys of the mesh (self._coord_keys).  Selecting the keys through the data-dependent
    `dimensions` property (2 whenever all z of ONE frame coincide) projects a 3-D source onto a plane as soon as the target is a
    planar cut or a single point."""
    prog = ctx.prog
    ctx.rule("R-C19-5", floor=2, what="mapping addresses source and target with the same complete coordinate key list")
    f = prog.func("pylife.mesh.meshmapping:Meshmapper.process")
    gd = [c for c in calls_in(f.node) if (call_name(c) or "").endswith("griddata")]
    if len(gd) != 1 or len(gd[0].args) < 3:
        raise AnalysisError("Meshmapper.process: griddata call not found")
    src, tgt = inline_single_defs(f.node, gd[0].args[0]), inline_single_defs(f.node, gd[0].args[2])
    if not (isinstance(src, ast.Subscript) and isinstance(tgt, ast.Subscript)):
        # two frames addressed through their OWN accessors (`from_df.plain_mesh.coordinates`, `self.coordinates`): each frame then
        # contributes its coordinates in its own column order - nothing ties the axes of the source to those of the target
        own = [e for e in (src, tgt) if isinstance(e, ast.Attribute) and e.attr in ("coordinates", "values") or
               (isinstance(e, ast.Call) and isinstance(e.func, ast.Attribute) and e.func.attr in ("to_numpy", "coordinates"))]
        if len(own) == 2 or (own and not (isinstance(src, ast.Subscript) or isinstance(tgt, ast.Subscript))):
            ctx.violated(f, gd[0], "Meshmapper.process hands griddata the source points as %s and the target points as %s: each frame's own "
                         "coordinate columns in its own order; source and target have to be selected with ONE list of coordinate keys, "
                         "otherwise the axes of two frames whose x / y / z columns are stored in different orders are swapped silently"
                         % (norm_text(src)[:50], norm_text(tgt)[:50]), text="source and target points not selected with one key list")
            return
        raise AnalysisError("Meshmapper.process: source / target points are not column selections")
    ks, kt = src.slice, tgt.slice

    def resolve(e):
        if isinstance(e, ast.Name):
            d = [x.value for x in walk_function(f.node) if isinstance(x, ast.Assign) and isinstance(x.targets[0], ast.Name) and
                 x.targets[0].id == e.id]
            return d[0] if len(d) == 1 else e
        return e
    rs, rt = resolve(ks), resolve(kt)
    if norm_text(rs) == norm_text(rt):
        ctx.holds(f, gd[0], "source and target points use the same key list %s" % norm_text(rs))
    else:
        ctx.violated(f, gd[0], "source points use %s but target points %s" % (norm_text(rs), norm_text(rt)), text="key lists differ")
    dep = [n.attr for n in ast.walk(rs) if isinstance(n, ast.Attribute) and n.attr in ("dimensions", "dimension", "ndim", "shape")]
    if is_self_attr(rs) and not dep:
        ctx.holds(f, gd[0], "coordinate keys = self.%s, the complete list of the mesh" % rs.attr)
    else:
        ctx.violated(f, gd[0], "the coordinate keys used for the mapping are %s%s: a coordinate is dropped depending on the data of "
                     "one frame, so a 3-D source is interpolated after projection onto a plane" %
                     (norm_text(rs), " (depends on %s)" % "/".join(dep) if dep else ""), text="coordinate keys " + norm_text(rs))


def _r4_shape_state(ctx):
    """An attribute of the gradient accessor that several methods set to different values (the ansatz derivative of the
    element type) is per-element-type state: every method that calls a reader of it must itself have called the writer for
    its element type on every path before (dominance on the CFG).  A cached / conditional set-up lets the first element type
    of a mixed mesh decide the ansatz functions of all later elements."""
    from ..cfg import CFG
    prog = ctx.prog
    ctx.rule("R-C19-4", floor=2, what="per-element-type state is set by the matching writer on every path before each use")
    ci = prog.cls("pylife.mesh.gradient:Gradient3D")
    writers, readers = {}, {}
    for name, fs in ci.methods.items():
        f = fs[-1]
        for n in ast.walk(f.node):
            if isinstance(n, ast.Attribute) and isinstance(n.value, ast.Name) and n.value.id == "self":
                if isinstance(n.ctx, ast.Store) and name != "__init__":
                    writers.setdefault(n.attr, set()).add(name)
                elif isinstance(n.ctx, ast.Load):
                    readers.setdefault(n.attr, set()).add(name)
    shared = {a: w for a, w in writers.items() if len(w) >= 2 and readers.get(a)}
    if not shared:
        raise AnalysisError("Gradient3D: no attribute with several writer methods found (ansatz derivative hand-over changed)")
    n = 0
    for attr, ws in sorted(shared.items()):
        rs = readers[attr] - ws
        for name, fs in ci.methods.items():
            f = fs[-1]
            if name in ws or name in rs:
                continue
            use = [c for c in calls_in(f.node) if isinstance(c.func, ast.Attribute) and is_self_attr(c.func) and c.func.attr in rs]
            if not use:
                continue
            cfg = CFG(f.node)
            wcalls = [c for c in calls_in(f.node) if isinstance(c.func, ast.Attribute) and is_self_attr(c.func) and c.func.attr in ws]
            wnodes = {}
            for c in wcalls:
                st = c
                while not isinstance(st, ast.stmt):
                    st = st._parent
                nd = cfg.node(st)
                if nd is not None and isinstance(st, ast.Expr):
                    wnodes[nd] = c.func.attr
            for u in use:
                st = u
                while not isinstance(st, ast.stmt):
                    st = st._parent
                tgt = cfg.node(st)
                n += 1
                names = set(wnodes.values())
                if tgt is not None and len(names) == 1 and cfg.must_pass(tgt, set(wnodes)):
                    ctx.holds(f, st, "%s: every path to the use of %s (via %s) passes %s" % (name, attr, u.func.attr, next(iter(names))))
                else:
                    ctx.violated(f, st, "%s uses self.%s (via %s) but does not call its writer (%s) on every path before: with "
                                 "elements of several types in one mesh the value left by another element type is used"
                                 % (name, attr, u.func.attr, " / ".join(sorted(ws))), text="stale %s in %s" % (attr, name))
    if n == 0:
        raise AnalysisError("Gradient3D: no use of shared per-type state found")


def _r1_labels(ctx):
    prog = ctx.prog
    ctx.rule("R-C19-1", floor=3, what="node/element labels never subscript a numpy array or .iloc")
    mods = [m for m in prog.modules if m.startswith("pylife.mesh")]
    if ctx.tier == "thorough":
        mods = list(prog.modules)
    if len([m for m in mods if m.startswith("pylife.mesh")]) < 6:
        raise AnalysisError("expected >= 6 mesh modules")
    k = Kinds(prog, set(mods))
    n = k.run()
    seen = set()
    for fi, s, node, base, idx in k.findings:
        key = (fi.key, norm_text(node))
        if key in seen:
            continue
        seen.add(key)
        ctx.violated(fi, s, "node/element label %s is used as a position in %s[...]: the result depends on the numbering "
                     "(map labels through an index with get_indexer/.loc)" % (idx, base), text=norm_text(node))
    if k.flows < 8:
        raise AnalysisError("label sources matched %d times; expected >= 8 (rule would be vacuous)" % k.flows)
    ctx.holds("pylife.mesh", None, "%d functions in %d modules scanned, %d label flows seeded, %d positional uses of labels"
              % (n, len(mods), k.flows, len(seen)), {"modules": sorted(m for m in mods if m.startswith("pylife.mesh"))})
    # the repaired site: neighbours are mapped through the node index
    g = prog.func("pylife.mesh.gradient:Gradient._calc_lst_sqr")
    subs = [n2 for n2 in ast.walk(g.node) if isinstance(n2, ast.Subscript) and is_self_attr(n2.value, "_node_data")
            and isinstance(n2.ctx, ast.Load)]
    mapped = [n2 for n2 in subs if any(isinstance(c.func, ast.Attribute) and c.func.attr in POS_METHODS
                                       for c in calls_in(n2.slice))]
    if subs and mapped:
        ctx.holds(g, mapped[0], "neighbour rows addressed through %s" % norm_text(mapped[0].slice)[:80])
    # positive example for this zero-expected rule
    src = ("import numpy as np\nclass G:\n    def f(self):\n        ids = self._obj.index.get_level_values('node_id')\n"
           "        data = np.zeros((3, 3))\n        for n in np.unique(ids):\n            row = data[n - 1, :]\n"
           "            ok = data[self._obj.index.get_indexer([n]), :]\n")
    tree = set_parents(ast.parse(src))
    p = object.__new__(Program)
    p.root, p.overrides, p._base = "", {}, None
    p.modules = {"ex": Module("ex", "ex.py", src, tree, "0")}
    p.modules["ex"].pysource = src
    p.functions, p.classes, p.accessors, p._subclasses = {}, {}, {}, {}
    p._index()
    k2 = Kinds(p, {"ex"})
    k2.run()
    got = sorted({norm_text(n) for _, _, n, _, _ in k2.findings})
    if got != ["data[n - 1, :]"]:
        raise AnalysisError("label/position positive example failed: %s" % got)
    ctx.holds("selftest:positive-example", None, "rule fires on data[label-1,:] and stays silent on get_indexer", {"fired": got})


# ----------------------------------------------------------------------------- R-C19-2

def _nested(fi_node, name):
    for s in fi_node.body:
        if isinstance(s, ast.FunctionDef) and s.name == name:
            return s
    return None


def _ref_nodes(fi):
    """literal lists/tuples of 3-tuples used in the function, directly or through a module-level name bound once"""
    out = []
    consts = {}
    for st in fi.module.tree.body:
        if isinstance(st, ast.Assign) and len(st.targets) == 1 and isinstance(st.targets[0], ast.Name):
            consts.setdefault(st.targets[0].id, []).append(st.value)

    def triple_list(n):
        return isinstance(n, (ast.List, ast.Tuple)) and len(n.elts) > 1 and all(
            isinstance(x, ast.Tuple) and len(x.elts) == 3 and all(isinstance(const_value(c), (int, float)) for c in x.elts)
            for x in n.elts)
    for n in ast.walk(fi.node):
        if triple_list(n):
            out.append((n, [tuple(const_value(c) for c in x.elts) for x in n.elts]))
        elif isinstance(n, ast.Name) and isinstance(n.ctx, ast.Load) and len(consts.get(n.id, [])) == 1 and triple_list(consts[n.id][0]):
            out.append((n, [tuple(const_value(c) for c in x.elts) for x in consts[n.id][0].elts]))
    return out


def _atom_sym(e):
    if isinstance(e, ast.Name):
        return e.id
    return None


def _r2_jacobian(ctx):
    prog = ctx.prog
    ctx.rule("R-C19-2", floor=40, what="J_ij == sum_a x_a,i dphi_a/dxi_j ; sum_a dphi_a = 0 ; node order ; contraction index")
    cls = "pylife.mesh.gradient:Gradient3D."
    for shape, n_nodes in (("hexahedral", 8), ("simplex", 4)):
        init = prog.func(cls + "_initialize_ansatz_function_derivative_" + shape)
        comp = prog.func(cls + "_compute_gradient_" + shape)
        single = prog.func(cls + "_compute_gradient_%s_single_node" % shape)
        inner = _nested(init.node, "dphi_a_dxi_j")
        if inner is None:
            raise AnalysisError("%s: nested ansatz derivative not found" % init.key)
        stored = [s for s in init.node.body if isinstance(s, ast.Assign) and is_self_attr(s.targets[0], "_dphi_a_dxi_j")
                  and isinstance(s.value, ast.Name) and s.value.id == inner.name]
        used = [s for s in single.node.body if isinstance(s, ast.Assign) and is_self_attr(s.value, "_dphi_a_dxi_j")]
        if not stored or not used:
            raise AnalysisError("%s: ansatz derivative is not handed over through self._dphi_a_dxi_j" % shape)
        cl = Closure(inner, module_env(init.module.tree))
        xi = tuple(RF.sym("xi%d" % (d + 1)) for d in range(3))
        dphi = {}
        try:
            for a in range(n_nodes):
                for j in range(3):
                    first = xi if shape == "hexahedral" else 0
                    v = call_closure(cl, [first, a, j])
                    if v is None:
                        raise NFUnsupported("no value returned for a=%d j=%d" % (a, j))
                    dphi[(a, j)] = v if isinstance(v, RF) else RF.const(v)
        except NFUnsupported as e:
            raise AnalysisError("%s: partial evaluation of the ansatz derivatives failed: %s" % (shape, e))
        # partition of unity
        for j in range(3):
            tot = RF.const(0)
            for a in range(n_nodes):
                tot = tot + dphi[(a, j)]
            if tot.is_zero():
                ctx.holds(init, inner, "%s: sum_a dphi_a/dxi_%d == 0" % (shape, j + 1))
            else:
                ctx.violated(init, inner, "%s: sum_a dphi_a/dxi_%d = %r, not 0: constant fields would get a non-zero "
                             "gradient" % (shape, j + 1, tot), text="%s partition j=%d" % (shape, j))
        # Jacobian assembly: the 3x3 literal of named entries handed to np.array; roles by position, not by name
        asm = [s for s in walk_function(comp.node) if isinstance(s, ast.Assign) and isinstance(s.targets[0], ast.Name) and
               isinstance(s.value, ast.Call) and call_name(s.value) in ("np.array", "np.asarray") and s.value.args and
               isinstance(s.value.args[0], ast.List) and len(s.value.args[0].elts) == 3 and
               all(isinstance(r, ast.List) and len(r.elts) == 3 for r in s.value.args[0].elts)]
        matrix_idiom = None
        if len(asm) != 1 and shape != "hexahedral":
            # second accepted idiom (linear simplex only): J = (C[1:] - C[0]).T with C = <frame>.iloc[:n, :3] as an array, i.e.
            # J[i][j] = x_(j+2),i - x_1,i - possibly inside an extracted private helper
            from ..inline import inlined
            compi = inlined(prog, comp)
            for s_ in walk_function(compi.node):
                if not (isinstance(s_, ast.Assign) and isinstance(s_.targets[0], ast.Name)):
                    continue
                v_ = inline_single_defs(compi.node, s_.value)
                if isinstance(v_, ast.Attribute) and v_.attr == "T" and isinstance(v_.value, ast.BinOp) and isinstance(v_.value.op, ast.Sub):
                    a_, b_ = v_.value.left, v_.value.right
                    if isinstance(a_, ast.Subscript) and isinstance(b_, ast.Subscript) and norm_text(a_.value) == norm_text(b_.value) and \
                            isinstance(a_.slice, ast.Slice) and const_value(a_.slice.lower) == 1 and a_.slice.upper is None and \
                            const_value(b_.slice) == 0:
                        base = a_.value
                        while isinstance(base, ast.Call) and isinstance(base.func, ast.Attribute) and base.func.attr in ("to_numpy", "astype"):
                            base = base.func.value
                        if isinstance(base, ast.Attribute) and base.attr == "values":
                            base = base.value
                        if isinstance(base, ast.Subscript) and isinstance(base.value, ast.Attribute) and base.value.attr == "iloc" and \
                                isinstance(base.slice, ast.Tuple) and len(base.slice.elts) == 2 and \
                                all(isinstance(x_, ast.Slice) and x_.lower is None for x_ in base.slice.elts) and \
                                const_value(base.slice.elts[0].upper) == n_nodes and const_value(base.slice.elts[1].upper) == 3:
                            matrix_idiom = s_
        if matrix_idiom is not None:
            src_ = "\n".join("J%d%d = x%d%d - x1%d" % (i_ + 1, j_ + 1, j_ + 2, i_ + 1, i_ + 1) for i_ in range(3) for j_ in range(3))
            src_ += "\nJ = np.array([[J11, J12, J13], [J21, J22, J23], [J31, J32, J33]])\n"
            synth = ast.parse(src_).body
            asm = [synth[-1]]
            synth_defs = {st_.targets[0].id: st_ for st_ in synth[:-1]}
        if len(asm) != 1:
            raise AnalysisError("%s: Jacobian assembly (3x3 literal) not found" % shape)
        rows = asm[0].value.args[0].elts
        cells = {c.id for r in rows for c in r.elts if isinstance(c, ast.Name)}
        jdefs = {}
        for s in walk_function(comp.node):
            if isinstance(s, ast.Assign) and isinstance(s.targets[0], ast.Name) and s.targets[0].id in cells:
                jdefs[s.targets[0].id] = s
        if matrix_idiom is not None:
            jdefs = synth_defs
        in_place = sum(1 for r in rows for c in r.elts if not isinstance(c, ast.Name))       # entries written into the literal
        if len(jdefs) + in_place != 9:
            raise AnalysisError("%s: expected 9 Jacobian entries, found %d" % (shape, len(jdefs) + in_place))
        # coordinate symbols: the three names unpacked from <frame>.iloc[a, :3] are x_{a+1},1..3 (by position)
        canon = {}
        n_rows = 0
        for s in walk_function(comp.node):
            if isinstance(s, ast.Assign) and isinstance(s.targets[0], ast.Tuple) and isinstance(s.value, ast.Subscript) \
                    and isinstance(s.value.value, ast.Attribute) and s.value.value.attr == "iloc" and \
                    isinstance(s.value.slice, ast.Tuple) and len(s.targets[0].elts) == 3:
                row = const_value(s.value.slice.elts[0])
                col = s.value.slice.elts[1]
                if isinstance(row, int) and isinstance(col, ast.Slice) and col.lower is None and const_value(col.upper) == 3:
                    n_rows += 1
                    for i, t in enumerate(s.targets[0].elts):
                        if isinstance(t, ast.Name):
                            canon[t.id] = "x%d%d" % (row + 1, i + 1)
        if matrix_idiom is not None:
            n_rows = n_nodes                      # the array C holds rows 0..n-1, columns 0..2 (checked above)
            for a_ in range(n_nodes):
                for i_ in range(3):
                    canon["x%d%d" % (a_ + 1, i_ + 1)] = "x%d%d" % (a_ + 1, i_ + 1)
        if n_rows == n_nodes:
            ctx.holds(comp, comp.node, "%s: node coordinates x_a,i are unpacked from row a-1, columns 0..2" % shape)
        else:
            ctx.violated(comp, comp.node, "%s: coordinates of %d rows are unpacked, the element has %d nodes" % (shape, n_rows, n_nodes),
                         text="%s coordinate rows" % shape)
        # local reference coordinates: the three names unpacked from the loop variable of the reference-node loop
        rloop = [s for s in walk_function(comp.node) if isinstance(s, ast.For) and isinstance(s.iter, ast.Call) and
                 call_name(s.iter) == "enumerate" and isinstance(s.target, ast.Tuple) and len(s.target.elts) == 2]
        if rloop and isinstance(rloop[0].target.elts[1], ast.Name):
            xiv = rloop[0].target.elts[1].id
            for s in rloop[0].body:
                if isinstance(s, ast.Assign) and isinstance(s.value, ast.Name) and s.value.id == xiv and \
                        isinstance(s.targets[0], ast.Tuple) and len(s.targets[0].elts) == 3:
                    for d_, t in enumerate(s.targets[0].elts):
                        if isinstance(t, ast.Name):
                            canon[t.id] = "xi%d" % (d_ + 1)

        # single-definition temporaries shared by the entries (eta1 = 1 - xi1 ...) are resolved through their definition
        counts_ = {}
        for s_ in walk_function(comp.node):
            if isinstance(s_, ast.Assign) and len(s_.targets) == 1 and isinstance(s_.targets[0], ast.Name):
                counts_.setdefault(s_.targets[0].id, []).append(s_.value)
        tmp_env = {k_: v_[0] for k_, v_ in counts_.items() if len(v_) == 1 and k_ not in canon and k_ not in jdefs and
                   isinstance(v_[0], (ast.BinOp, ast.UnaryOp, ast.Constant, ast.Name))}

        def _atom_sym(e, canon=canon):
            if isinstance(e, ast.Name):
                if e.id in tmp_env and e.id not in canon:
                    return None
                return canon.get(e.id, "?" + e.id)
            return None
        for i in range(3):
            for j in range(3):
                cell = rows[i].elts[j]
                if isinstance(cell, ast.Name) and cell.id not in jdefs:
                    raise AnalysisError("%s: Jacobian cell (%d,%d) is not a defined entry" % (shape, i, j))
                s = jdefs[cell.id] if isinstance(cell, ast.Name) else asm[0]
                cexpr = s.value if isinstance(cell, ast.Name) else cell
                cname = cell.id if isinstance(cell, ast.Name) else "entry %d,%d of the literal" % (i + 1, j + 1)
                try:
                    got = to_nf(cexpr, atom=_atom_sym, env=tmp_env)
                except NFUnsupported as e:
                    raise AnalysisError("%s: %s outside the normal-form fragment: %s" % (shape, cname, e))
                want = RF.const(0)
                for a in range(n_nodes):
                    want = want + RF.sym("x%d%d" % (a + 1, i + 1)) * dphi[(a, j)]
                if got == want:
                    ctx.holds(comp, s, "%s: J[%d,%d] (%s) == sum_a x_a,%d * dphi_a/dxi_%d" % (shape, i + 1, j + 1, cname, i + 1, j + 1))
                else:
                    ctx.violated(comp, s, "%s: Jacobian entry (%d,%d) = %s differs from sum_a x_a,%d dphi_a/dxi_%d of the "
                                 "ansatz functions: the gradient is no longer exact on linear fields" %
                                 (shape, i + 1, j + 1, cname, i + 1, j + 1), text="%s J%d%d" % (shape, i + 1, j + 1))
        # contraction index
        sparams = [q for q in single.params if q != "self"]
        jinv_name = sparams[-1]
        dname = used[0].targets[0].id if isinstance(used[0].targets[0], ast.Name) else None
        rname = [s.value.id for s in single.node.body if isinstance(s, ast.Return) and isinstance(s.value, ast.Name)]
        sub = [n for n in ast.walk(single.node) if isinstance(n, ast.Subscript) and isinstance(n.value, ast.Name)
               and n.value.id == jinv_name]
        dcall = [c for c in calls_in(single.node) if isinstance(c.func, ast.Name) and c.func.id == dname]
        res = [s for s in walk_function(single.node) if isinstance(s, ast.AugAssign) and isinstance(s.target, ast.Subscript)
               and isinstance(s.target.value, ast.Name) and rname and s.target.value.id == rname[0]]
        if len(sub) != 1 or len(dcall) != 1 or len(res) != 1:
            raise AnalysisError("%s: contraction loop not recognised" % shape)
        jvar = norm_text(dcall[0].args[2])
        avar = norm_text(dcall[0].args[1])
        kvar = norm_text(res[0].target.slice)
        idx = [norm_text(x) for x in sub[0].slice.elts] if isinstance(sub[0].slice, ast.Tuple) else []
        val_idx = [n for n in ast.walk(inline_single_defs(single.node, res[0].value)) if isinstance(n, ast.Subscript) and
                   isinstance(n.value, ast.Attribute) and n.value.attr == "iloc"]
        if not val_idx or len(idx) != 2:
            raise AnalysisError("%s: nodal value / Jinv subscript of the contraction not recognised" % shape)
        if idx == [jvar, kvar] and val_idx and norm_text(val_idx[0].slice) == avar:
            ctx.holds(single, sub[0], "%s: d/dx_k = sum_a u_a sum_j dphi_a/dxi_j * Jinv[j,k]" % shape)
        else:
            ctx.violated(single, res[0], "%s: contraction uses Jinv[%s] with result index %s and nodal value index %s; "
                         "expected Jinv[%s, %s] and value %s" % (shape, ", ".join(idx), kvar,
                                                                   norm_text(val_idx[0].slice) if val_idx else "?",
                                                                   jvar, kvar, avar))
        # reference node lists
        if shape == "hexahedral":
            l1, l2 = _ref_nodes(comp), _ref_nodes(single)
            if len(l1) != 1 or len(l2) != 1:
                raise AnalysisError("hexahedral: reference node lists not found")
            if l1[0][1] != l2[0][1]:
                ctx.violated(single, l2[0][0], "reference node order differs between the element loop and the single-node "
                             "routine", text="ref nodes")
            else:
                ctx.holds(single, l2[0][0], "reference node list identical in both places")
            for a, ref in enumerate(l1[0][1]):
                for j in range(3):
                    v = dphi[(a, j)]
                    for d in range(3):
                        v = _subst_atom(v, "xi%d" % (d + 1), RF.const(ref[d]))
                    c = v.as_const()
                    want = 1 if ref[j] == 1 else -1
                    if c == want:
                        ctx.holds(init, inner, "node %d at %s: dphi_%d/dxi_%d(own node) = %+d" % (a, ref, a, j + 1, want))
                    else:
                        ctx.violated(init, inner, "ansatz function %d is not the hat function of reference node %s "
                                     "(dphi/dxi_%d at its own node is %s, expected %+d): node order and membership lists "
                                     "disagree" % (a, ref, j + 1, c, want), text="hat %d %d" % (a, j))
            # the node's xi is what is passed on
            cs = [c for c in calls_in(comp.node) if isinstance(c.func, ast.Attribute) and
                  c.func.attr == single.name]
            loop = [s for s in walk_function(comp.node) if isinstance(s, ast.For) and isinstance(s.iter, ast.Call) and
                    call_name(s.iter) == "enumerate"]
            if len(cs) == 1 and loop and isinstance(loop[0].target, ast.Tuple):
                xiname = loop[0].target.elts[1].id
                unpack = [s for s in loop[0].body if isinstance(s, ast.Assign) and isinstance(s.value, ast.Name) and
                          s.value.id == xiname and isinstance(s.targets[0], ast.Tuple)]
                ok = isinstance(cs[0].args[0], ast.Name) and cs[0].args[0].id == xiname and unpack and \
                    [canon.get(t.id) for t in unpack[0].targets[0].elts if isinstance(t, ast.Name)] == ["xi1", "xi2", "xi3"]
                if ok:
                    ctx.holds(comp, cs[0], "Jacobian and ansatz derivatives are evaluated at the same reference point")
                else:
                    ctx.violated(comp, cs[0], "Jacobian and ansatz derivatives are evaluated at different reference points")


# ----------------------------------------------------------------------------- R-C19-8

def _r8_column_layout(ctx):
    """The per-element workers of Gradient3D address the columns of the frame they are given by position (columns 0..2 are the
    coordinates, column 3 the value, 4..6 receive the gradient).  That is right only for a frame whose columns were selected by
    name in exactly that order; handing them the caller's frame as it is makes the result depend on which other columns the
    mesh carries and in which order."""
    prog = ctx.prog
    ctx.rule("R-C19-8", floor=1, what="frames addressed by column position are projected onto [x, y, z, value] by name first")
    ci = prog.cls("pylife.mesh.gradient:Gradient3D")
    g = prog.lookup_method(ci, "gradient_of")
    positional = []
    for name, defs in ci.methods.items():
        for n_ in ast.walk(defs[-1].node):
            if isinstance(n_, ast.Subscript) and isinstance(n_.value, ast.Attribute) and n_.value.attr == "iloc" and \
                    isinstance(n_.slice, ast.Tuple) and len(n_.slice.elts) == 2 and \
                    (isinstance(n_.slice.elts[1], ast.Slice) or isinstance(const_value(n_.slice.elts[1]), int)):
                positional.append((defs[-1], n_))
    if not positional:
        raise AnalysisError("Gradient3D: no positional column access found (the rule has nothing to protect)")
    ap = [c for c in calls_in(g.node) if isinstance(c.func, ast.Attribute) and c.func.attr == "apply" and c.args and
          is_self_attr(c.args[0])]
    if len(ap) != 1:
        raise AnalysisError("gradient_of: the per-element apply call was not found")
    e = ap[0].func.value
    for _ in range(12):
        if isinstance(e, ast.Call) and isinstance(e.func, ast.Attribute):
            e = e.func.value                       # .groupby(...), .reorder_levels(...), .sort_index(...), .copy() ...
        elif isinstance(e, ast.Name):
            ds = [s_.value for s_ in walk_function(g.node) if isinstance(s_, ast.Assign) and
                  any(isinstance(t_, ast.Name) and t_.id == e.id for t_ in s_.targets)]
            if len(ds) != 1:
                raise AnalysisError("gradient_of: the frame handed to the workers has several definitions")
            e = ds[0]
        else:
            break
    vparam = [q for q in g.params if q != "self"][0]
    if is_self_attr(e, "_obj"):
        ctx.violated(g, ap[0], "gradient_of hands the mesh frame to the per-element workers with all its columns in the caller's "
                     "order; the workers read the coordinates as columns 0..2 and the value as column 3 (%d positional accesses), "
                     "so any extra column or another column order silently changes the gradient" % len(positional),
                     text="unprojected frame")
        return
    if isinstance(e, ast.Subscript) and is_self_attr(e.value, "_obj") and isinstance(e.slice, ast.Name):
        e = ast.Subscript(value=e.value, slice=inline_single_defs(g.node, e.slice), ctx=ast.Load())     # a named column list
    if isinstance(e, ast.Subscript) and is_self_attr(e.value, "_obj") and isinstance(e.slice, (ast.List, ast.Tuple)):
        cols = [const_value(x_) if not (isinstance(x_, ast.Name) and x_.id == vparam) else "<value>" for x_ in e.slice.elts]
        if cols == ["x", "y", "z", "<value>"]:
            ctx.holds(g, ap[0], "workers receive self._obj[['x', 'y', 'z', value]]: positions 0..3 are the coordinates and the value "
                      "(%d positional accesses in the workers)" % len(positional))
        else:
            ctx.violated(g, ap[0], "the frame handed to the workers has the columns %s; they read columns 0..2 as x, y, z and "
                         "column 3 as the value" % cols, text="projected column order")
        return
    raise AnalysisError("gradient_of: how the frame for the workers is built was not understood")


# ----------------------------------------------------------------------------- R-C19-3

def _r3_hotspot(ctx):
    prog = ctx.prog
    ctx.rule("R-C19-3", floor=4, what="hot-spot threshold >= fraction*max; seed at arg-max of the remaining entries; labels +1 per round")
    calc = prog.func("pylife.mesh.hotspot:HotSpot.calc")
    params = [p for p in calc.params if p != "self"]
    frac = params[1]
    thr = [s for s in calc.node.body if isinstance(s, ast.Assign) and isinstance(s.value, ast.Compare)]
    if len(thr) != 1:
        raise AnalysisError("HotSpot.calc: threshold comparison not found")
    c = thr[0].value
    mask = thr[0].targets[0].id
    def is_max(e, depth=0):
        """the reference value: a .max() of the values, in every alternative (conditional expression, several definitions)"""
        if isinstance(e, ast.IfExp):
            return is_max(e.body, depth) and is_max(e.orelse, depth)
        if isinstance(e, ast.Call) and isinstance(e.func, ast.Attribute) and e.func.attr == "max":
            return True
        if isinstance(e, ast.Call) and call_name(e) in ("np.max", "np.amax", "max", "np.nanmax"):
            return True
        if isinstance(e, ast.Name) and depth < 4:
            ds = [s_.value for s_ in walk_function(calc.node) if isinstance(s_, ast.Assign) and
                  any(isinstance(t_, ast.Name) and t_.id == e.id for t_ in s_.targets)]
            return bool(ds) and all(is_max(d_, depth + 1) for d_ in ds)
        return False
    # orientation-free: big >= small
    big = small = None
    if len(c.ops) == 1 and isinstance(c.ops[0], ast.GtE):
        big, small = c.left, c.comparators[0]
    elif len(c.ops) == 1 and isinstance(c.ops[0], ast.LtE):
        big, small = c.comparators[0], c.left
    ok_rhs = False
    if small is not None and isinstance(small, ast.BinOp) and isinstance(small.op, ast.Mult):
        for f_, m_ in ((small.left, small.right), (small.right, small.left)):
            if isinstance(f_, ast.Name) and f_.id == frac and is_max(m_):
                ok_rhs = True
    def has_abs(e):
        e2 = inline_single_defs(calc.node, e, depth=5)
        return any((isinstance(x, ast.Call) and ((isinstance(x.func, ast.Attribute) and x.func.attr == "abs") or
                                                 call_name(x) in ("abs", "np.abs", "np.absolute", "np.fabs"))) for x in ast.walk(e2))
    if big is not None and ok_rhs and has_abs(big) != has_abs(small):
        ctx.violated(calc, thr[0], "the hot-spot mask compares %s with a reference taken from %s values: for a field whose largest "
                     "magnitude is negative the threshold lies above every entry that should be labelled (hot spots vanish), and a "
                     "distant compressive trough changes the tensile labels" %
                     ("the magnitudes" if has_abs(big) else "the signed values", "signed" if has_abs(big) else "absolute"),
                     text="hot-spot reference on other values than the mask")
    elif big is not None and ok_rhs:
        ctx.holds(calc, thr[0], "entries with value >= %s*max are hot spots (non-strict)" % frac)
    else:
        ctx.violated(calc, thr[0], "hot-spot threshold is %s; it must label exactly the entries at or above %s*max "
                     "(non-strict comparison)" % (norm_text(c), frac))
    loop = [s for s in calc.node.body if isinstance(s, ast.While)]
    if len(loop) != 1:
        raise AnalysisError("HotSpot.calc: region loop not found")
    loop = loop[0]
    body = loop.body
    sel = [s for s in body if isinstance(s, ast.Assign) and isinstance(s.value, ast.Call) and
           isinstance(s.value.func, ast.Attribute) and "hs_sel" in s.value.func.attr]
    store = [s for s in body if isinstance(s, ast.Assign) and isinstance(s.targets[0], ast.Subscript) and
             isinstance(s.value, ast.Name)]
    inc = [s for s in body if isinstance(s, ast.AugAssign) and isinstance(s.target, ast.Name)]
    rem = [s for s in body if isinstance(s, ast.AugAssign) and isinstance(s.target, ast.Name) and s.target.id == mask]
    cnt = [s for s in inc if s.target.id != mask]
    ok = len(sel) == 1 and len(store) == 1 and len(cnt) == 1 and len(rem) == 1
    if ok:
        region = sel[0].targets[0].id
        counter = cnt[0].target.id
        init = [s for s in calc.node.body if isinstance(s, ast.Assign) and isinstance(s.targets[0], ast.Name) and
                s.targets[0].id == counter]
        # the label written in round r is r: the counter is advanced by one exactly once per round, and the value stored in the
        # first round - the initial value, plus one if the increment precedes the store - is 1
        first_label = None
        if len(init) == 1 and isinstance(const_value(init[0].value), int):
            first_label = const_value(init[0].value) + (1 if body.index(cnt[0]) < body.index(store[0]) else 0)
        ok = (isinstance(sel[0].value.args[0], ast.Name) and sel[0].value.args[0].id == mask
              and store[0].value.id == counter and norm_text(store[0].targets[0].slice) == region
              and isinstance(cnt[0].op, ast.Add) and const_value(cnt[0].value) == 1
              and body.index(sel[0]) < body.index(store[0]) < body.index(rem[0])
              and isinstance(rem[0].op, ast.BitXor) and isinstance(rem[0].value, ast.Name) and rem[0].value.id == region
              and norm_text(loop.test) == "%s.any()" % mask and first_label == 1)
    if ok:
        ctx.holds(calc, loop, "each round: region from the remaining mask, label = round number (counter advanced by one per round, "
                  "first label 1), region removed")
    else:
        ctx.violated(calc, loop, "hot-spot numbering loop does not (seed from the remaining entries, label the region with the round "
                     "number starting at 1, remove the region)", text="numbering loop")
    hs = [f for k, f in prog.functions.items() if k.startswith("pylife.mesh.hotspot:HotSpot.") and "hs_sel" in k]
    if len(hs) != 1:
        raise AnalysisError("HotSpot seed routine not found")
    hs = hs[0]
    rparam = [p for p in hs.params if p != "self"][0]
    seed = [s for s in hs.node.body if isinstance(s, ast.Assign) and isinstance(s.value, ast.Call) and
            isinstance(s.value.func, ast.Attribute) and s.value.func.attr in ("idxmax", "argmax")]
    ok = False
    if len(seed) == 1:
        base = seed[0].value.func.value
        # the label of the maximum of the values restricted to the remaining mask:  frame.loc[remaining, key].idxmax(),
        # values[remaining].idxmax()  or  values.loc[remaining].idxmax()
        sl = base.slice if isinstance(base, ast.Subscript) else None
        first = sl.elts[0] if isinstance(sl, ast.Tuple) and sl.elts else sl
        ok = isinstance(base, ast.Subscript) and isinstance(first, ast.Name) and first.id == rparam and \
            seed[0].value.func.attr == "idxmax" and not isinstance(base.value, ast.Attribute) or \
            (isinstance(base, ast.Subscript) and isinstance(first, ast.Name) and first.id == rparam and
             seed[0].value.func.attr == "idxmax" and isinstance(base.value, ast.Attribute) and base.value.attr == "loc")
    if ok:
        ctx.holds(hs, seed[0], "seed = label of the maximum over the remaining entries")
    else:
        ctx.violated(hs, seed[0] if seed else hs.node, "region seed is not the arg-max over the remaining entries")
    grow = [s for s in walk_function(hs.node) if isinstance(s, ast.Assign) and isinstance(s.value, ast.BinOp) and
            isinstance(s.value.op, ast.BitXor)]
    levels = set()
    for s in grow:
        for cc in calls_in(s.value):
            if isinstance(cc.func, ast.Attribute) and cc.func.attr == "isin":
                lv = next((const_value(k.value) for k in cc.keywords if k.arg == "level"), None)
                if lv is None:
                    # <index>.get_level_values('<level>').isin(...) - possibly through a local
                    recv = inline_single_defs(hs.node, cc.func.value)
                    if isinstance(recv, ast.Call) and isinstance(recv.func, ast.Attribute) and recv.func.attr == "get_level_values" \
                            and recv.args:
                        lv = const_value(recv.args[0])
                levels.add(lv)
    if levels == set(LEVELS):
        ctx.holds(hs, grow[0], "region grows over shared node_id and shared element_id membership")
    else:
        ctx.violated(hs, grow[0] if grow else hs.node, "region growing uses levels %s; adjacency is shared node and shared "
                     "element" % sorted(map(str, levels)), text="growth levels")


# =========================================================================== variants

GR = "src/pylife/mesh/gradient.py"
HS = "src/pylife/mesh/hotspot.py"


def variants():
    out = []

    def keys_by_dimension(tree):
        f = find_func(tree, "Meshmapper.process")
        for st in f.body:
            if isinstance(st, ast.Assign) and is_self_attr(st.value, "_coord_keys"):
                st.value = parse_expr("self._coord_keys[:self.dimensions]")
                return True
        return False
    out.append(witness("mapping drops coordinates according to the target's apparent dimension",
                       "src/pylife/mesh/meshmapping.py", keys_by_dimension, "R-C19-5"))

    def init_once(tree):
        f = find_func(tree, "Gradient3D._compute_gradient_simplex")
        for i, st in enumerate(f.body):
            if isinstance(st, ast.Expr) and "_initialize_ansatz_function_derivative_simplex" in ast.unparse(st):
                f.body[i] = parse_stmt("if not hasattr(self, '_dphi_a_dxi_j'):\n    " + ast.unparse(st))
                return True
        return False
    out.append(witness("simplex ansatz derivative set up only once per accessor", GR, init_once, "R-C19-4"))

    def init_dropped(tree):
        f = find_func(tree, "Gradient3D._compute_gradient_hexahedral")
        for i, st in enumerate(f.body):
            if isinstance(st, ast.Expr) and "_initialize_ansatz_function_derivative_hexahedral" in ast.unparse(st):
                del f.body[i]
                return True
        return False
    out.append(witness("hexahedral set-up call removed", GR, init_dropped, "R-C19-4"))

    def label_pos(tree):
        f = find_func(tree, "Gradient._calc_lst_sqr")
        for n in ast.walk(f):
            if isinstance(n, ast.Subscript) and is_self_attr(n.value, "_node_data") and isinstance(n.ctx, ast.Load):
                n.slice = parse_expr("(self.neighbors[node] - 1, slice(None))")
                n.slice = ast.Tuple(elts=[parse_expr("self.neighbors[node] - 1"), ast.Slice()], ctx=ast.Load())
                return True
        return False
    out.append(witness("neighbour id - 1 as row position", GR, label_pos, "R-C19-1"))

    def label_iloc(tree):
        f = find_func(tree, "Gradient._find_neighbor")
        f.body.append(parse_stmt("first = self._obj.iloc[np.unique(self._obj.index.get_level_values('node_id'))[0]]"))
        return True
    out.append(witness("iloc by node id", GR, label_iloc, "R-C19-1"))

    def label_new(tree):
        f = find_func(tree, "Gradient.gradient_of")
        f.body.insert(3, parse_stmt("weights = np.zeros(len(self.nodes_id))"))
        f.body.insert(4, parse_stmt("for n in self.nodes_id:\n    weights[n] = 1.0"))
        return True
    out.append(witness("new array indexed by node id through a self attribute", GR, label_new, "R-C19-1"))

    def j_sign(tree):
        f = find_func(tree, "Gradient3D._compute_gradient_hexahedral")
        for s in ast.walk(f):
            if isinstance(s, ast.Assign) and isinstance(s.targets[0], ast.Name) and s.targets[0].id == "J23":
                for n in ast.walk(s.value):
                    if isinstance(n, ast.BinOp) and isinstance(n.op, ast.Add):
                        n.op = ast.Sub()
                        return True
        return False
    out.append(witness("sign of one term in J23", GR, j_sign, "R-C19-2"))

    def j_coord(tree):
        f = find_func(tree, "Gradient3D._compute_gradient_hexahedral")
        for s in ast.walk(f):
            if isinstance(s, ast.Assign) and isinstance(s.targets[0], ast.Name) and s.targets[0].id == "J12":
                for n in ast.walk(s.value):
                    if isinstance(n, ast.Name) and n.id == "x61":
                        n.id = "x62"
                        return True
        return False
    out.append(witness("x62 for x61 in J12", GR, j_coord, "R-C19-2"))

    def membership(tree):
        f = find_func(tree, "Gradient3D._initialize_ansatz_function_derivative_hexahedral")
        for n in ast.walk(f):
            if isinstance(n, ast.List) and [const_value(x) for x in n.elts] == [2, 3, 6, 7]:
                n.elts = [ast.Constant(v) for v in (1, 3, 6, 7)]
                return True
        return False
    out.append(witness("ay membership list [1,3,6,7]", GR, membership, "R-C19-2"))

    def ref_order(tree):
        f = find_func(tree, "Gradient3D._compute_gradient_hexahedral_single_node")
        for n in ast.walk(f):
            if isinstance(n, ast.List) and len(n.elts) == 8:
                n.elts[2], n.elts[3] = n.elts[3], n.elts[2]
                return True
        return False
    out.append(witness("reference node order differs in the single-node routine", GR, ref_order, "R-C19-2"))

    def jinv_t(tree):
        f = find_func(tree, "Gradient3D._compute_gradient_simplex_single_node")
        for n in ast.walk(f):
            if isinstance(n, ast.Subscript) and isinstance(n.value, ast.Name) and n.value.id == "Jinv":
                n.slice.elts.reverse()
                return True
        return False
    out.append(witness("Jinv[k,j] in the tetrahedral contraction", GR, jinv_t, "R-C19-2"))

    def tet_j(tree):
        f = find_func(tree, "Gradient3D._compute_gradient_simplex")
        for s in ast.walk(f):
            if isinstance(s, ast.Assign) and isinstance(s.targets[0], ast.Name) and s.targets[0].id == "J32":
                s.value = parse_expr("-x13 + x43")
                return True
        return False
    out.append(witness("tetrahedral J32 from node 4", GR, tet_j, "R-C19-2"))

    def tet_dphi(tree):
        f = find_func(tree, "Gradient3D._initialize_ansatz_function_derivative_simplex")
        for n in ast.walk(f):
            if isinstance(n, ast.Return) and isinstance(n.value, ast.IfExp):
                n.value.test = parse_expr("j == a")
                return True
        return False
    out.append(witness("tetrahedral dphi_a/dxi_j = 1 iff j == a", GR, tet_dphi, "R-C19-2"))

    def assemble_t(tree):
        f = find_func(tree, "Gradient3D._compute_gradient_hexahedral")
        for s in ast.walk(f):
            if isinstance(s, ast.Assign) and isinstance(s.targets[0], ast.Name) and s.targets[0].id == "J":
                rows = s.value.args[0].elts
                rows[0].elts[1], rows[1].elts[0] = rows[1].elts[0], rows[0].elts[1]
                return True
        return False
    out.append(witness("J12/J21 swapped in the matrix assembly", GR, assemble_t, "R-C19-2"))

    def strict(tree):
        f = find_func(tree, "HotSpot.calc")
        for s in f.body:
            if isinstance(s, ast.Assign) and isinstance(s.value, ast.Compare):
                s.value.ops = [ast.Gt()]
                return True
        return False
    out.append(witness("hot-spot threshold with >", HS, strict, "R-C19-3"))

    def counter_first(tree):
        f = find_func(tree, "HotSpot.calc")
        loop = [s for s in f.body if isinstance(s, ast.While)][0]
        inc = [s for s in loop.body if isinstance(s, ast.AugAssign) and isinstance(s.op, ast.Add)][0]
        loop.body.remove(inc)
        loop.body.insert(0, inc)
        return True
    out.append(witness("counter incremented before the label is stored", HS, counter_first, "R-C19-3"))

    def seed_first(tree):
        f = [n for n in ast.walk(tree) if isinstance(n, ast.FunctionDef) and "hs_sel" in n.name][0]
        for s in f.body:
            if isinstance(s, ast.Assign) and isinstance(s.value, ast.Call) and s.value.func.attr == "idxmax":
                s.value.func.value.slice.elts[0] = parse_expr("slice(None)")
                return True
        return False
    out.append(witness("seed at the global maximum instead of the remaining maximum", HS, seed_first, "R-C19-3"))

    def only_nodes(tree):
        f = [n for n in ast.walk(tree) if isinstance(n, ast.FunctionDef) and "hs_sel" in n.name][0]
        for n in ast.walk(f):
            if isinstance(n, ast.keyword) and n.arg == "level" and const_value(n.value) == "element_id":
                n.value = ast.Constant("node_id")
                return True
        return False
    out.append(witness("growth over shared nodes only", HS, only_nodes, "R-C19-3"))

    # twins
    def j_rewrite(tree):
        f = find_func(tree, "Gradient3D._compute_gradient_simplex")
        for s in ast.walk(f):
            if isinstance(s, ast.Assign) and isinstance(s.targets[0], ast.Name) and s.targets[0].id == "J11":
                s.value = parse_expr("x21 - x11")
                return True
        return False
    out.append(twin("J11 = x21 - x11", GR, j_rewrite))

    def j_expand(tree):
        f = find_func(tree, "Gradient3D._compute_gradient_hexahedral")
        for s in ast.walk(f):
            if isinstance(s, ast.Assign) and isinstance(s.targets[0], ast.Name) and s.targets[0].id == "J11":
                s.value = parse_expr("(1 - xi2)*(xi3*(x61 - x51) + (1 - xi3)*(x21 - x11)) + xi2*(xi3*(x71 - x81) + (1 - xi3)*(x31 - x41))")
                return True
        return False
    out.append(twin("J11 regrouped", GR, j_expand))

    def thr_swapped(tree):
        f = find_func(tree, "HotSpot.calc")
        for s in f.body:
            if isinstance(s, ast.Assign) and isinstance(s.value, ast.Compare):
                s.value.comparators[0] = parse_expr("max_value*limit_frac")
                return True
        return False
    out.append(twin("threshold max*fraction", HS, thr_swapped))

    def loc_label(tree):
        f = find_func(tree, "Gradient._find_neighbor")
        f.body.append(parse_stmt("first = self._obj.loc[self._obj.index.get_level_values('node_id')[0]]"))
        return True
    out.append(twin(".loc by node id", GR, loc_label))
    return out
