"""C07 — Binned notch law is the wrapped law sampled at the upper class edge.

Rules R-C07-1..7 (DESIGN.md §3 C07).  Decided: guard dominance, guard
threshold, upper-edge bracket, sign factor, table/column provenance tied to the
constructor (writer/reader agreement), grid algebra.  Not decided: the numeric
"deviates by less than one class" (follows from monotonicity of the wrapped
law, C06).
"""
from __future__ import annotations

import ast
import copy

from ..astutil import (call_name, calls_in, const_value, dotted, find_func, is_self_attr,
                       kwarg, names_in, replace_node, parse_expr, parse_stmt)
from ..cfg import CFG
from ..dataflow import inline_env
from ..domains import Affine, affine_eval
from ..frontend import AnalysisError, walk_function
from ..astutil import subst_names
from ..report import norm_text
from ..witness import witness, twin

LEVEL = "other"
PATH = "src/pylife/materiallaws/notch_approximation_law.py"
MOD = "pylife.materiallaws.notch_approximation_law"
EXPLANATION = (
    "Static decision of the structural clauses of C07 on Binned: for each of the 12 look-up returns "
    "(4 public methods x 3 input-kind branches) the return expression and the guard are inlined along the "
    "dominator chain into closed forms over the parameters; the searchsorted result is modelled by its "
    "specification (side='left': a[p-1] < v <= a[p]) as symbol P in an affine offset domain. Decided: "
    "(1) a raising range guard dominates every table-value return, (2) the guard is equivalent to P >= N "
    "(load above the last class edge; label base read from the constructors), (3) the selected row is "
    "position P, i.e. the upper class edge, searched with |load|, (4) the result is sign(load) x table value, "
    "(5) table and column read are the ones the constructor filled by calling the wrapped law's method of the "
    "same name, searched on that table's grid column, (6) grids are i*max/N for i=1..N resp. 1..2N, "
    "(7) single- and multi-point constructors agree. Not decided: numerical deviation < one class.")
EXPLANATION += (' R-C07-9: the look-up methods are functions of the constructor-built tables and their arguments: they write no attribute of self (no cached class indices or results) and read none written by another look-up.')
EXPLANATION += (' R-C07-10: no table cache shared between Binned objects under a key that leaves out something the tables depend on (bin count), no caching decorator / unreset memo attribute on the class (memo rule, built-in positive examples).')
EXPLANATION += (' R-C07-8: the look-up tables are built once in the constructor and never re-ordered afterwards.')
EXPLANATION += (' R-C07-11: with per-point look-up tables the class of every point is searched in that point\'s own table (a search with the first point\'s load for all points returns, at a class edge, the neighbouring class for some points); open known finding in the four look-up methods.')
EXPLANATION += (" R-C07-6 also requires the grid not to be built from a class width computed first (max / N rounded, then multiplied with the class index): the last edge must be the initialised maximum exactly, which (i / N) * max guarantees for i = N.")
ASSUMPTIONS = [
    "numpy/pandas searchsorted(side='left') returns p with a[p-1] < v <= a[p] on an ascending array",
    "the wrapped law is monotone (C06) so the table's load column is ascending",
    "pandas .iloc is positional, boolean-mask selection on the class_index level is label based",
]


def _strip_wrappers(e):
    """Remove value-preserving wrappers: .flatten(), .values, .to_numpy(), .reset_index(drop=True), .fillna(0)."""
    while True:
        if isinstance(e, ast.Call) and isinstance(e.func, ast.Attribute) and \
                e.func.attr in ("flatten", "to_numpy", "reset_index", "fillna", "ravel", "astype", "squeeze"):
            e = e.func.value
        elif isinstance(e, ast.Attribute) and e.attr in ("values",):
            e = e.value
        else:
            return e


def _table_of(e):
    """self._lut_x.col[...mask] -> (table attr, column) ; returns (None, None) if not of that shape."""
    e = _strip_wrappers(e)
    masked = False
    if isinstance(e, ast.Subscript):
        e = e.value
        masked = True
    if isinstance(e, ast.Attribute) and is_self_attr(e.value):
        return e.value.attr, e.attr, masked
    if isinstance(e, ast.Subscript) and is_self_attr(e.value) and isinstance(const_value(e.slice), str):
        return e.value.attr, const_value(e.slice), masked            # table['column']
    if isinstance(e, ast.Subscript) and is_self_attr(e.value.value if isinstance(e.value, ast.Attribute) else None):
        pass
    return None, None, masked


def _norm(fi):
    """the method with attribute aliases and build-then-publish locals folded back into `self.<attr>` form"""
    import copy
    from ..astutil import publish_normalised
    from ..frontend import set_parents
    node = publish_normalised(fi.node)
    # a cross-section on an index level is the mask on that level:  X.xs(k, level='L')  ->  X[T.index.get_level_values('L') == k]
    # (T: the table X is a column of); the dropped level does not matter to the values and their order
    if any(isinstance(c_, ast.Call) and isinstance(c_.func, ast.Attribute) and c_.func.attr == "xs" for c_ in ast.walk(node)):
        if node is fi.node:
            node = copy.deepcopy(fi.node)

        class XS(ast.NodeTransformer):
            def visit_Call(self, c_):
                self.generic_visit(c_)
                if isinstance(c_.func, ast.Attribute) and c_.func.attr == "xs" and len(c_.args) == 1:
                    lv = next((k_.value for k_ in c_.keywords if k_.arg == "level"), None)
                    recv = c_.func.value
                    tab = recv.value if isinstance(recv, ast.Attribute) and is_self_attr(recv.value) else recv
                    if lv is not None and isinstance(const_value(lv), str):
                        mask = ast.Compare(left=ast.Call(func=ast.Attribute(value=ast.Attribute(value=copy.deepcopy(tab), attr="index",
                                                                                                 ctx=ast.Load()),
                                                                            attr="get_level_values", ctx=ast.Load()),
                                                         args=[lv], keywords=[]), ops=[ast.Eq()], comparators=[c_.args[0]])
                        return ast.copy_location(ast.Subscript(value=recv, slice=mask, ctx=ast.Load()), c_)
                return c_
        node = ast.fix_missing_locations(XS().visit(node))
    if node is fi.node:
        return fi
    set_parents(node)
    fi2 = copy.copy(fi)
    fi2.node = node
    return fi2


class Writer:
    """What the constructors put into the tables (reader/writer agreement)."""

    def __init__(self, prog, ci):
        self.tables = {}      # ctor key -> {table: {col: ('law', method, [arg cols]) | ('grid', expr)}}
        self.bases = {}       # ctor key -> {table: (start_expr, stop_expr)}
        self.ctors = []
        for name, defs in ci.methods.items():
            fi = _norm(defs[-1])
            cols = {}
            for s in walk_function(fi.node):
                if isinstance(s, ast.Assign) and len(s.targets) == 1:
                    t = s.targets[0]
                    if isinstance(t, ast.Attribute) and is_self_attr(t.value) and t.value.attr.startswith("_lut"):
                        cols.setdefault(t.value.attr, {})[t.attr] = s
            if cols:
                self.ctors.append(fi)
                self.tables[fi.key] = cols


def _width_first(g, atom):
    """a quotient inside the grid expression whose numerator contains the maximum load but not the class index and whose
    denominator contains the number of classes: the class width is rounded before it is multiplied with the index"""
    def kinds(e):
        out = set()
        for n in ast.walk(e):
            try:
                a = atom(n)
            except Exception:
                a = None
            if a in ("i", "MAX", "NB"):
                out.add(a)
        return out
    for n in ast.walk(g):
        if isinstance(n, ast.BinOp) and isinstance(n.op, ast.Div):
            kl, kr = kinds(n.left), kinds(n.right)
            if "MAX" in kl and "i" not in kl and "NB" in kr:
                return n
    return None


def _fresh_table_from_helper(ci, v):
    """`self._helper(...)` where every return of the helper yields a local that was created by pd.DataFrame(...) in the helper and
    is only filled column by column (item / attribute stores) before it is returned: construction, not replacement"""
    if not (isinstance(v, ast.Call) and isinstance(v.func, ast.Attribute) and isinstance(v.func.value, ast.Name) and v.func.value.id == "self"):
        return False
    defs = ci.methods.get(v.func.attr)
    if not defs:
        return False
    h = defs[-1].node
    rets = [r for r in walk_function(h) if isinstance(r, ast.Return) and r.value is not None]
    if not rets or not all(isinstance(r.value, ast.Name) for r in rets):
        return False
    names = {r.value.id for r in rets}
    for nm in names:
        assigns = [s_ for s_ in walk_function(h) if isinstance(s_, ast.Assign) and any(isinstance(t_, ast.Name) and t_.id == nm for t_ in s_.targets)]
        if len(assigns) != 1 or not (isinstance(assigns[0].value, ast.Call) and call_name(assigns[0].value) in ("pd.DataFrame", "pandas.DataFrame")):
            return False
        for c_ in ast.walk(h):
            if isinstance(c_, ast.Call) and isinstance(c_.func, ast.Attribute) and isinstance(c_.func.value, ast.Name) and c_.func.value.id == nm and \
                    c_.func.attr in ("sort_index", "sort_values", "reindex", "sample", "reorder_levels", "swaplevel", "reset_index", "set_index", "take"):
                return False
    return True


def tables_fixed(ctx, ci):
    """Look-up tables are created by DataFrame construction only and never replaced or re-ordered afterwards (shared with
    R-C05-12: the look-ups pair table rows with the load series by position)."""
    REORDER = ("sort_index", "sort_values", "reindex", "sample", "reorder_levels", "swaplevel", "reset_index", "set_index", "take")
    for name, defs in ci.methods.items():
        fi = _norm(defs[-1])
        for st in walk_function(fi.node):
            if isinstance(st, ast.Assign):
                for t in st.targets:
                    if is_self_attr(t) and t.attr.startswith("_lut"):
                        v = st.value
                        if isinstance(v, ast.Call) and call_name(v) in ("pd.DataFrame", "pandas.DataFrame"):
                            ctx.holds(fi, st, "%s created by DataFrame construction" % t.attr)
                        elif _fresh_table_from_helper(ci, v):
                            ctx.holds(fi, st, "%s created by DataFrame construction in the private helper %s" % (t.attr, v.func.attr))
                        else:
                            ctx.violated(fi, st, "table %s is replaced by %s after its construction: the look-ups pair table rows with "
                                         "the load series by position, so the row order (class x given point order) must not change"
                                         % (t.attr, norm_text(v)[:80]))
                    if isinstance(t, ast.Attribute) and t.attr == "index" and is_self_attr(t.value) and t.value.attr.startswith("_lut"):
                        ctx.violated(fi, st, "index of table %s is replaced after construction" % t.value.attr)
            if isinstance(st, ast.Expr) and isinstance(st.value, ast.Call) and isinstance(st.value.func, ast.Attribute) and \
                    st.value.func.attr in REORDER and is_self_attr(st.value.func.value) and st.value.func.value.attr.startswith("_lut") \
                    and any(k.arg == "inplace" and const_value(k.value) is True for k in st.value.keywords):
                ctx.violated(fi, st, "table %s is re-ordered in place" % st.value.func.value.attr)



def lookup_methods(prog):
    ci = prog.cls(MOD + ":Binned")
    out = []
    for name, fi in prog.methods_of(ci, inherited=False).items():
        if name.startswith("_") or fi.is_property():
            continue
        if any(isinstance(c.func, ast.Attribute) and c.func.attr == "searchsorted" or call_name(c) in
               ("np.searchsorted", "numpy.searchsorted") for c in calls_in(fi.node)):
            out.append(_norm(fi))           # attribute aliases folded back, .xs(level=) as the level mask
    return ci, out


def search_keys_exact(ctx):
    """every class search of the binned law (single table and per-point tables alike) is made with the absolute load itself:
    abs(...) of a load, through value-neutral wrappers and single-definition locals - no offset, tolerance or scaling on the key.
    A shifted key moves loads near a class edge into the neighbouring class, by an amount that is absolute in load units."""
    from ..astutil import inline_single_defs
    prog = ctx.prog
    ci, methods = lookup_methods(prog)
    n = 0
    for fi in methods:
        for c, seq, key, side in _searches(fi.node):
            if key is None:
                raise AnalysisError("%s: class search without a key" % fi.key)
            k = _strip_wrappers(inline_single_defs(fi.node, key))
            for _ in range(4):
                if isinstance(k, ast.Subscript) or (isinstance(k, ast.Attribute) and k.attr in ("iloc", "values", "iat")):
                    k = _strip_wrappers(k.value)                  # the first point's entry of the absolute loads
            n += 1
            if isinstance(k, ast.Call) and call_name(k) in ("abs", "np.abs", "numpy.abs", "np.absolute", "np.fabs"):
                ctx.holds(fi, c, "%s: class searched with the absolute load (%s)" % (fi.name, norm_text(key)[:50]))
            elif isinstance(k, (ast.BinOp, ast.UnaryOp)) or (isinstance(k, ast.Call) and call_name(k) in
                                                              ("np.round", "round", "np.around", "np.nextafter", "np.floor", "np.ceil")):
                ctx.violated(fi, c, "%s: the class is searched with %s, not with the absolute load itself: loads within that "
                             "offset of a class edge are assigned to the neighbouring class" % (fi.name, norm_text(k)[:80]),
                             text="search key %s %s" % (fi.name, norm_text(k)[:60]))
            else:
                raise AnalysisError("%s: search key %s not understood" % (fi.key, norm_text(k)[:80]))
    if n < 4:
        raise AnalysisError("fewer than 4 class searches found in the binned law")


def first_point_searches(ctx):
    """With per-point look-up tables every point has a table of its own, scaled by its own largest load.  The class of a load
    has to be searched per point, in that point's table: a search with the load of ONE point (`load.iloc[0]`) in ONE point's
    table, whose result selects the rows of all points, relies on all points falling into the same class - true in exact
    arithmetic for proportional loads, but at a class boundary the rounding of `ratio * load` resolves differently per point,
    and a point then gets the value of the neighbouring class (2 % in stress for 100 classes) depending on which point happens
    to be the first of the batch."""
    from ..astutil import inline_single_defs
    prog = ctx.prog
    ci, methods = lookup_methods(prog)
    n = 0
    for fi in methods:
        params = [q for q in fi.params if q != "self"]
        for c, seq, key, side in _searches(fi.node):
            if key is None:
                continue
            k = inline_single_defs(fi.node, key)
            single = [x for x in ast.walk(k) if isinstance(x, ast.Subscript) and const_value(x.slice) == 0 and
                      any(isinstance(y, ast.Name) and y.id in params for y in ast.walk(x.value))]
            if not single:
                continue
            n += 1
            ctx.violated(fi, c, "%s: with per-point tables the class of ALL points is searched with the load of the first point (%s) "
                         "in the first point's table; at a class boundary the points of a proportional batch round into different "
                         "classes, so a point's result depends on which points it is assessed with" %
                         (fi.name, norm_text(single[0])), text="class of all points searched with " + norm_text(single[0]))
    if n == 0:
        ctx.holds(ci.key, None, "no class search of the binned law uses the load of a single point for all points")


def constructor_facts(ctx, ci):
    """-> per constructor: table -> dict(grid_col, law_cols{col: method}, base, nclass_factor, grid_expr)"""
    prog = ctx.prog
    facts = {}
    from ..inline import inlined
    for name, defs in ci.methods.items():
        fi = defs[-1]
        if any(isinstance(s_, ast.Assign) and any(is_self_attr(t_) and t_.attr.startswith("_lut") for t_ in s_.targets)
               for s_ in walk_function(fi.node)):
            fi = _norm(inlined(prog, fi))   # grid construction may live in an extracted private helper
        body_assigns = [s for s in walk_function(fi.node) if isinstance(s, ast.Assign) and len(s.targets) == 1]
        tabs = {}
        cfg = None
        for s in body_assigns:
            t = s.targets[0]
            if isinstance(t, ast.Attribute) and is_self_attr(t.value) and t.value.attr.startswith("_lut"):
                tab = tabs.setdefault(t.value.attr, {"law_cols": {}, "grid_col": None, "grid_stmt": None,
                                                     "law_args": {}})
                v = s.value
                if isinstance(v, ast.Call) and isinstance(v.func, ast.Attribute) and \
                        is_self_attr(v.func.value, "_notch_approximation_law"):
                    tab["law_cols"][t.attr] = v.func.attr
                    args = []
                    for a in v.args:
                        tt, cc, _ = _table_of(a)
                        args.append((tt, cc))
                    tab["law_args"][t.attr] = args
                else:
                    if tab["grid_col"] is not None and tab["grid_col"] != t.attr:
                        raise AnalysisError("two grid columns for %s in %s" % (t.value.attr, fi.key))
                    tab["grid_col"] = t.attr
                    tab["grid_stmt"] = s
            elif is_self_attr(t) and t.attr.startswith("_lut"):
                tabs.setdefault(t.attr, {"law_cols": {}, "grid_col": None, "grid_stmt": None, "law_args": {}})
                if isinstance(s.value, ast.Call) and call_name(s.value) in ("pd.DataFrame", "pandas.DataFrame"):
                    tabs[t.attr]["create_stmt"] = s
        if tabs:
            facts[fi.key] = (fi, tabs)
    if len(facts) < 2:
        raise AnalysisError("expected two table constructors in Binned, found %d" % len(facts))
    return facts


def _arange_args(expr):
    """find np.arange(start, stop) inside expr -> list of (start, stop) expr"""
    out = []
    for c in calls_in(expr):
        if call_name(c) in ("np.arange", "numpy.arange") and len(c.args) == 2:
            out.append((c.args[0], c.args[1]))
        elif call_name(c) in ("np.arange", "numpy.arange", "range") and len(c.args) == 1:
            out.append((ast.Constant(0), c.args[0]))
        elif call_name(c) == "range" and len(c.args) == 2:
            out.append((c.args[0], c.args[1]))
    return out


def _nbins_atom(e):
    if is_self_attr(e, "_number_of_bins"):
        return "NB"
    return None


def run(ctx):
    prog = ctx.prog
    ci, methods = lookup_methods(prog)
    facts = constructor_facts(ctx, ci)

    # ---------------------------------------------------------- writer side (R-C07-6 / 7)
    ctx.rule("R-C07-6", floor=4, what="load grid of each table is i*max/N, i = 1..N (primary) resp. 1..2N (secondary)")
    label_base = {}       # table -> set of bases over constructors
    nclass = {}
    law_of = {}           # (table, col) -> set of law methods over ctors
    grid_col = {}
    from ..nf import NF, to_nf, NFUnsupported
    for key, (fi, tabs) in facts.items():
        cfg = CFG(fi.node)
        for tab, d in tabs.items():
            cs = d.get("create_stmt")
            if cs is None or d["grid_stmt"] is None:
                raise AnalysisError("table %s in %s lacks creation or grid statement" % (tab, fi.key))
            env = inline_env(cfg, cs)
            env.pop("__ambiguous__")
            created = subst_names(cs.value, env)
            ar = _arange_args(created)
            if len(ar) != 1:
                raise AnalysisError("cannot find the class-label range of %s in %s" % (tab, fi.key))
            start = affine_eval(ar[0][0], _nbins_atom)
            stop = affine_eval(ar[0][1], _nbins_atom)
            if start is None or stop is None:
                raise AnalysisError("class-label range of %s not affine in the bin count" % tab)
            secondary = any(m.endswith("_secondary_branch") for m in d["law_cols"].values())
            want_k = 2 if secondary else 1
            n_classes = stop - start            # affine in NB
            ok = start == Affine(const=1) and n_classes == Affine({"NB": want_k})
            label_base.setdefault(tab, set()).add(start.const if start.is_const() else None)
            nclass.setdefault(tab, set()).add(repr(n_classes))
            if ok:
                ctx.holds(fi, cs, "labels of %s are 1..%d*N" % (tab, want_k),
                          {"start": repr(start), "stop": repr(stop)})
            else:
                ctx.violated(fi, cs, "class labels of %s are arange(%s, %s); expected 1..%d*number_of_bins"
                             % (tab, start, stop, want_k))
            # grid expression
            gs = d["grid_stmt"]
            genv = inline_env(cfg, gs)
            genv.pop("__ambiguous__")
            g = subst_names(gs.value, genv)

            def atom(e, tab=tab):
                # the class label of the row
                if isinstance(e, ast.Attribute) and e.attr == "index" and is_self_attr(e.value, tab):
                    return "i"
                e2 = _strip_wrappers(e)
                if e2 is not e:
                    return None
                if isinstance(e, ast.Attribute) and e.attr == "class_index":
                    # column of the cross product frame: must come from the same arange
                    inner = [a for a in _arange_args(e)]
                    return "i"
                if isinstance(e, ast.Attribute) and e.attr == "max_abs_load":
                    return "MAX"
                # cartesian product spelled with repeat / tile in the row order of MultiIndex.from_product([classes, nodes]):
                # every class label repeated for all nodes, the per-node maxima cycled through for every class
                if isinstance(e, ast.Call) and call_name(e) == "np.repeat" and len(e.args) == 2 and _arange_args(e.args[0]):
                    return "i"
                if isinstance(e, ast.Call) and call_name(e) == "np.tile" and len(e.args) == 2 and \
                        is_self_attr(_strip_wrappers(e.args[0]), "_maximum_absolute_load"):
                    return "MAX"
                if is_self_attr(e, "_maximum_absolute_load"):
                    return "MAX"
                if is_self_attr(e, "_number_of_bins"):
                    return "NB"
                return None
            try:
                nf = to_nf(g, atom=atom, strip=_strip_wrappers)
                want = to_nf(parse_expr("i*MAX/NB"), atom=lambda e: e.id if isinstance(e, ast.Name) else None)
                if nf == want:
                    # the class_index column of the cross frame must be built from the same label range
                    ranges = _arange_args(g)
                    same = all(affine_eval(a, _nbins_atom) == start and affine_eval(b, _nbins_atom) == stop
                               for a, b in ranges)
                    width_first = _width_first(g, atom)
                    if same and width_first is not None:
                        ctx.violated(fi, gs, "grid of %s.%s multiplies the class index with a class width computed first (%s): for the "
                                     "last class N * fl(max / N) is not max in floating point (429.24 with 100 classes gives "
                                     "429.23999999999995), so a load equal to the initialised maximum is refused as out of range and "
                                     "the tables differ from those of the other constructor; (i / N) * max is exact for i = N"
                                     % (tab, d["grid_col"], norm_text(width_first)[:60]), text="grid of %s: class width first" % tab)
                    elif same:
                        ctx.holds(fi, gs, "grid of %s.%s is i*max/N" % (tab, d["grid_col"]), {"nf": repr(nf)})
                    else:
                        ctx.violated(fi, gs, "grid of %s is computed on a different class range than its labels" % tab)
                else:
                    ctx.violated(fi, gs, "grid of %s.%s has normal form %r, expected i*max/N" %
                                 (tab, d["grid_col"], nf))
            except NFUnsupported as e:
                raise AnalysisError("grid expression of %s in %s outside the normal-form fragment: %s" %
                                    (tab, fi.key, e))
            for col, m in d["law_cols"].items():
                law_of.setdefault((tab, col), set()).add(m)
            grid_col.setdefault(tab, set()).add(d["grid_col"])

    ctx.rule("R-C07-7", floor=2, what="single- and multi-point constructors fill the same tables/columns from the same law calls")
    keys = list(facts)
    ref_fi, ref = facts[keys[0]]
    for k in keys[1:]:
        fi, tabs = facts[k]
        for tab in sorted(set(ref) | set(tabs)):
            a, b = ref.get(tab), tabs.get(tab)
            if a is None or b is None:
                ctx.violated(fi, fi.node, "table %s is built by only one of the two constructors" % tab, text=tab)
                continue
            if a["law_cols"] == b["law_cols"] and a["grid_col"] == b["grid_col"] and a["law_args"] == b["law_args"]:
                ctx.holds(fi, b["create_stmt"], "constructors agree on %s" % tab,
                          {"law_cols": a["law_cols"], "grid": a["grid_col"], "args": str(a["law_args"])})
            else:
                ctx.violated(fi, b["create_stmt"], "constructors disagree on %s: %s/%s/%s vs %s/%s/%s" %
                             (tab, a["law_cols"], a["grid_col"], a["law_args"], b["law_cols"], b["grid_col"],
                              b["law_args"]))
    # law args: each law column computed from (.., grid col of the same table)
    for k, (fi, tabs) in facts.items():
        for tab, d in tabs.items():
            for col, args in d["law_args"].items():
                if not args or args[-1] != (tab, d["grid_col"]):
                    ctx.violated(fi, d["create_stmt"], "column %s.%s is not computed from the table's own grid column"
                                 % (tab, col), text="%s.%s" % (tab, col))
                elif len(args) == 2 and d["law_cols"].get(args[0][1]) is None:
                    ctx.violated(fi, d["create_stmt"], "column %s.%s: first argument is not a law column" % (tab, col),
                                 text="%s.%s" % (tab, col))

    # ---------------------------------------------------------- R-C07-8: tables are built once, never replaced or re-ordered
    ctx.rule("R-C07-8", floor=4, what="look-up tables are created by DataFrame construction only and never re-ordered afterwards")
    tables_fixed(ctx, ci)

    # ---------------------------------------------------------- R-C07-10: no cache shared between wrappers under an incomplete key
    ctx.rule("R-C07-10", floor=1, what="tables cached across Binned objects are keyed by everything they are computed from (incl. the bin count)")
    from .. import memo
    memo.check_keyed_caches(ctx, prog, [ci])
    memo.run_rule(ctx, classes=[ci])

    # ---------------------------------------------------------- R-C07-11: per-point tables are searched per point
    ctx.rule("R-C07-11", floor=1, what="per-point look-up tables: the class of every point is searched in that point's own table")
    first_point_searches(ctx)

    # ---------------------------------------------------------- R-C07-9: look-ups are functions of (tables, arguments)
    ctx.rule("R-C07-9", floor=4, what="look-up methods keep no per-call state: no write to self, no read of state written by another look-up")
    mnames = {m.name for m in methods}
    built = set()
    for name, defs in ci.methods.items():
        if name in mnames:
            continue
        for st in walk_function(defs[-1].node):
            if isinstance(st, (ast.Assign, ast.AugAssign)):
                for t in (st.targets if isinstance(st, ast.Assign) else [st.target]):
                    if is_self_attr(t):
                        built.add(t.attr)
    percall = set()
    for fi in methods:
        for st in walk_function(fi.node):
            if isinstance(st, (ast.Assign, ast.AugAssign)):
                for t in (st.targets if isinstance(st, ast.Assign) else [st.target]):
                    base = t
                    while isinstance(base, (ast.Subscript, ast.Attribute)) and not is_self_attr(base):
                        base = base.value
                    if is_self_attr(base):
                        percall.add(base.attr)
                        ctx.violated(fi, st, "%s stores per-call state in self.%s: a later look-up that reads it returns values "
                                     "for the classes of another load (stale state, order of calls matters)" % (fi.name, base.attr),
                                     text="%s writes self.%s" % (fi.name, base.attr))
    for fi in methods:
        reads = {n.attr for n in ast.walk(fi.node) if is_self_attr(n) and isinstance(n.ctx, ast.Load)}
        if not (reads & percall):
            ctx.holds(fi, fi.node, "%s reads only constructor-built attributes (%d) and writes none" % (fi.name, len(reads)))

    # ---------------------------------------------------------- reader side
    ctx.rule("R-C07-1", floor=12, what="every table-value return is dominated by a raising range guard on its own search result")
    ctx.rule("R-C07-2", floor=12, what="guard is equivalent to P >= N (load above last class edge)")
    ctx.rule("R-C07-3", floor=12, what="selected row is position P: upper class edge of bracket (e[p-1], e[p]], searched with |load|")
    ctx.rule("R-C07-4", floor=12, what="result is sign(load) x table value")
    ctx.rule("R-C07-5", floor=12, what="table/column read = the one the constructor filled with the wrapped law's method of the same name; searched on the grid column of the same table")

    if len(methods) < 4:
        raise AnalysisError("expected >= 4 look-up methods in Binned, found %d" % len(methods))
    from ..inline import inlined
    from ..canon import fold_temporaries
    import copy as _copy
    for fi in methods:
        fi0 = fi
        fi = inlined(prog, fi)                 # the class search / row selection may live in shared private helpers
        if fi is not fi0:
            fold_temporaries(fi.node)
            from ..frontend import set_parents
            set_parents(fi.node)
        cfg = CFG(fi.node)
        dom = cfg.dominators()
        returns = [s for s in walk_function(fi.node) if isinstance(s, ast.Return) and s.value is not None]
        for ret in returns:
            env = inline_env(cfg, ret)
            amb = env.pop("__ambiguous__")
            R = subst_names(ret.value, env)
            if names_in(R) & amb:
                raise AnalysisError("%s: return at line %d depends on a merged definition of %s" %
                                    (fi.key, ret.lineno, sorted(names_in(R) & amb)))
            luts = [n for n in ast.walk(R) if is_self_attr(n) and n.attr.startswith("_lut")]
            if not luts:
                continue    # not a table-value return
            _check_return(ctx, fi, cfg, dom, ret, R, env, facts, law_of, grid_col, label_base)


def _searches(e):
    out = []
    for c in calls_in(e):
        if isinstance(c.func, ast.Attribute) and c.func.attr == "searchsorted" and dotted(c.func) not in \
                ("np.searchsorted", "numpy.searchsorted"):
            out.append((c, c.func.value, c.args[0] if c.args else None, kwarg(c, "side", 1)))
        elif call_name(c) in ("np.searchsorted", "numpy.searchsorted"):
            out.append((c, c.args[0], c.args[1] if len(c.args) > 1 else kwarg(c, "v"), kwarg(c, "side", 2)))
    return out


def _check_return(ctx, fi, cfg, dom, ret, R, env, facts, law_of, grid_col, label_base):
    ss = _searches(R)
    texts = {norm_text(c) for c, *_ in ss}
    if len(texts) != 1:
        ctx.violated(fi, ret, "table value returned without exactly one class search (found %d)" % len(texts),
                     rule="R-C07-3")
        return
    call, X, V, side = ss[0]
    ptext = norm_text(call)
    side_v = const_value(side) if side is not None else "left"
    tab, col, masked = _table_of(X)
    if tab is None:
        raise AnalysisError("%s: searched array %s is not a table column" % (fi.key, norm_text(X)))
    # the class index is the search result up to the constant -1/+1 shifts: clamping or conditional replacement moves loads
    # into another class (or an out-of-range load into range)
    def is_search(c):
        return (isinstance(c.func, ast.Attribute) and c.func.attr == "searchsorted") or (call_name(c) or "").endswith("searchsorted")
    idx_names = {st.targets[0].id for st in walk_function(fi.node) if isinstance(st, ast.Assign) and
                 isinstance(st.targets[0], ast.Name) and any(is_search(c) for c in calls_in(st.value))}
    for st in walk_function(fi.node):
        if isinstance(st, ast.Assign) and isinstance(st.targets[0], ast.Name) and st.targets[0].id in idx_names and \
                not any(is_search(c) for c in calls_in(st.value)):
            clamp = [c for c in calls_in(st.value) if (call_name(c) or "") in ("np.maximum", "np.minimum", "np.clip", "np.where", "max",
                                                                                 "min", "np.abs", "abs") and
                     any(isinstance(a, ast.Name) and a.id in idx_names for a_ in c.args for a in ast.walk(a_))]
            same_branch = any(x is ret for x in ast.walk(st._parent)) if hasattr(st, "_parent") else True
            if clamp and same_branch:
                ctx.violated(fi, st, "the class index is altered after the search by %s: loads whose search result is changed by it "
                             "(the first class, or a load above the table) are looked up in another class than the one their "
                             "load lies in" % norm_text(st.value), rule="R-C07-3", text="index altered " + norm_text(st.value))
                return

    def atom(e):
        if isinstance(e, ast.Call) and norm_text(e) == ptext:
            return "P"
        if isinstance(e, ast.Call) and call_name(e) == "len" and len(e.args) == 1:
            t, c, m = _table_of(ast.Attribute(value=e.args[0], attr="_", ctx=ast.Load())) if False else (None, None, None)
            a = _strip_wrappers(e.args[0])
            if is_self_attr(a) and a.attr == tab and not masked:
                return "N"
            if isinstance(a, ast.Attribute) and is_self_attr(a.value) and a.value.attr == tab and not masked:
                return "N"
            return None
        is_max_method = isinstance(e, ast.Call) and isinstance(e.func, ast.Attribute) and e.func.attr == "max" and not e.args and \
            not e.keywords and not (isinstance(e.func.value, ast.Name) and e.func.value.id in ("np", "numpy"))
        if (isinstance(e, ast.Call) and call_name(e) in ("max", "np.max", "numpy.max") and len(e.args) == 1) or is_max_method:
            a = e.func.value if is_max_method else e.args[0]
            if isinstance(a, ast.Call) and isinstance(a.func, ast.Attribute) and a.func.attr == "get_level_values" \
                    and a.args and const_value(a.args[0]) == "class_index":
                idx = a.func.value
                if isinstance(idx, ast.Attribute) and idx.attr == "index" and is_self_attr(idx.value, tab):
                    bases = label_base.get(tab, {None})
                    if len(bases) == 1 and None not in bases:
                        return Affine({"N": 1}, list(bases)[0] - 1)
            return None
        e2 = _strip_wrappers(e)
        if e2 is not e:
            return affine_eval(e2, atom)
        return None

    # ---- R-C07-1 / 2: guard
    node = cfg.node(ret)
    guards = []
    for n in dom[node]:
        s = cfg.stmt[n]
        if cfg.kind[n] == "test" and isinstance(s, ast.If) and s.body and isinstance(s.body[-1], ast.Raise):
            # the return must be on the not-raising side: every path from the guard to ret avoids the raise
            genv = inline_env(cfg, s)
            genv.pop("__ambiguous__")
            test = subst_names(s.test, genv)
            if any(norm_text(c) == ptext for c in calls_in(test)):
                guards.append((s, test))
    if not guards:
        ctx.violated(fi, ret, "table value is returned without a dominating range guard that raises", rule="R-C07-1")
    else:
        ctx.holds(fi, ret, "dominated by raising guard at line %d" % guards[0][0].lineno, rule="R-C07-1")
        ok_any = False
        msgs = []
        for g, test in guards:
            k = _guard_threshold(test, atom)
            if k is None:
                raise AnalysisError("%s: guard at line %d not normalisable: %s" % (fi.key, g.lineno, norm_text(test)))
            if k == 0:
                ok_any = True
            msgs.append((g, k))
        if ok_any:
            ctx.holds(fi, guards[0][0], "guard == (P >= N)", {"search": ptext}, rule="R-C07-2")
        else:
            g, k = msgs[0]
            ctx.violated(fi, g, "range guard raises iff P >= N%+d; it must raise exactly for P >= N "
                         "(%s)" % (k, "loads in the top class(es) are wrongly rejected" if k < 0 else
                                   "loads above the table maximum slip through"), rule="R-C07-2")

    # ---- R-C07-3: bracket and selected row
    sel = _selection(R, atom, label_base)
    if sel is None:
        raise AnalysisError("%s: cannot find the row selection in return at line %d" % (fi.key, ret.lineno))
    tab2, col2, pos = sel
    if side_v not in ("left",):
        ctx.violated(fi, ret, "class search uses side=%r: bracket [e[p-1], e[p]) puts a load equal to a class "
                     "edge into the next class (not the upper edge of its own class)" % (side_v,), rule="R-C07-3")
    elif pos is None or pos != Affine({"P": 1}):
        ctx.violated(fi, ret, "selected row is position %s; the upper class edge is position P" % (pos,),
                     rule="R-C07-3")
    else:
        # search key must be |load|
        Vs = _strip_wrappers(V)
        is_abs = isinstance(Vs, ast.Call) and call_name(Vs) in ("abs", "np.abs", "numpy.abs", "np.absolute", "np.fabs")
        if not is_abs:
            ctx.violated(fi, ret, "class is searched with %s, not with the absolute load" % norm_text(V), rule="R-C07-3")
        else:
            ctx.holds(fi, ret, "row P on bracket (e[p-1], e[p]] searched with |load|",
                      {"search": ptext, "position": repr(pos)}, rule="R-C07-3")

    # ---- R-C07-4: sign
    sign_ok, sign_param = _sign_factor(R, tab2)
    V_params = names_in(V) & set(fi.params)
    if not sign_ok:
        ctx.violated(fi, ret, "returned value is not sign(load) x table value", rule="R-C07-4")
    elif sign_param not in V_params:
        ctx.violated(fi, ret, "sign is taken from %r but the class is searched with %s" %
                     (sign_param, sorted(V_params)), rule="R-C07-4")
    else:
        ctx.holds(fi, ret, "sign(%s) x value" % sign_param, rule="R-C07-4")

    # ---- R-C07-5: provenance
    want = [(t, c) for (t, c), ms in law_of.items() if ms == {fi.name}]
    if len(want) != 1:
        raise AnalysisError("no unique table column is filled from the wrapped law's %s()" % fi.name)
    wt, wc = want[0]
    gcols = grid_col.get(wt, set())
    problems = []
    if (tab2, col2) != (wt, wc):
        problems.append("reads %s.%s, but the wrapped law's %s() is stored in %s.%s" % (tab2, col2, fi.name, wt, wc))
    if tab != wt:
        problems.append("class is searched in %s, value is expected from %s" % (tab, wt))
    elif gcols != {col}:
        problems.append("class is searched on column %s, the grid column is %s" % (col, sorted(gcols)))
    if problems:
        ctx.violated(fi, ret, "; ".join(problems), rule="R-C07-5")
    else:
        ctx.holds(fi, ret, "%s.%s searched on %s.%s" % (tab2, col2, tab, col), rule="R-C07-5")


def _guard_threshold(test, atom):
    """Return k such that the guard raises iff P >= N + k, or None."""
    t = test
    neg = False
    while True:
        if isinstance(t, ast.Call) and call_name(t) in ("np.any", "numpy.any", "any", "bool", "np.all") and t.args:
            t = t.args[0]
        elif isinstance(t, ast.Call) and isinstance(t.func, ast.Attribute) and t.func.attr in ("any",) and not t.args:
            t = t.func.value
        elif isinstance(t, ast.UnaryOp) and isinstance(t.op, ast.Not):
            neg = not neg
            t = t.operand
        else:
            break
    if not (isinstance(t, ast.Compare) and len(t.ops) == 1):
        return None
    a = affine_eval(t.left, atom)
    b = affine_eval(t.comparators[0], atom)
    if a is None or b is None:
        return None
    op = type(t.ops[0])
    if neg:
        op = {ast.Lt: ast.GtE, ast.LtE: ast.Gt, ast.Gt: ast.LtE, ast.GtE: ast.Lt}.get(op)
    if op in (ast.Lt, ast.LtE):
        a, b = b, a
        op = ast.Gt if op is ast.Lt else ast.GtE
    if op not in (ast.Gt, ast.GtE):
        return None
    d = a - b
    if d.terms.get("P") != 1 or d.terms.get("N") != -1 or set(d.terms) != {"P", "N"}:
        return None
    c = d.const
    k = -c if op is ast.GtE else 1 - c
    return int(k) if k.denominator == 1 else float(k)


def _selection(R, atom, label_base):
    """find self.T.iloc[E].C  or  self.T[<class_index level> == E].C -> (T, C, position Affine)"""
    for n in ast.walk(R):
        if not isinstance(n, ast.Attribute):
            continue
        v = n.value
        if isinstance(v, ast.Subscript):
            base = v.value
            if isinstance(base, ast.Attribute) and base.attr == "iloc" and is_self_attr(base.value) and \
                    base.value.attr.startswith("_lut"):
                pos = affine_eval(v.slice, atom)
                return base.value.attr, n.attr, pos
            if is_self_attr(base) and base.attr.startswith("_lut"):
                m = v.slice
                if isinstance(m, ast.Compare) and len(m.ops) == 1 and isinstance(m.ops[0], ast.Eq):
                    lhs, rhs = m.left, m.comparators[0]
                    for a, b in ((lhs, rhs), (rhs, lhs)):
                        if isinstance(a, ast.Call) and isinstance(a.func, ast.Attribute) and \
                                a.func.attr == "get_level_values" and a.args and const_value(a.args[0]) == "class_index":
                            lab = affine_eval(b, atom)
                            bases = label_base.get(base.attr, {None})
                            if lab is None or len(bases) != 1 or None in bases:
                                return base.attr, n.attr, None
                            return base.attr, n.attr, lab - Affine(const=list(bases)[0])
    # the column first, then the mask:  self.T.C[<class_index level> == E]
    for n in ast.walk(R):
        if isinstance(n, ast.Subscript) and isinstance(n.value, ast.Attribute) and is_self_attr(n.value.value) and \
                n.value.value.attr.startswith("_lut") and isinstance(n.slice, ast.Compare) and len(n.slice.ops) == 1 and \
                isinstance(n.slice.ops[0], ast.Eq):
            tabname, col = n.value.value.attr, n.value.attr
            lhs, rhs = n.slice.left, n.slice.comparators[0]
            for a, b in ((lhs, rhs), (rhs, lhs)):
                if isinstance(a, ast.Call) and isinstance(a.func, ast.Attribute) and a.func.attr == "get_level_values" and a.args \
                        and const_value(a.args[0]) == "class_index":
                    lab = affine_eval(b, atom)
                    bases = label_base.get(tabname, {None})
                    if lab is None or len(bases) != 1 or None in bases:
                        return tabname, col, None
                    return tabname, col, lab - Affine(const=list(bases)[0])
    return None


def _sign_factor(R, tab):
    """R must be  S * T  with T containing the table and S = wrappers(np.sign(param))."""
    if not (isinstance(R, ast.BinOp) and isinstance(R.op, ast.Mult)):
        return False, None
    for s, t in ((R.left, R.right), (R.right, R.left)):
        has_tab = any(is_self_attr(n) and n.attr.startswith("_lut") for n in ast.walk(t))
        s_has_tab = any(is_self_attr(n) and n.attr.startswith("_lut") for n in ast.walk(s))
        if has_tab and not s_has_tab:
            core = _strip_wrappers(s)
            if isinstance(core, ast.Call) and call_name(core) in ("np.sign", "numpy.sign") and len(core.args) == 1:
                a = _strip_wrappers(core.args[0])
                if isinstance(a, ast.Name):
                    return True, a.id
            return False, None
    return False, None


# =========================================================================== variants

def _methods(tree):
    cls = find_func(tree, "Binned")
    return [n for n in cls.body if isinstance(n, ast.FunctionDef) and not n.name.startswith("_")
            and any(isinstance(c.func, ast.Attribute) and c.func.attr == "searchsorted" for c in calls_in(n))]


def _branch_returns(m):
    return [s for s in ast.walk(m) if isinstance(s, ast.Return)]


def _guards(m):
    return [s for s in ast.walk(m) if isinstance(s, ast.If) and s.body and isinstance(s.body[-1], ast.Raise)]


def variants():
    out = []

    def clamp_index(tree):
        f = find_func(tree, "Binned.strain_secondary_branch")
        for n in ast.walk(f):
            if isinstance(n, ast.Assign) and isinstance(n.targets[0], ast.Name) and "searchsorted" in ast.unparse(n.value) and \
                    "values" in ast.unparse(n.value):
                par = n._parent
                blk = par.body if n in par.body else par.orelse
                blk.insert(blk.index(n) + 1, parse_stmt("%s = np.maximum(%s, 0)" % (n.targets[0].id, n.targets[0].id)))
                return True
        return False
    out.append(witness("class index clamped at zero after the search", PATH, clamp_index, "R-C07-3"))

    def cache_index(tree):
        f = find_func(tree, "Binned.stress")
        for n in ast.walk(f):
            if isinstance(n, ast.Return) and "_lut_primary_branch" in ast.unparse(n):
                par = n._parent
                blk = par.body if n in par.body else par.orelse
                blk.insert(blk.index(n), parse_stmt("self._last_primary_index = index"))
                return True
        return False
    out.append(witness("stress() remembers the class indices for strain()", PATH, cache_index, "R-C07-9"))
    names = ["stress", "strain", "stress_secondary_branch", "strain_secondary_branch"]
    for mi, mname in enumerate(names):
        for bi in range(3):
            def del_guard(tree, mname=mname, bi=bi):
                m = find_func(tree, "Binned." + mname)
                g = _guards(m)
                if len(g) != 3:
                    return False
                return replace_node(g[bi], ast.Pass())
            out.append(witness("delete guard %s[%d]" % (mname, bi), PATH, del_guard, "R-C07-1", mname))

            def weaken_guard(tree, mname=mname, bi=bi):
                m = find_func(tree, "Binned." + mname)
                g = _guards(m)
                if len(g) != 3:
                    return False
                for c in ast.walk(g[bi].test):
                    if isinstance(c, ast.Compare):
                        c.ops = [ast.Gt() if isinstance(c.ops[0], ast.GtE) else ast.GtE()]
                        return True
                return False
            out.append(witness("guard off-by-one %s[%d]" % (mname, bi), PATH, weaken_guard, "R-C07-2", mname))

            def drop_sign(tree, mname=mname, bi=bi):
                m = find_func(tree, "Binned." + mname)
                r = _branch_returns(m)
                if len(r) != 3 or not isinstance(r[bi].value, ast.BinOp):
                    return False
                r[bi].value = r[bi].value.right
                return True
            out.append(witness("drop sign %s[%d]" % (mname, bi), PATH, drop_sign, "R-C07-4", mname))

    def iloc_index(tree):
        m = find_func(tree, "Binned.stress")
        r = _branch_returns(m)[2]
        for n in ast.walk(r):
            if isinstance(n, ast.Subscript) and isinstance(n.value, ast.Attribute) and n.value.attr == "iloc":
                n.slice = ast.Name(id="index", ctx=ast.Load())
                return True
        return False
    out.append(witness("iloc[index] (lower edge)", PATH, iloc_index, "R-C07-3", "stress"))

    def side_right(tree):
        m = find_func(tree, "Binned.strain")
        for c in calls_in(m, attr="searchsorted"):
            c.keywords.append(ast.keyword(arg="side", value=ast.Constant("right")))
        return True
    out.append(witness("side='right'", PATH, side_right, "R-C07-3", "strain"))

    def wrong_table(tree):
        m = find_func(tree, "Binned.strain_secondary_branch")
        r = _branch_returns(m)[2]
        for n in ast.walk(r):
            if isinstance(n, ast.Attribute) and n.attr == "_lut_secondary_branch":
                n.attr = "_lut_primary_branch"
                return True
        return False
    out.append(witness("secondary method reads primary table", PATH, wrong_table, "R-C07-5", "strain_secondary"))

    def wrong_col(tree):
        m = find_func(tree, "Binned.stress_secondary_branch")
        r = _branch_returns(m)[1]
        for n in ast.walk(r):
            if isinstance(n, ast.Attribute) and n.attr == "delta_stress":
                n.attr = "delta_strain"
                return True
        return False
    out.append(witness("stress returns strain column", PATH, wrong_col, "R-C07-5", "stress_secondary"))

    def no_abs(tree):
        m = find_func(tree, "Binned.stress")
        cs = calls_in(m, attr="searchsorted")
        c = cs[-1]
        if isinstance(c.args[0], ast.Call):
            c.args[0] = c.args[0].args[0]
            return True
        return False
    out.append(witness("search without abs", PATH, no_abs, "R-C07-3", "stress"))

    def sec_grid(tree):
        m = find_func(tree, "Binned._create_bins_single_assessment_point")
        hits = [c for c in calls_in(m, name="np.arange")]
        for c in hits:
            if isinstance(c.args[1], ast.BinOp) and isinstance(c.args[1].left, ast.BinOp):
                c.args[1].left = c.args[1].left.right
                return True
        return False
    out.append(witness("secondary grid with N classes", PATH, sec_grid, "R-C07-6", "_create_bins_single"))

    def grid_formula(tree):
        m = find_func(tree, "Binned._create_bins_multiple_assessment_points")
        for s in ast.walk(m):
            if isinstance(s, ast.Assign) and isinstance(s.targets[0], ast.Name) and s.targets[0].id == "delta_load":
                s.value = ast.BinOp(left=s.value, op=ast.Mult(), right=ast.Constant(2))
                return True
        return False
    out.append(witness("multi-point secondary grid doubled", PATH, grid_formula, "R-C07-6", "_create_bins_multiple"))

    def swap_law(tree):
        m = find_func(tree, "Binned._create_bins_multiple_assessment_points")
        for c in calls_in(m, attr="stress_secondary_branch"):
            c.func.attr = "stress"
            return True
        return False
    out.append(witness("multi-point ctor fills delta_stress from primary law", PATH, swap_law, "R-C07-7"))

    def sort_tables(tree):
        m = find_func(tree, "Binned._create_bins_multiple_assessment_points")
        m.body.append(parse_stmt("self._lut_primary_branch = self._lut_primary_branch.sort_index()"))
        return True
    out.append(witness("per-point table re-sorted after construction", PATH, sort_tables, "R-C07-8"))

    def sort_inplace(tree):
        m = find_func(tree, "Binned._create_bins_multiple_assessment_points")
        m.body.append(parse_stmt("self._lut_secondary_branch.sort_index(inplace=True)"))
        return True
    out.append(witness("per-point table sorted in place", PATH, sort_inplace, "R-C07-8"))

    # ---- twins
    def both_offsets(tree):
        # remove the -1 and the +1 together in the scalar branch of stress
        m = find_func(tree, "Binned.stress")
        body = m.body[-1]
        while isinstance(body, ast.If) and body.orelse:
            last = body.orelse
            if len(last) == 1 and isinstance(last[0], ast.If):
                body = last[0]
            else:
                break
        blk = body.orelse
        assign = [s for s in blk if isinstance(s, ast.Assign)][0]
        assign.value = assign.value.left              # drop "-1"
        g = [s for s in blk if isinstance(s, ast.If)][0]
        cmp_ = [c for c in ast.walk(g.test) if isinstance(c, ast.Compare)][0]
        cmp_.left = ast.Name(id="index", ctx=ast.Load())
        r = [s for s in blk if isinstance(s, ast.Return)][0]
        for n in ast.walk(r):
            if isinstance(n, ast.Subscript) and isinstance(n.value, ast.Attribute) and n.value.attr == "iloc":
                n.slice = ast.Name(id="index", ctx=ast.Load())
        return True
    out.append(twin("drop -1 and +1 together", PATH, both_offsets))

    def rename_local(tree):
        m = find_func(tree, "Binned.strain")
        for n in ast.walk(m):
            if isinstance(n, ast.Name) and n.id == "index":
                n.id = "pos0"
            if isinstance(n, ast.Name) and n.id == "class_index":
                n.id = "cls_pos"
        return True
    out.append(twin("rename locals", PATH, rename_local))

    def guard_rewrite(tree):
        m = find_func(tree, "Binned.stress_secondary_branch")
        g = _guards(m)[2]
        for c in ast.walk(g.test):
            if isinstance(c, ast.Compare):
                # index+1 >= len(T)   ->   len(T) <= index + 1
                c.left, c.comparators = c.comparators[0], [c.left]
                c.ops = [ast.LtE()]
                return True
        return False
    out.append(twin("guard written as len <= index+1", PATH, guard_rewrite))

    def guard_gt(tree):
        m = find_func(tree, "Binned.strain_secondary_branch")
        g = _guards(m)[1]
        for c in ast.walk(g.test):
            if isinstance(c, ast.Compare):
                # index+1 >= len  ->  index + 2 > len
                c.left = ast.BinOp(left=ast.Name(id="index", ctx=ast.Load()), op=ast.Add(), right=ast.Constant(2))
                c.ops = [ast.Gt()]
                return True
        return False
    out.append(twin("guard written as index+2 > len", PATH, guard_gt))

    def grid_reorder(tree):
        m = find_func(tree, "Binned._create_bins_single_assessment_point")
        for s in ast.walk(m):
            if isinstance(s, ast.Assign) and isinstance(s.targets[0], ast.Attribute) and s.targets[0].attr == "load":
                s.value = parse_expr("self._maximum_absolute_load * (self._lut_primary_branch.index / self._number_of_bins)")
                return True
        return False
    out.append(twin("grid as max*(i/N)", PATH, grid_reorder))
    return out
