"""C18 — Woehler test-data analysis: permutation invariance (structural clauses)."""
from __future__ import annotations

import ast

from ..astutil import (call_name, calls_in, const_value, find_func, is_self_attr, names_in, parse_expr, parse_stmt,
                       replace_node, tuple_assign_pairs)
from ..frontend import AnalysisError, Program, Module, set_parents, walk_function, walk_stmts
from ..nf import to_nf, NFUnsupported, RF, Translator
from ..ordertable import parse_pred
from ..cfg import CFG
from ..dataflow import inline_env
from ..astutil import subst_names
from ..report import norm_text
from ..astutil import inline_single_defs
from ..witness import witness, twin

LEVEL = "other"
PKG = "pylife.materialdata.woehler."
MODS = [PKG + m for m in ("fatigue_data", "elementary", "probit", "maxlike", "likelihood", "pearl_chain")] + \
    ["pylife.utils.probability_data"]
EXPLANATION = (
    "Static decision of the permutation-invariance clause of C18 by an order-class (taint) analysis over the seven analysis "
    "modules. Every value gets an order class: ROW (row order of the fatigue frame and of its filtered views, carried by "
    "column access, masks, element-wise arithmetic, unique()), SORTED (np.sort, np.unique and the set operations), GROUPED "
    "(aggregates of a key-sorted groupby), LADDER (order-statistic probabilities from rossow_cumfreqs), CLEAN (reductions, "
    "lengths). Sinks, enumerated (the analysis is sound for this table only): constant positional access to a ROW value "
    "(iloc[k], values[k], [k], non-empty constant slices, head/tail/first/last/nth), cumulative/shift/rolling operators, "
    "drop_duplicates(keep=...), and handing a LADDER together with anything but a SORTED sequence to a pairwise consumer "
    "(regression / ProbabilityFit). groupby(sort=False) is a carrier, not a sink: arrays derived from one groupby stay "
    "pairwise aligned. R-C18-2: the finite and infinite zone masks are complementary in the load at one limit (order table). "
    "R-C18-3: TS = TN^(1/(-slope)) in the analysers agrees in normal form with the Woehler accessor's TS = TN^(1/k_1) for "
    "k_1 = -slope, and k_1 is reported as -slope. Not decided: scale equivariance through the optimisers, exact recovery of "
    "synthetic curves, likelihood ordering.")
EXPLANATION += (' R-C18-7: the endurance-limit likelihood reads only the infinite zone of the fatigue data.')
EXPLANATION += (' R-C18-6: no load or cycle quantity is compared with a non-zero constant in the analysis modules (unit dependence; built-in positive example).')
EXPLANATION += (' R-C18-2 also requires the reported transition to be the midpoint of the lowest finite-zone load and the highest run-out load. R-C18-4 (applied to the load unit and, likewise, to the cycle unit: cycles, ND): values that carry the unit of the load (load column, finite/infinite transition, SD, ...; interprocedural typing) meet numeric constants only as comparisons with zero - a non-zero threshold or clamp makes the result depend on the load unit. R-C18-5: no analysis function writes into a caller-provided argument and no mutable default argument is ever written (effect analysis through closures).')
EXPLANATION += (" R-C18-4 also treats rounding of a load- or cycle-typed value to a fixed number of digits or to whole numbers (round, np.round, floor, astype(int)) as a comparison with a fixed grid. R-C18-2 inlines the locals of the zone split and reports a zone selected by index labels (index.isin, drop, difference) instead of by the load of each test.")
EXPLANATION += (' R-C18-8: every stats.linregress call of the analysis modules is preceded by a test of the spread of its regressor (np.ptp, unique / nunique, max together with min) in the same function or in every entry point that reaches it: exact Basquin data have zero spread after the pearl-chain shift and a regression over coinciding abscissae is 0/0.')
EXPLANATION += (' R-C18-9: no function of the analysis modules writes a private attribute of an object other than self (zones and transition are derived by each fatigue data object from its own rows); zero instances expected, built-in example.')
EXPLANATION += (' R-C18-11 (shared state-family rules, sa/statefam.py): no constructor of the Woehler analysis classes keeps a property of the fatigue data (fractures, infinite_zone, ...) that is computed from the finite/infinite transition, which methods of FatigueData change after construction; the zones are read when the likelihood is evaluated.')
EXPLANATION += (" R-C18-1 also requires the data paired with the order-statistic ladder to be sorted without removing ties (np.sort / sort_values, not np.unique / drop_duplicates / set).")
ASSUMPTIONS = [
    "scipy.stats.linregress and sums are invariant under a common permutation of their paired arguments",
    "pandas groupby sorts group keys by default; np.unique and the 1-D set operations return sorted arrays",
]

from ..orders import Orders  # noqa: E402


def run(ctx):
    ctx.attempt(_r1)
    ctx.attempt(_r2)
    ctx.attempt(_r3)
    ctx.attempt(_r4)
    ctx.attempt(_r5)
    ctx.attempt(_r6)
    ctx.attempt(_r7)
    ctx.attempt(_r8)
    ctx.attempt(_r9)
    ctx.attempt(_r11_snapshots)


def _r11_snapshots(ctx):
    """R-C18-11 (state families, sa/statefam.py): the likelihood and the analyzers read the finite / infinite zones of the fatigue
    data WHEN they are evaluated.  A constructor that keeps `fatigue_data.infinite_zone` / `.finite_zone` (properties computed from
    the transition, which set_finite_infinite_transition() / conservative_finite_infinite_transition() change later) evaluates the
    likelihood on zones that are no longer the reported ones: 'the finite and infinite zones partition the tests at the reported
    transition' fails for analyse - change transition - analyse."""
    from .. import statefam
    prog = ctx.prog
    statefam.selftest()
    ctx.rule("R-C18-11", floor=3, what="no constructor in the Woehler analysis keeps zone data derived from the changeable transition")
    owners = [ci for k, ci in prog.classes.items() if ci.module.name == "pylife.materialdata.woehler.fatigue_data"]
    if not owners:
        raise AnalysisError("FatigueData class not found")
    for k, ci in sorted(prog.classes.items()):
        if not ci.module.name.startswith("pylife.materialdata.woehler") or ci in owners or "__init__" not in ci.methods:
            continue
        hits = statefam.constructor_snapshots(prog, ci, owners)
        for fi, st, kept, src, oc, changed in hits:
            ctx.violated(fi, st, "%s.__init__ keeps %s in self.%s; %s.%s is computed from self.%s, which methods of %s change after "
                         "construction: the object goes on working with the zones of construction time"
                         % (ci.name, src, kept, oc.name, src.split(".")[-1], ", self.".join(changed), oc.name), text="snapshot of " + src.split(".")[-1])
        if not hits:
            ctx.holds(ci.key, None, "%s.__init__ keeps the fatigue data object, not zone data derived from it" % ci.name)


SPREAD_FUNCS = ("np.ptp", "np.unique", "np.var", "np.std")
SPREAD_METHODS = ("unique", "nunique", "ptp", "var", "std")


def unguarded_regressions(fn_node):
    """stats.linregress(x, y) calls of a function whose regressor x is not subject to a spread test in the same function:
    a comparison that mentions np.ptp / unique / nunique / var / std of x (x through its single-definition locals and np.log10),
    or x.max() together with x.min()"""
    def norm_root(e):
        e = inline_single_defs(fn_node, e)
        for _ in range(6):
            if isinstance(e, ast.Call) and call_name(e) in ("np.log10", "np.log", "np.asarray", "np.array", "np.sort") and e.args:
                e = e.args[0]
            elif isinstance(e, ast.Call) and isinstance(e.func, ast.Attribute) and e.func.attr in ("to_numpy", "astype", "copy"):
                e = e.func.value
            elif isinstance(e, ast.Attribute) and e.attr == "values":
                e = e.value
            else:
                break
        return norm_text(e)
    out = []
    tests = [n for n in ast.walk(fn_node) if isinstance(n, ast.Compare)]
    for c in ast.walk(fn_node):
        if not (isinstance(c, ast.Call) and (call_name(c) or "").endswith("linregress") and c.args):
            continue
        x = norm_root(c.args[0])
        ok = False
        for t in tests:
            for m in ast.walk(t):
                if isinstance(m, ast.Call) and call_name(m) in SPREAD_FUNCS and m.args and norm_root(m.args[0]) == x:
                    ok = True
                elif isinstance(m, ast.Call) and isinstance(m.func, ast.Attribute) and m.func.attr in SPREAD_METHODS and \
                        norm_root(m.func.value) == x:
                    ok = True
            mm = {m.func.attr for m in ast.walk(t) if isinstance(m, ast.Call) and isinstance(m.func, ast.Attribute) and
                  m.func.attr in ("max", "min") and norm_root(m.func.value) == x}
            if mm == {"max", "min"}:
                ok = True
        if not ok:
            out.append((c, x))
    return out


def foreign_state_writes(fn_node):
    """stores into private attributes of an object other than self:  other._zone = ..., other._x[...] = ..."""
    out = []
    for st in ast.walk(fn_node):
        tg = st.targets if isinstance(st, ast.Assign) else [st.target] if isinstance(st, (ast.AugAssign, ast.AnnAssign)) else []
        for t in tg:
            for el in (t.elts if isinstance(t, (ast.Tuple, ast.List)) else [t]):
                base = el
                while isinstance(base, ast.Subscript):
                    base = base.value
                if isinstance(base, ast.Attribute) and base.attr.startswith("_") and not base.attr.startswith("__") and \
                        isinstance(base.value, ast.Name) and base.value.id not in ("self", "cls"):
                    out.append((st, base.value.id, base.attr))
    return out


def _r9(ctx):
    """R-C18-9: the zones and the transition of a FatigueData object are derived from the object's own rows (lazily, on first
    use).  Nothing writes these private attributes of ANOTHER object: a reduced copy that is handed the zones of the object it was
    cut from still contains the dropped rows in its infinite zone, and whether that happens depends on whether the original was
    looked at before - the analysis is then neither permutation invariant nor equivariant."""
    prog = ctx.prog
    ctx.rule("R-C18-9", floor=1, what="derived private state (zones, transition) of a fatigue data object is never written from outside the object")
    ex = ast.parse("def f(self, df):\n    r = FatigueData(df)\n    r._infinite_zone = self._infinite_zone\n    self._x = 1\n    return r\n").body[0]
    if [(o, a) for _, o, a in foreign_state_writes(ex)] != [("r", "_infinite_zone")]:
        raise AnalysisError("R-C18-9 built-in example not matched")
    n = 0
    m = 0
    for key, fi in sorted(prog.functions.items()):
        if fi.module.name not in MODS or fi.parent is not None:
            continue
        n += 1
        for st, obj, attr in foreign_state_writes(fi.node):
            m += 1
            ctx.violated(fi, st, "%s writes the private attribute %s of another object (%s): derived state (zones, transition) is "
                         "computed by each object from its own rows; copied onto a reduced copy it still describes the rows that "
                         "were dropped, and only if the original had been evaluated before" % (fi.name, attr, norm_text(st)[:60]),
                         text="foreign state %s.%s in %s" % (obj, attr, fi.name))
    if n < 10:
        raise AnalysisError("fewer than 10 analysis functions scanned")
    if not m:
        ctx.holds(PKG.rstrip("."), None, "%d functions: no private attribute of another object is written" % n)


def _r8(ctx):
    """R-C18-8: data lying exactly on a Basquin line have no scatter: shifted to one load level all cycle numbers coincide, and a
    regression over coinciding abscissae is 0/0 (scipy returns NaN, or, when the mean is not exactly representable, an
    arbitrary finite slope: TN = 3e-62 was observed).  Every regression of the analysis must therefore be preceded, in the same
    function or in every caller of it, by a test of the spread of its regressor (np.ptp(x) == 0, len(x.unique()) < 2,
    x.max() == x.min())."""
    prog = ctx.prog
    ctx.rule("R-C18-8", floor=2, what="every regression is preceded by a test of the spread of its regressor (exact data: zero spread)")
    ex = ast.parse("def f(self, o, p):\n    x = np.log10(o)\n    if np.ptp(x) == 0.0:\n        return np.inf\n"
                   "    return stats.linregress(x, p)[0]\n"
                   "def g(self, o, p):\n    return stats.linregress(np.log10(o), p)[0]\n")
    if unguarded_regressions(ex.body[0]) or len(unguarded_regressions(ex.body[1])) != 1:
        raise AnalysisError("R-C18-8 built-in example not matched")
    n = 0
    for key, fi in sorted(prog.functions.items()):
        if fi.module.name not in MODS or fi.parent is not None:
            continue
        regs = [c for c in calls_in(fi.node) if (call_name(c) or "").endswith("linregress")]
        if not regs:
            continue
        bad = unguarded_regressions(fi.node)
        for c in regs:
            n += 1
            hit = [x for c_, x in bad if c_ is c]
            if not hit:
                ctx.holds(fi, c, "%s: the regressor of %s is tested for zero spread in the function" % (fi.name, norm_text(c)[:60]))
                continue
            # guarded by the callers: every method of the class that (transitively, one level) calls fi tests the spread of
            # the same column before
            col = hit[0].split(".")[-1]
            callers = [g for g in prog.functions.values() if g.cls is fi.cls and g is not fi and g.cls is not None and
                       any(isinstance(k.func, ast.Attribute) and k.func.attr == fi.name for k in calls_in(g.node))]
            entry = []
            for g in callers:
                up = [h for h in prog.functions.values() if h.cls is fi.cls and h is not g and
                      any(isinstance(k.func, ast.Attribute) and k.func.attr == g.name for k in calls_in(h.node))]
                entry.extend(up or [g])
            def tests_spread(g):
                for t in ast.walk(g.node):
                    if isinstance(t, ast.Compare):
                        for m in ast.walk(t):
                            if isinstance(m, ast.Call) and isinstance(m.func, ast.Attribute) and m.func.attr in SPREAD_METHODS and \
                                    isinstance(m.func.value, ast.Attribute) and m.func.value.attr == col:
                                return True
                return False
            if entry and all(tests_spread(g) for g in entry):
                ctx.holds(fi, c, "%s: the spread of .%s is tested by every entry point that reaches the regression (%s)" %
                          (fi.name, col, ", ".join(sorted({g.name for g in entry}))))
            else:
                ctx.violated(fi, c, "%s: %s regresses on %s without a test of its spread: for data that lie exactly on the Basquin "
                             "line all abscissae coincide and the slope is 0/0 - NaN or an arbitrary number - so the reported "
                             "scatter is not 1" % (fi.name, norm_text(c)[:70], hit[0]), text="unguarded regression " + fi.name)
    if n < 2:
        raise AnalysisError("regressions of the Woehler analysis not found")


def _r7(ctx):
    """R-C18-7: the endurance-limit likelihood is taken over the tests of the infinite zone and nothing else: every row set
    `likelihood_infinite` takes from the fatigue data is the infinite zone (fractures and run-outs of that zone).  Run-outs that
    lie in no zone (below a manually set transition there are none, above it they belong to neither zone) must not enter."""
    prog = ctx.prog
    ctx.rule("R-C18-7", floor=1, what="likelihood_infinite reads only the infinite zone of the fatigue data")
    from ..inline import inlined
    f0 = prog.func(PKG + "likelihood:Likelihood.likelihood_infinite")
    f = inlined(prog, f0)
    reads = {}
    for n_ in ast.walk(f.node):
        if isinstance(n_, ast.Attribute) and is_self_attr(n_.value, "_fd"):
            reads.setdefault(n_.attr, n_)
    if "infinite_zone" not in reads:
        raise AnalysisError("likelihood_infinite: no read of the infinite zone found")
    other = sorted(a_ for a_ in reads if a_ not in ("infinite_zone",))
    if other:
        ctx.violated(f0, reads[other[0]], "likelihood_infinite also takes self._fd.%s: tests outside the infinite zone enter the "
                     "endurance-limit likelihood, the estimate is no longer the maximum over the zone the analysis reports"
                     % ", self._fd.".join(other), text="likelihood_infinite reads " + other[0])
    else:
        ctx.holds(f0, reads["infinite_zone"], "likelihood_infinite reads only self._fd.infinite_zone")


def _dimensional_thresholds(fn_node):
    """comparisons of a load / cycle quantity with a non-zero numeric literal (a count - len(), .shape[k], num_*, .nunique() - is
    not a quantity)"""
    def count_like(e):
        if isinstance(e, ast.Call) and (call_name(e) in ("len", "int") or (isinstance(e.func, ast.Attribute) and
                                                                         e.func.attr in ("count", "nunique", "sum") and False)):
            return True
        if isinstance(e, ast.Call) and isinstance(e.func, ast.Attribute) and e.func.attr in ("count", "nunique"):
            return True
        if isinstance(e, ast.Subscript) and isinstance(e.value, ast.Attribute) and e.value.attr == "shape":
            return True
        if isinstance(e, ast.Attribute) and (e.attr.startswith("num_") or e.attr.startswith("n_") or e.attr in ("size", "ndim")):
            return True
        return False
    out = []
    for n_ in ast.walk(fn_node):
        if isinstance(n_, ast.Compare) and len(n_.ops) == 1 and isinstance(n_.ops[0], (ast.Lt, ast.LtE, ast.Gt, ast.GtE)):
            for lit, other in ((n_.left, n_.comparators[0]), (n_.comparators[0], n_.left)):
                c = const_value(lit)
                if isinstance(other, ast.Name):             # a local holding a count is a count
                    other = inline_single_defs(fn_node, other)
                if isinstance(c, (int, float)) and not isinstance(c, bool) and c != 0 and not count_like(other):
                    t = norm_text(other).lower()
                    if ("cycle" in t or "load" in t) and "probab" not in t:
                        out.append(n_)
    return out


def _r6(ctx):
    """R-C18-6: the analysis has no threshold with a physical dimension: a load or cycle quantity is never compared with a
    non-zero constant.  The estimates are equivariant under a change of the load / cycle unit (cycles given in millions) only if
    every decision depends on ratios, orderings and exact equality of the data."""
    prog = ctx.prog
    ctx.rule("R-C18-6", floor=1, what="no comparison of a load or cycle quantity with a non-zero constant (unit dependence)")
    ex = ast.parse("def f(self, c):\n    if c.max() - c.min() < 1.0:\n        pass\n    if len(self._fd.load.unique()) < 2:\n        pass\n"
                   "    if finite_cycles.max() == finite_cycles.min():\n        pass\n"
                   "    if finite_fractures_cycles.max() - finite_fractures_cycles.min() < 1.0:\n        pass\n").body[0]
    if len(_dimensional_thresholds(ex)) != 1:
        raise AnalysisError("R-C18-6 built-in example not matched")
    n = 0
    for key, fi in sorted(prog.functions.items()):
        if not fi.module.name.startswith(PKG.rstrip(".")) or fi.parent is not None:
            continue
        n += 1
        for c in _dimensional_thresholds(fi.node):
            ctx.violated(fi, c, "%s compares a load / cycle quantity with a constant (%s): the decision changes when the data are "
                         "given in another unit (cycles in millions, loads in kN), so the estimates are not equivariant under "
                         "scaling" % (fi.name, norm_text(c)[:90]), text="dimensional threshold " + fi.name)
    if n < 10:
        raise AnalysisError("fewer than 10 analysis functions scanned")
    ctx.holds(PKG.rstrip("."), None, "no dimensional threshold in %d analysis functions" % n)


LOAD_ATTRS = ("load", "finite_infinite_transition", "fatigue_limit", "fractured_loads", "mixed_loads", "runout_loads",
              "non_fractured_loads", "SD")
LOAD_KEYS = ("SD", "SD_50", "load")


CYCLE_ATTRS = ("cycles", "ND", "finite_cycles", "max_cycles", "min_cycles")
CYCLE_KEYS = ("ND", "cycles", "ND_50")
CYCLE_NAMES = ("ND", "ND_50", "ND_start", "cycles", "N")


class LoadTyping:
    """Which expressions carry a given unit (scale with the load axis / with the cycle axis)?"""

    def __init__(self, prog, modules, attrs=None, keys=None, names=None):
        self.prog = prog
        self.modules = modules
        self.param = {}      # (func key, param) -> True
        self.attrs = attrs or LOAD_ATTRS
        self.keys = keys or LOAD_KEYS
        self.names = names or ("SD", "SD_50", "SD_start", "load", "loads", "fatigue_limit", "finite_infinite_transition")

    def is_load(self, e, env):
        if isinstance(e, ast.Name):
            return env.get(e.id, False)
        if isinstance(e, ast.Attribute):
            return e.attr in self.attrs or (e.attr in ("values", "iloc", "loc") and self.is_load(e.value, env))
        if isinstance(e, ast.Subscript):
            if isinstance(const_value(e.slice), str):
                return const_value(e.slice) in self.keys
            return self.is_load(e.value, env)
        if isinstance(e, ast.Call):
            fn = call_name(e) or ""
            if fn in ("np.asarray", "np.array", "float", "np.abs", "abs", "np.max", "np.min", "max", "min", "np.maximum",
                      "np.minimum", "np.clip", "np.unique", "np.sort", "np.mean", "np.median"):
                return any(self.is_load(a, env) for a in e.args)
            if isinstance(e.func, ast.Attribute) and e.func.attr in ("max", "min", "mean", "median", "unique", "to_numpy",
                                                                      "astype", "copy", "abs", "clip"):
                return self.is_load(e.func.value, env)
            return False
        if isinstance(e, ast.BinOp) and isinstance(e.op, (ast.Add, ast.Sub)):
            return self.is_load(e.left, env) or self.is_load(e.right, env)
        if isinstance(e, ast.IfExp):
            return self.is_load(e.body, env) or self.is_load(e.orelse, env)
        return False

    def env_of(self, fi):
        env = {p_: True for p_ in fi.params if self.param.get((fi.key, p_))}
        for p_ in fi.params:
            if p_ in self.names:
                env[p_] = True
        for _ in range(2):
            for st in walk_stmts(fi.node.body):
                if isinstance(st, ast.Assign):
                    for t, v in tuple_assign_pairs(st):
                        if isinstance(t, ast.Name) and self.is_load(v, env):
                            env[t.id] = True
        return env

    def run(self):
        funcs = [fi for fi in self.prog.functions.values() if fi.module.name in self.modules]
        for _ in range(3):
            for fi in funcs:
                env = self.env_of(fi)
                for c in calls_in(fi.node):
                    for key in self.prog.resolve_call(fi, c):
                        callee = self.prog.functions.get(key)
                        if callee is None:
                            continue
                        ps = [q for q in callee.params if q not in ("self", "cls")]
                        for i, a in enumerate(c.args):
                            if i < len(ps) and self.is_load(a, env):
                                self.param[(callee.key, ps[i])] = True
                        for k in c.keywords:
                            if k.arg in ps and self.is_load(k.value, env):
                                self.param[(callee.key, k.arg)] = True
        return funcs

    def sinks(self, fi):
        """(node, text, ok) for every place where a load-typed value meets a numeric constant in a comparison or clamp"""
        env = self.env_of(fi)
        out = []

        def num(e):
            v = const_value(e)
            if isinstance(e, ast.UnaryOp) and isinstance(e.op, ast.USub):
                v = const_value(e.operand)
                v = -v if isinstance(v, (int, float)) else None
            return v if isinstance(v, (int, float)) and not isinstance(v, bool) else None
        for n in ast.walk(fi.node):
            if isinstance(n, ast.Compare) and len(n.ops) == 1:
                l, r = n.left, n.comparators[0]
                for a, b in ((l, r), (r, l)):
                    if self.is_load(a, env) and num(b) is not None:
                        out.append((n, norm_text(n), num(b) == 0))
            elif isinstance(n, ast.Call):
                fn = call_name(n) or ""
                args = list(n.args) + [k.value for k in n.keywords if k.arg in ("a_min", "a_max", "lower", "upper")]
                is_clamp = fn in ("max", "min", "np.maximum", "np.minimum", "np.clip", "np.fmax", "np.fmin") or \
                    (isinstance(n.func, ast.Attribute) and n.func.attr == "clip")
                recv = [n.func.value] if isinstance(n.func, ast.Attribute) and n.func.attr == "clip" else []
                if is_clamp and any(self.is_load(a, env) for a in args + recv):
                    for a in args:
                        if num(a) is not None:
                            out.append((n, norm_text(n), num(a) == 0))
                # rounding to a fixed number of digits / to whole numbers is a comparison with a fixed grid of numbers
                is_round = fn in ("round", "np.round", "np.around", "np.floor", "np.ceil", "np.rint", "np.trunc", "np.fix", "int",
                                  "math.floor", "math.ceil")
                if is_round and n.args and self.is_load(n.args[0], env):
                    out.append((n, norm_text(n), False))
                if isinstance(n.func, ast.Attribute) and n.func.attr in ("round", "floor", "ceil") and \
                        self.is_load(n.func.value, env) and not fn.startswith(("np.", "math.")):
                    out.append((n, norm_text(n), False))
                if isinstance(n.func, ast.Attribute) and n.func.attr == "astype" and self.is_load(n.func.value, env) and n.args \
                        and norm_text(n.args[0]) in ("int", "np.int64", "np.int32", "'int'", "'int64'"):
                    out.append((n, norm_text(n), False))
        return out


def _r4(ctx):
    """Load-scale equivariance, structural part: a value that carries the unit of the load is compared or clamped only
    against other load-typed values or against zero.  A non-zero numeric threshold (max(SD, 0.1), SD < 1e-3, clip) makes the
    result depend on the unit the loads are given in."""
    prog = ctx.prog
    ctx.rule("R-C18-4", floor=2, what="load-typed values meet numeric constants only as comparisons with zero")
    lt = LoadTyping(prog, MODS)
    funcs = lt.run()
    n = 0
    typed = 0
    for fi in funcs:
        typed += len(lt.env_of(fi))
        for node, text, ok in lt.sinks(fi):
            n += 1
            if ok:
                ctx.holds(fi, node, "%s: load-typed value compared with zero only (%s)" % (fi.name, text))
            else:
                ctx.violated(fi, node, "%s: %s compares, clamps or rounds a value that carries the load unit against a fixed non-zero number / grid: "
                             "the analysis result changes when all loads are given in another unit (scaled)" % (fi.name, text),
                             text=text)
    ctx.holds(MODS[0], None, "%d load-typed locals/parameters traced over %d functions" % (typed, len(funcs)), {"typed": typed})
    # the same for the cycle axis (multiplying all cycle numbers by c must multiply the knee by c and change nothing else)
    ct = LoadTyping(prog, MODS, attrs=CYCLE_ATTRS, keys=CYCLE_KEYS, names=CYCLE_NAMES)
    cfuncs = ct.run()
    ctyped = 0
    for fi in cfuncs:
        ctyped += len(ct.env_of(fi))
        for node, text, ok in ct.sinks(fi):
            if ok:
                ctx.holds(fi, node, "%s: cycle-typed value compared with zero only (%s)" % (fi.name, text))
            else:
                ctx.violated(fi, node, "%s: %s compares or clamps a value that carries the cycle unit against a non-zero number: "
                             "the analysis result changes when all cycle numbers are given in another unit (e.g. mega-cycles)"
                             % (fi.name, text), text="cycles " + text)
    ctx.holds(MODS[0], None, "%d cycle-typed locals/parameters traced over %d functions" % (ctyped, len(cfuncs)), {"typed": ctyped})
    # positive example: the rule fires on a clamp and stays silent on the zero test
    from ..frontend import Program as _P
    src = ("class A:\n    def f(self):\n        x = self._fd.finite_infinite_transition\n        if x == 0:\n            x = 0.1\n"
           "        return max(x, 0.1)\n")
    p2 = _mini_program(src)
    lt2 = LoadTyping(p2, ["ex"])
    lt2.run()
    got = sorted(ok for _, _, ok in lt2.sinks(p2.functions["ex:A.f"]))
    if got != [False, True]:
        raise AnalysisError("load typing positive example failed: %s" % got)
    ctx.holds("selftest:positive-example", None, "load typing fires on max(x, 0.1) and accepts x == 0 in the built-in example")


def _mini_program(src):
    import ast as _a
    tree = set_parents(_a.parse(src))
    p = object.__new__(Program)
    p.root, p.overrides, p._base = "", {}, None
    p.modules = {"ex": Module("ex", "ex.py", src, tree, "0")}
    p.modules["ex"].pysource = src
    p.functions, p.classes, p.accessors, p._subclasses = {}, {}, {}, {}
    p._index()
    return p


def _r5(ctx):
    """No state leaks between analyses: no analysis function writes into one of its arguments (in particular not into a
    mutable default argument, which is shared by all later calls)."""
    from ..effects import Effects
    prog = ctx.prog
    ctx.rule("R-C18-5", floor=20, what="analysis functions do not write into their arguments; mutable defaults are never written")
    eff = Effects(prog)
    mods = [m for m in MODS if m.startswith(PKG)]
    n = 0
    for key, fi in sorted(prog.functions.items()):
        if fi.module.name not in mods or fi.parent is not None:
            continue
        summ = eff.summary(fi)
        if summ is None:
            raise AnalysisError("no effect summary for %s" % key)
        n += 1
        a = fi.node.args
        pos = a.posonlyargs + a.args
        defaults = dict(zip([x.arg for x in pos[len(pos) - len(a.defaults):]], a.defaults))
        defaults.update({x.arg: d for x, d in zip(a.kwonlyargs, a.kw_defaults) if d is not None})
        mutable = {k for k, d in defaults.items() if isinstance(d, (ast.Dict, ast.List, ast.Set)) or
                   (isinstance(d, ast.Call) and call_name(d) in ("dict", "list", "set"))}
        # caller-provided arguments: everything a public method receives, and what analyze(**kwargs) forwards to the
        # analysis hook (its first argument is the internally built result series)
        if not fi.name.startswith("_") or fi.name == "__init__":
            user = set(fi.params)
        elif fi.name == "_specific_analysis":
            user = set(fi.params[2:]) | {x.arg for x in a.kwonlyargs} | ({a.kwarg.arg} if a.kwarg else set())
        else:
            user = set()
        bad = [e for e in summ["effects"] if e.origin[0] in ("param", "elem") and (e.origin[1] in mutable or e.origin[1] in user)]
        if not bad:
            ctx.holds(fi, fi.node, "%s: no write reaches an argument%s" % (fi.name, " (mutable default: %s)" % ", ".join(sorted(mutable)) if mutable else ""))
        for e in bad:
            node = fi.node
            for st in walk_function(fi.node):
                if isinstance(st, ast.stmt) and getattr(st, "lineno", None) == e.lineno:
                    node = st
                    break
            ctx.violated(fi, node, "%s writes into its argument %s (%s)%s: the caller's object - and with a mutable default every "
                         "later analysis in the process - sees the change, so analysing the same data again gives another result"
                         % (fi.name, e.origin[1], e.kind, ", a mutable default" if e.origin[1] in mutable else ""),
                         text="%s %s" % (e.kind, e.origin[1]))


def _r1(ctx):
    prog = ctx.prog
    ctx.rule("R-C18-1", floor=4, what="no order-sensitive operation on row-ordered test data; ladders paired with sorted data")
    mods = [m for m in MODS if m in prog.modules]
    if len(mods) < 7:
        raise AnalysisError("analysis modules missing: %s" % sorted(set(MODS) - set(mods)))
    o = Orders(prog, set(mods))
    n = o.run()
    seen = set()
    for fi, s, node, msg in o.sinks:
        k = (fi.key, norm_text(node))
        if k in seen:
            continue
        seen.add(k)
        ctx.violated(fi, s, "%s: permuting the test rows would change the result" % msg, text=norm_text(node))
    ladders = 0
    pseen = set()
    for fi, s, call, ks in o.pairings:
        k = (fi.key, norm_text(call))
        if k in pseen:
            continue
        pseen.add(k)
        if "LADDER" in ks:
            ladders += 1
            other = [x for x in ks if x != "LADDER"]
            dedup = None
            if other == ["SORTED"]:
                argtexts = {norm_text(a) for a in call.args} | {norm_text(k.value) for k in call.keywords}
                for st_ in walk_function(fi.node):
                    if isinstance(st_, ast.Assign) and any(norm_text(t) in argtexts for t in st_.targets):
                        for c_ in ast.walk(st_.value):
                            if isinstance(c_, ast.Call) and ((call_name(c_) or "") in ("np.unique", "np.union1d", "np.intersect1d", "set", "frozenset", "pd.unique") or
                                                             (isinstance(c_.func, ast.Attribute) and c_.func.attr in ("unique", "drop_duplicates"))):
                                dedup = c_
            if other == ["SORTED"] and dedup is not None:
                ctx.violated(fi, s, "the data paired with the order-statistic probabilities are sorted by %s, which also REMOVES tied values: "
                             "n fractures need n ranks - specimens whose (shifted) cycle numbers coincide are dropped, data lying "
                             "exactly on a Basquin line can collapse to one point" % norm_text(dedup)[:60], text="ladder over de-duplicated data")
            elif other == ["SORTED"]:
                ctx.holds(fi, s, "order-statistic ladder is paired with sorted data in %s" % norm_text(call)[:70])
            else:
                ctx.violated(fi, s, "order-statistic probabilities are paired with %s data in %s: the i-th probability belongs "
                             "to the i-th smallest value, so the data must be sorted first" %
                             ((other[0] or "unclassified") if other else "?", norm_text(call)[:70]), text=norm_text(call))
        elif set(ks) <= {"ROW"} or set(ks) <= {"GROUPED"} or set(ks) <= {"ROWG"}:
            ctx.holds(fi, s, "pairwise consumer gets two %s-aligned arrays: %s" % (ks[0], norm_text(call)[:70]))
        elif None in ks and ("ROW" in ks or "ROWG" in ks) and not ({"GROUPED", "SORTED", "LADDER"} & set(ks)):
            ctx.holds(fi, s, "pairwise consumer: %s" % norm_text(call)[:70], {"classes": str(ks)})
        elif ("ROW" in ks or "ROWG" in ks) and ({"SORTED", "GROUPED"} & set(ks)):
            ctx.violated(fi, s, "pairwise consumer mixes %s and %s arguments in %s: they are not aligned under a permutation "
                         "of the test rows" % (ks[0], ks[1], norm_text(call)[:70]), text=norm_text(call))
        else:
            ctx.holds(fi, s, "pairwise consumer: %s" % norm_text(call)[:70], {"classes": str(ks)})
    if ladders < 1:
        raise AnalysisError("no order-statistic ladder pairing found (pearl chain)")
    if o.flows < 12:
        raise AnalysisError("only %d row-ordered flows seeded; expected >= 12" % o.flows)
    ctx.holds("pylife.materialdata.woehler", None, "%d functions in %d modules scanned, %d row-ordered flows, %d positional / "
              "order-sensitive uses" % (n, len(mods), o.flows, len(seen)))
    # positive example
    src = ("import numpy as np\nclass Elementary:\n    def f(self):\n        a = self._fd.fractures.cycles.iloc[0]\n"
           "        b = self._fd.fractures.load.cumsum()\n        c = np.sort(self._fd.fractures.cycles)[0]\n"
           "        d = self._fd.fractures.cycles.max()\n")
    tree = set_parents(ast.parse(src))
    p = object.__new__(Program)
    p.root, p.overrides, p._base = "", {}, None
    p.modules = {"x.elementary": Module("x.elementary", "ex.py", src, tree, "0")}
    p.modules["x.elementary"].pysource = src
    p.functions, p.classes, p.accessors, p._subclasses = {}, {}, {}, {}
    p._index()
    o2 = Orders(p, {"x.elementary"})
    o2.run()
    got = sorted({norm_text(nn) for _, _, nn, _ in o2.sinks})
    if got != ["self._fd.fractures.cycles.iloc[0]", "self._fd.fractures.load.cumsum()"]:
        raise AnalysisError("order-class positive example failed: %s" % got)
    ctx.holds("selftest:positive-example", None, "sinks fire on iloc[0]/cumsum of row data, not on sorted[0] or max()")


def _r2(ctx):
    prog = ctx.prog
    ctx.rule("R-C18-2", floor=2, what="finite and infinite zone masks are complementary at one limit")
    f = prog.func(PKG + "fatigue_data:FatigueData._calc_finite_zone_manual")
    lim = [p for p in f.params if p != "self"][0]
    masks = {}
    by_label = []
    cfg_ = CFG(f.node)
    for s in f.node.body:
        if isinstance(s, ast.Assign) and is_self_attr(s.targets[0]) and s.targets[0].attr in ("_finite_zone", "_infinite_zone"):
            env = inline_env(cfg_, s)
            env.pop("__ambiguous__", None)
            v = subst_names(s.value, env)
            labels = [n for n in ast.walk(v) if (isinstance(n, ast.Attribute) and n.attr == "index") or
                      (isinstance(n, ast.Call) and isinstance(n.func, ast.Attribute) and n.func.attr in ("drop", "difference", "reindex"))]
            if labels:
                by_label.append((s, v))
            elif isinstance(v, ast.Subscript) and isinstance(v.slice, ast.Compare):
                masks[s.targets[0].attr] = (s, v.slice, v)
    for s, v in by_label:
        ctx.violated(f, s, "%s is selected by index labels (%s), not by the load of each test: the index of the test data is the "
                     "caller's and need not be unique (concatenated series, a load or specimen index), so tests are dropped from or "
                     "duplicated in the zone" % (norm_text(s.targets[0]), norm_text(v)[:80]), text="zone by label " + s.targets[0].attr)
    if by_label:
        return
    if set(masks) != {"_finite_zone", "_infinite_zone"}:
        raise AnalysisError("_calc_finite_zone_manual: zone masks not found")

    def atom(e):
        if isinstance(e, ast.Attribute) and e.attr == "load":
            return "load"
        if isinstance(e, ast.Name):
            return e.id
        raise AnalysisError("zone mask term %s" % norm_text(e))
    p = parse_pred(masks["_finite_zone"][1], atom)
    q = parse_pred(masks["_infinite_zone"][1], atom)
    atoms = sorted(p.atoms | q.atoms)
    ok = atoms == sorted(["load", lim]) and all(a != b for a, b in zip(p.table(atoms), q.table(atoms)))
    fin_src = masks["_finite_zone"][2].value
    if ok and isinstance(fin_src, ast.Attribute) and fin_src.attr == "fractures":
        ctx.holds(f, masks["_infinite_zone"][0], "load > limit (fractures) and load <= limit (all tests) are complementary")
    else:
        ctx.violated(f, masks["_infinite_zone"][0], "zone masks %s / %s do not partition the tests at the transition" %
                     (norm_text(masks["_finite_zone"][1]), norm_text(masks["_infinite_zone"][1])))
    h = prog.func(PKG + "fatigue_data:FatigueData._half_level_above_highest_runout")
    from ..absint import Interp, TermDomain, term_alternatives
    tv = Interp(prog, TermDomain(), follow=lambda c_: False).run(h, [])
    want = {("m", ("attr", ("self", "_finite_zone"), "load"), "min", (), ()), ("self", "max_runout_load")}
    mids = []
    for alt in term_alternatives(tv):
        if isinstance(alt, tuple) and len(alt) == 4 and alt[:2] == ("op", "/") and alt[3] in (("c", 2), ("c", 2.0)) and \
                isinstance(alt[2], tuple) and alt[2][:2] == ("op", "+"):
            mids.append({alt[2][2], alt[2][3]})
    rets = [x for x in walk_function(h.node) if isinstance(x, ast.Return) and x.value is not None]
    if mids and all(m_ == want for m_ in mids):
        ctx.holds(h, rets[0], "reported transition = midpoint of the lowest finite-zone load and the highest run-out load: it lies "
                  "between the two zones the split produced")
    elif mids:
        ctx.violated(h, rets[0] if rets else h.node, "the reported transition is the midpoint of %r, not of the lowest load of the "
                     "finite zone and the highest run-out load: tests of the infinite zone can lie above the reported transition"
                     % (sorted(mids[0], key=repr),), text="transition midpoint")
    else:
        ctx.violated(h, rets[0] if rets else h.node, "the reported transition is not the midpoint between the lowest load of the "
                     "finite zone and the highest run-out load: tests of the infinite zone can lie above the reported transition",
                     text="transition midpoint")
    g = prog.func(PKG + "fatigue_data:FatigueData._calc_finite_zone")
    c = [c for c in calls_in(g.node) if isinstance(c.func, ast.Attribute) and c.func.attr == "_calc_finite_zone_manual"]
    ok_arg = len(c) == 1 and is_self_attr(c[0].args[0], "max_runout_load")
    if len(c) == 1 and not ok_arg:
        # the property written out in place: runouts = self.runouts ... runouts.load.max()
        from ..astutil import inline_single_defs
        prop = prog.lookup_method(g.cls, "max_runout_load")
        pr = [x for x in walk_function(prop.node) if isinstance(x, ast.Return) and x.value is not None] if prop is not None else []
        arg = inline_single_defs(g.node, c[0].args[0], depth=3)
        ok_arg = len(pr) == 1 and norm_text(arg) == norm_text(inline_single_defs(prop.node, pr[0].value, depth=3))
    if ok_arg:
        ctx.holds(g, c[0], "automatic split uses the highest run-out level")
    else:
        ctx.violated(g, c[0] if c else g.node, "automatic zone split is not made at the highest run-out level")


def _r3(ctx):
    prog = ctx.prog
    ctx.rule("R-C18-3", floor=2, what="TS = TN^(1/(-slope)) agrees with the Woehler accessor's TS = TN^(1/k_1), k_1 = -slope")
    f = prog.func(PKG + "elementary:Elementary._pearl_chain_method")
    from ..absint import Interp, TermDomain, Seq, term_alternatives, term_to_ast as _t2a
    ret = [s for s in f.node.body if isinstance(s, ast.Return)]
    val = Interp(prog, TermDomain(), follow=lambda c_: False).run(f, [("p", q) for q in f.params if q != "self"])
    alts = [a_ for a_ in term_alternatives(val) if isinstance(a_, Seq) and len(a_) == 2]
    if len(alts) != 1 or not ret:
        raise AnalysisError("_pearl_chain_method: (TN, TS) return not found")
    tn_t, ts_t = alts[0]
    ts = [ret[-1]]

    def with_tn(t):
        if t == tn_t:
            return ("p", "TN")
        if isinstance(t, tuple) and len(t) == 2 and t[0] == "self" and t[1] == "_slope":
            return ("p", "slope")
        return tuple(with_tn(x) if isinstance(x, tuple) else x for x in t) if isinstance(t, tuple) else t
    try:
        got = to_nf(_t2a(with_tn(ts_t)), atom=lambda e: e.id if isinstance(e, ast.Name) else None)
    except (NFUnsupported, ValueError) as e:
        raise AnalysisError("_pearl_chain_method: TS outside the fragment: %s" % e)
    from .c08 import scatter_table
    from ..absint import term_to_ast
    v, table, is_tn, is_ts = scatter_table(prog)
    k1 = -RF.sym("slope")

    def named(t):
        if is_tn(t):
            return ("p", "TN")
        if isinstance(t, tuple) and len(t) == 3 and t[0] == "attr" and t[2] == "k_1":
            return ("p", "k_1")
        if isinstance(t, tuple) and t and t[0] == "call" and t[1] in ("np.power", "np.float_power", "pow") and len(t[2]) == 2:
            return ("op", "**", named(t[2][0]), named(t[2][1]))
        return tuple(named(x) if isinstance(x, tuple) else x for x in t) if isinstance(t, tuple) else t
    try:
        want = to_nf(term_to_ast(named(table[(False, True)][1])),
                     atom=lambda e: (k1 if e.id == "k_1" else e.id) if isinstance(e, ast.Name) else None)
    except (NFUnsupported, ValueError) as e:
        raise AnalysisError("WoehlerCurve._validate: TS conversion outside the fragment: %s" % e)
    if got == want:
        ctx.holds(f, ts[0], "TS = TN^(1/-slope) == accessor's TN^(1/k_1) with k_1 = -slope")
    else:
        ctx.violated(f, ts[0], "analyser computes TS = %r, the Woehler accessor defines TS = %r for k_1 = -slope" % (got, want))
    c = prog.func(PKG + "elementary:Elementary._common_analysis")
    d = [n for n in ast.walk(c.node) if isinstance(n, ast.Dict)]
    ok = False
    unp = [s_ for s_ in walk_function(c.node) if isinstance(s_, ast.Assign) and isinstance(s_.targets[0], ast.Tuple) and
           isinstance(s_.value, ast.Call) and is_self_attr(s_.value.func, "_pearl_chain_method") and len(s_.targets[0].elts) == 2
           and all(isinstance(x, ast.Name) for x in s_.targets[0].elts)]
    if d and len(unp) == 1:
        a_tn, a_ts = (x.id for x in unp[0].targets[0].elts)
        m = {const_value(k): v for k, v in zip(d[0].keys, d[0].values)}
        try:
            ok = to_nf(m["k_1"], atom=lambda e: "slope" if is_self_attr(e, "_slope") else None) == k1 and isinstance(m["TN"], ast.Name) and isinstance(m["TS"], ast.Name) and \
                m["TN"].id == a_tn and m["TS"].id == a_ts
        except (KeyError, NFUnsupported):
            ok = False
    if ok:
        ctx.holds(c, d[0], "reported k_1 = -slope, TN/TS from the pearl chain")
    else:
        ctx.violated(c, d[0] if d else c.node, "reported curve does not use k_1 = -slope with the pearl-chain TN/TS")


# =========================================================================== variants

PC = "src/pylife/materialdata/woehler/pearl_chain.py"
EL = "src/pylife/materialdata/woehler/elementary.py"
FD = "src/pylife/materialdata/woehler/fatigue_data.py"
PB = "src/pylife/materialdata/woehler/probit.py"


def variants():
    out = []

    def no_spread_test(tree):
        f = find_func(tree, "ProbabilityFit.__init__")
        for i_, st in enumerate(f.body):
            if isinstance(st, ast.If) and any(isinstance(c_, ast.Call) and (call_name(c_) or "").endswith("linregress")
                                               for c_ in ast.walk(st)):
                reg = [x for x in ast.walk(st) if isinstance(x, ast.Assign) and isinstance(x.value, ast.Call) and
                       (call_name(x.value) or "").endswith("linregress")]
                f.body[i_:i_ + 1] = reg[:1]
                return True
        return False
    out.append(witness("probability fit regresses without a spread test", "src/pylife/utils/probability_data.py", no_spread_test, "R-C18-8"))

    def spread_by_minmax(tree):
        f = find_func(tree, "ProbabilityFit.__init__")
        for st in ast.walk(f):
            if isinstance(st, ast.If) and isinstance(st.test, ast.Compare) and "ptp" in ast.unparse(st.test):
                st.test = parse_expr("lg_occurrences.max() == lg_occurrences.min()")
                return True
        return False
    out.append(twin("spread test written as max == min", "src/pylife/utils/probability_data.py", spread_by_minmax))

    def nd_threshold(tree):
        f = find_func(tree, "Likelihood.likelihood_finite")
        for n in ast.walk(f):
            if isinstance(n, ast.If) and "SD" in ast.unparse(n.test):
                n.test = parse_expr(ast.unparse(n.test) + " or ND < 1.0")
                return True
        return False
    out.append(witness("likelihood rejects a knee below one cycle", "src/pylife/materialdata/woehler/likelihood.py", nd_threshold, "R-C18-4"))

    def transition_other_set(tree):
        f = find_func(tree, "FatigueData._half_level_above_highest_runout")
        for n in ast.walk(f):
            if isinstance(n, ast.Attribute) and n.attr == "_finite_zone" and isinstance(n._parent, ast.Attribute):
                n.attr = "fractures"
                return True
        return False
    out.append(witness("transition midpoint from all fractures instead of the finite zone", FD, transition_other_set, "R-C18-2"))

    def clamp_transition(tree):
        f = find_func(tree, "Elementary._transition_cycles")
        f.body = [parse_stmt("finite_infinite_transition = max(finite_infinite_transition, 0.1)")] + \
            [x for x in f.body if isinstance(x, ast.Return)]
        return True
    out.append(witness("transition load clamped at 0.1", "src/pylife/materialdata/woehler/elementary.py", clamp_transition, "R-C18-4"))

    def default_written(tree):
        f = find_func(tree, "MaxLikeFull.__max_likelihood_full")
        for n in ast.walk(f):
            if isinstance(n, ast.FunctionDef) and n.name == "warn_and_fix_if_less_than_two_mixed_levels":
                blk = [x for x in n.body if isinstance(x, ast.If)][0]
                blk.body = [x for x in blk.body if not (isinstance(x, ast.Assign) and "copy" in ast.unparse(x))]
                blk.body = [x if not (isinstance(x, ast.Expr) and "update" in ast.unparse(x)) else parse_stmt("fixed_prms['TS'] = TS")
                            for x in blk.body]
                return True
        return False
    out.append(witness("fallback scatter written into the shared default dict", "src/pylife/materialdata/woehler/maxlike.py",
                       default_written, "R-C18-5"))

    def no_sort(tree):
        f = find_func(tree, "PearlChainProbability.__init__")
        for c in calls_in(f, name="np.sort"):
            return replace_node(c, c.args[0])
        return False
    out.append(witness("np.sort removed in the pearl chain", PC, no_sort, "R-C18-1"))

    def first_row(tree):
        f = find_func(tree, "FatigueData._guess_from_second_highest_runout")
        for c in calls_in(f, name="np.sort"):
            return replace_node(c, c.args[0])
        return False
    out.append(witness("second-highest load from unsorted unique()", FD, first_row, "R-C18-1"))

    def iloc0(tree):
        f = find_func(tree, "Elementary._transition_cycles")
        f.body.insert(0, parse_stmt("ref = self._fd.finite_zone.load.iloc[0]"))
        return True
    out.append(witness("reference load taken from the first row", EL, iloc0, "R-C18-1"))

    def cumsum(tree):
        f = find_func(tree, "Elementary._fit_slope")
        f.body.insert(0, parse_stmt("w = self._finite_fractures.cycles.cumsum()"))
        return True
    out.append(witness("cumulative sum over the rows", EL, cumsum, "R-C18-1"))

    def mixed_pair(tree):
        f = find_func(tree, "Elementary._fit_slope")
        for c in calls_in(f, name="stats.linregress"):
            c.args[1] = parse_expr("np.sort(np.log10(self._finite_fractures.cycles))")
            return True
        return False
    out.append(witness("regression pairs row-ordered loads with sorted cycles", EL, mixed_pair, "R-C18-1"))

    def dedup(tree):
        f = find_func(tree, "FatigueData.conservative_finite_infinite_transition")
        f.body.insert(0, parse_stmt("levels = self._obj.load.drop_duplicates()"))
        return True
    out.append(witness("drop_duplicates keeps the first row", FD, dedup, "R-C18-1"))

    def overlap(tree):
        f = find_func(tree, "FatigueData._calc_finite_zone_manual")
        for n in ast.walk(f):
            if isinstance(n, ast.Compare) and isinstance(n.ops[0], ast.Gt):
                n.ops = [ast.GtE()]
                return True
        return False
    out.append(witness("zones overlap at the limit", FD, overlap, "R-C18-2"))

    def gap(tree):
        f = find_func(tree, "FatigueData._calc_finite_zone_manual")
        for n in ast.walk(f):
            if isinstance(n, ast.Compare) and isinstance(n.ops[0], ast.LtE):
                n.ops = [ast.Lt()]
                return True
        return False
    out.append(witness("tests at the limit in neither zone", FD, gap, "R-C18-2"))

    def ts_sign(tree):
        f = find_func(tree, "Elementary._pearl_chain_method")
        for s in f.body:
            if isinstance(s, ast.Assign) and isinstance(s.targets[0], ast.Name) and s.targets[0].id == "TS":
                s.value = parse_expr("TN ** (1.0 / self._slope)")
                return True
        return False
    out.append(witness("TS = TN^(1/slope)", EL, ts_sign, "R-C18-3"))

    def k_sign(tree):
        f = find_func(tree, "Elementary._common_analysis")
        for n in ast.walk(f):
            if isinstance(n, ast.Dict):
                for i, k in enumerate(n.keys):
                    if const_value(k) == "k_1":
                        n.values[i] = parse_expr("self._slope")
                        return True
        return False
    out.append(witness("k_1 reported as +slope", EL, k_sign, "R-C18-3"))

    # twins
    def group_nosort(tree):
        f = find_func(tree, "Probit._specific_analysis")
        for c in calls_in(f, attr="groupby"):
            c.keywords.append(ast.keyword(arg="sort", value=ast.Constant(False)))
            return True
        return False
    out.append(twin("groupby('load', sort=False) in Probit (aligned carrier)", PB, group_nosort))

    def sort_values(tree):
        f = find_func(tree, "PearlChainProbability.__init__")
        for c in calls_in(f, name="np.sort"):
            new = parse_expr("x.sort_values().to_numpy()")
            new.func.value.func.value = c.args[0]
            return replace_node(c, new)
        return False
    out.append(twin("sort_values() instead of np.sort", PC, sort_values))

    def mask_swapped(tree):
        f = find_func(tree, "FatigueData._calc_finite_zone_manual")
        for n in ast.walk(f):
            if isinstance(n, ast.Compare) and isinstance(n.ops[0], ast.Gt):
                n.left, n.comparators = n.comparators[0], [n.left]
                n.ops = [ast.Lt()]
                return True
        return False
    out.append(twin("finite mask written as limit < load", FD, mask_swapped))
    return out
