"""C18 — Woehler test-data analysis: permutation invariance (structural clauses)."""
from __future__ import annotations

import ast

from ..astutil import (call_name, calls_in, const_value, find_func, is_self_attr, names_in, parse_expr, parse_stmt,
                       replace_node, tuple_assign_pairs)
from ..frontend import AnalysisError, Program, Module, set_parents, walk_function, walk_stmts
from ..nf import to_nf, NFUnsupported, RF, Translator
from ..ordertable import parse_pred
from ..report import norm_text
from ..witness import witness, twin

LEVEL = "other"
PKG = "pylife.materialdata.woehler."
MODS = [PKG + m for m in ("fatigue_data", "elementary", "probit", "maxlike", "likelihood", "pearl_chain")] + \
    ["pylife.utils.probability_data"]
EXPLANATION = (
    "Static decision of the permutation-invariance clause of C18 by an order-class (taint) analysis over the seven analysis "
    "modules. Every value gets an order class: ROW (row order of the fatigue frame and of its filtered views, carried by "
    "column access, masks, element-wise arithmetic, unique()), SORTED (np.sort, np.unique and the set operations), GROUPED "
    "(aggregates of a key-sorted groupby), LADDER (order-statistic probabilities from rossow_cumfreqs), CLEAN (reductions, "
    "lengths). Sinks, enumerated (the analysis is sound for this table only): constant positional access to a ROW value "
    "(iloc[k], values[k], [k], non-empty constant slices, head/tail/first/last/nth), cumulative/shift/rolling operators, "
    "drop_duplicates(keep=...), and handing a LADDER together with anything but a SORTED sequence to a pairwise consumer "
    "(regression / ProbabilityFit). groupby(sort=False) is a carrier, not a sink: arrays derived from one groupby stay "
    "pairwise aligned. R-C18-2: the finite and infinite zone masks are complementary in the load at one limit (order table). "
    "R-C18-3: TS = TN^(1/(-slope)) in the analysers agrees in normal form with the Woehler accessor's TS = TN^(1/k_1) for "
    "k_1 = -slope, and k_1 is reported as -slope. Not decided: scale equivariance through the optimisers, exact recovery of "
    "synthetic curves, likelihood ordering.")
ASSUMPTIONS = [
    "scipy.stats.linregress and sums are invariant under a common permutation of their paired arguments",
    "pandas groupby sorts group keys by default; np.unique and the 1-D set operations return sorted arrays",
]

from ..orders import Orders  # noqa: E402


def run(ctx):
    ctx.attempt(_r1)
    ctx.attempt(_r2)
    ctx.attempt(_r3)


def _r1(ctx):
    prog = ctx.prog
    ctx.rule("R-C18-1", floor=4, what="no order-sensitive operation on row-ordered test data; ladders paired with sorted data")
    mods = [m for m in MODS if m in prog.modules]
    if len(mods) < 7:
        raise AnalysisError("analysis modules missing: %s" % sorted(set(MODS) - set(mods)))
    o = Orders(prog, set(mods))
    n = o.run()
    seen = set()
    for fi, s, node, msg in o.sinks:
        k = (fi.key, norm_text(node))
        if k in seen:
            continue
        seen.add(k)
        ctx.violated(fi, s, "%s: permuting the test rows would change the result" % msg, text=norm_text(node))
    ladders = 0
    pseen = set()
    for fi, s, call, ks in o.pairings:
        k = (fi.key, norm_text(call))
        if k in pseen:
            continue
        pseen.add(k)
        if "LADDER" in ks:
            ladders += 1
            other = [x for x in ks if x != "LADDER"]
            if other == ["SORTED"]:
                ctx.holds(fi, s, "order-statistic ladder is paired with sorted data in %s" % norm_text(call)[:70])
            else:
                ctx.violated(fi, s, "order-statistic probabilities are paired with %s data in %s: the i-th probability belongs "
                             "to the i-th smallest value, so the data must be sorted first" %
                             ((other[0] or "unclassified") if other else "?", norm_text(call)[:70]), text=norm_text(call))
        elif set(ks) <= {"ROW"} or set(ks) <= {"GROUPED"} or set(ks) <= {"ROWG"}:
            ctx.holds(fi, s, "pairwise consumer gets two %s-aligned arrays: %s" % (ks[0], norm_text(call)[:70]))
        elif None in ks and ("ROW" in ks or "ROWG" in ks) and not ({"GROUPED", "SORTED", "LADDER"} & set(ks)):
            ctx.holds(fi, s, "pairwise consumer: %s" % norm_text(call)[:70], {"classes": str(ks)})
        elif ("ROW" in ks or "ROWG" in ks) and ({"SORTED", "GROUPED"} & set(ks)):
            ctx.violated(fi, s, "pairwise consumer mixes %s and %s arguments in %s: they are not aligned under a permutation "
                         "of the test rows" % (ks[0], ks[1], norm_text(call)[:70]), text=norm_text(call))
        else:
            ctx.holds(fi, s, "pairwise consumer: %s" % norm_text(call)[:70], {"classes": str(ks)})
    if ladders < 1:
        raise AnalysisError("no order-statistic ladder pairing found (pearl chain)")
    if o.flows < 12:
        raise AnalysisError("only %d row-ordered flows seeded; expected >= 12" % o.flows)
    ctx.holds("pylife.materialdata.woehler", None, "%d functions in %d modules scanned, %d row-ordered flows, %d positional / "
              "order-sensitive uses" % (n, len(mods), o.flows, len(seen)))
    # positive example
    src = ("import numpy as np\nclass Elementary:\n    def f(self):\n        a = self._fd.fractures.cycles.iloc[0]\n"
           "        b = self._fd.fractures.load.cumsum()\n        c = np.sort(self._fd.fractures.cycles)[0]\n"
           "        d = self._fd.fractures.cycles.max()\n")
    tree = set_parents(ast.parse(src))
    p = object.__new__(Program)
    p.root, p.overrides, p._base = "", {}, None
    p.modules = {"x.elementary": Module("x.elementary", "ex.py", src, tree, "0")}
    p.modules["x.elementary"].pysource = src
    p.functions, p.classes, p.accessors, p._subclasses = {}, {}, {}, {}
    p._index()
    o2 = Orders(p, {"x.elementary"})
    o2.run()
    got = sorted({norm_text(nn) for _, _, nn, _ in o2.sinks})
    if got != ["self._fd.fractures.cycles.iloc[0]", "self._fd.fractures.load.cumsum()"]:
        raise AnalysisError("order-class positive example failed: %s" % got)
    ctx.holds("selftest:positive-example", None, "sinks fire on iloc[0]/cumsum of row data, not on sorted[0] or max()")


def _r2(ctx):
    prog = ctx.prog
    ctx.rule("R-C18-2", floor=1, what="finite and infinite zone masks are complementary at one limit")
    f = prog.func(PKG + "fatigue_data:FatigueData._calc_finite_zone_manual")
    lim = [p for p in f.params if p != "self"][0]
    masks = {}
    for s in f.node.body:
        if isinstance(s, ast.Assign) and is_self_attr(s.targets[0]) and isinstance(s.value, ast.Subscript) and \
                isinstance(s.value.slice, ast.Compare):
            masks[s.targets[0].attr] = (s, s.value.slice)
    if set(masks) != {"_finite_zone", "_infinite_zone"}:
        raise AnalysisError("_calc_finite_zone_manual: zone masks not found")

    def atom(e):
        if isinstance(e, ast.Attribute) and e.attr == "load":
            return "load"
        if isinstance(e, ast.Name):
            return e.id
        raise AnalysisError("zone mask term %s" % norm_text(e))
    p = parse_pred(masks["_finite_zone"][1], atom)
    q = parse_pred(masks["_infinite_zone"][1], atom)
    atoms = sorted(p.atoms | q.atoms)
    ok = atoms == sorted(["load", lim]) and all(a != b for a, b in zip(p.table(atoms), q.table(atoms)))
    fin_src = masks["_finite_zone"][0].value.value
    if ok and isinstance(fin_src, ast.Attribute) and fin_src.attr == "fractures":
        ctx.holds(f, masks["_infinite_zone"][0], "load > limit (fractures) and load <= limit (all tests) are complementary")
    else:
        ctx.violated(f, masks["_infinite_zone"][0], "zone masks %s / %s do not partition the tests at the transition" %
                     (norm_text(masks["_finite_zone"][1]), norm_text(masks["_infinite_zone"][1])))
    g = prog.func(PKG + "fatigue_data:FatigueData._calc_finite_zone")
    c = [c for c in calls_in(g.node) if isinstance(c.func, ast.Attribute) and c.func.attr == "_calc_finite_zone_manual"]
    if len(c) == 1 and is_self_attr(c[0].args[0], "max_runout_load"):
        ctx.holds(g, c[0], "automatic split uses the highest run-out level")
    else:
        ctx.violated(g, c[0] if c else g.node, "automatic zone split is not made at the highest run-out level")


def _r3(ctx):
    prog = ctx.prog
    ctx.rule("R-C18-3", floor=2, what="TS = TN^(1/(-slope)) agrees with the Woehler accessor's TS = TN^(1/k_1), k_1 = -slope")
    f = prog.func(PKG + "elementary:Elementary._pearl_chain_method")
    ts = [s for s in f.node.body if isinstance(s, ast.Assign) and isinstance(s.targets[0], ast.Name) and s.targets[0].id == "TS"]
    if len(ts) != 1:
        raise AnalysisError("_pearl_chain_method: TS definition not found")

    def atom(e):
        if is_self_attr(e, "_slope"):
            return "slope"
        if isinstance(e, ast.Name):
            return e.id
        return None
    got = to_nf(ts[0].value, atom=atom)
    v = prog.func("pylife.materiallaws.woehlercurve:WoehlerCurve._validate")
    wts = [s for s in walk_function(v.node) if isinstance(s, ast.Assign) and is_self_attr(s.targets[0], "_TS") and
           any(is_self_attr(n, "_TN") for n in ast.walk(s.value))]
    if len(wts) != 1:
        raise AnalysisError("WoehlerCurve._validate: TS conversion not found")
    k1 = -RF.sym("slope")

    def watom(e):
        if is_self_attr(e, "_TN"):
            return "TN"
        if isinstance(e, ast.Attribute) and e.attr == "k_1":
            return k1
        return None
    want = to_nf(wts[0].value, atom=watom)
    if got == want:
        ctx.holds(f, ts[0], "TS = TN^(1/-slope) == accessor's TN^(1/k_1) with k_1 = -slope")
    else:
        ctx.violated(f, ts[0], "analyser computes TS = %r, the Woehler accessor defines TS = %r for k_1 = -slope" % (got, want))
    c = prog.func(PKG + "elementary:Elementary._common_analysis")
    d = [n for n in ast.walk(c.node) if isinstance(n, ast.Dict)]
    ok = False
    if d:
        m = {const_value(k): v for k, v in zip(d[0].keys, d[0].values)}
        try:
            ok = to_nf(m["k_1"], atom=atom) == k1 and isinstance(m["TN"], ast.Name) and isinstance(m["TS"], ast.Name) and \
                m["TN"].id == "TN" and m["TS"].id == "TS"
        except (KeyError, NFUnsupported):
            ok = False
    if ok:
        ctx.holds(c, d[0], "reported k_1 = -slope, TN/TS from the pearl chain")
    else:
        ctx.violated(c, d[0] if d else c.node, "reported curve does not use k_1 = -slope with the pearl-chain TN/TS")


# =========================================================================== variants

PC = "src/pylife/materialdata/woehler/pearl_chain.py"
EL = "src/pylife/materialdata/woehler/elementary.py"
FD = "src/pylife/materialdata/woehler/fatigue_data.py"
PB = "src/pylife/materialdata/woehler/probit.py"


def variants():
    out = []

    def no_sort(tree):
        f = find_func(tree, "PearlChainProbability.__init__")
        for c in calls_in(f, name="np.sort"):
            return replace_node(c, c.args[0])
        return False
    out.append(witness("np.sort removed in the pearl chain", PC, no_sort, "R-C18-1"))

    def first_row(tree):
        f = find_func(tree, "FatigueData._guess_from_second_highest_runout")
        for c in calls_in(f, name="np.sort"):
            return replace_node(c, c.args[0])
        return False
    out.append(witness("second-highest load from unsorted unique()", FD, first_row, "R-C18-1"))

    def iloc0(tree):
        f = find_func(tree, "Elementary._transition_cycles")
        f.body.insert(0, parse_stmt("ref = self._fd.finite_zone.load.iloc[0]"))
        return True
    out.append(witness("reference load taken from the first row", EL, iloc0, "R-C18-1"))

    def cumsum(tree):
        f = find_func(tree, "Elementary._fit_slope")
        f.body.insert(0, parse_stmt("w = self._finite_fractures.cycles.cumsum()"))
        return True
    out.append(witness("cumulative sum over the rows", EL, cumsum, "R-C18-1"))

    def mixed_pair(tree):
        f = find_func(tree, "Elementary._fit_slope")
        for c in calls_in(f, name="stats.linregress"):
            c.args[1] = parse_expr("np.sort(np.log10(self._finite_fractures.cycles))")
            return True
        return False
    out.append(witness("regression pairs row-ordered loads with sorted cycles", EL, mixed_pair, "R-C18-1"))

    def dedup(tree):
        f = find_func(tree, "FatigueData.conservative_finite_infinite_transition")
        f.body.insert(0, parse_stmt("levels = self._obj.load.drop_duplicates()"))
        return True
    out.append(witness("drop_duplicates keeps the first row", FD, dedup, "R-C18-1"))

    def overlap(tree):
        f = find_func(tree, "FatigueData._calc_finite_zone_manual")
        for n in ast.walk(f):
            if isinstance(n, ast.Compare) and isinstance(n.ops[0], ast.Gt):
                n.ops = [ast.GtE()]
                return True
        return False
    out.append(witness("zones overlap at the limit", FD, overlap, "R-C18-2"))

    def gap(tree):
        f = find_func(tree, "FatigueData._calc_finite_zone_manual")
        for n in ast.walk(f):
            if isinstance(n, ast.Compare) and isinstance(n.ops[0], ast.LtE):
                n.ops = [ast.Lt()]
                return True
        return False
    out.append(witness("tests at the limit in neither zone", FD, gap, "R-C18-2"))

    def ts_sign(tree):
        f = find_func(tree, "Elementary._pearl_chain_method")
        for s in f.body:
            if isinstance(s, ast.Assign) and isinstance(s.targets[0], ast.Name) and s.targets[0].id == "TS":
                s.value = parse_expr("TN ** (1.0 / self._slope)")
                return True
        return False
    out.append(witness("TS = TN^(1/slope)", EL, ts_sign, "R-C18-3"))

    def k_sign(tree):
        f = find_func(tree, "Elementary._common_analysis")
        for n in ast.walk(f):
            if isinstance(n, ast.Dict):
                for i, k in enumerate(n.keys):
                    if const_value(k) == "k_1":
                        n.values[i] = parse_expr("self._slope")
                        return True
        return False
    out.append(witness("k_1 reported as +slope", EL, k_sign, "R-C18-3"))

    # twins
    def group_nosort(tree):
        f = find_func(tree, "Probit._specific_analysis")
        for c in calls_in(f, attr="groupby"):
            c.keywords.append(ast.keyword(arg="sort", value=ast.Constant(False)))
            return True
        return False
    out.append(twin("groupby('load', sort=False) in Probit (aligned carrier)", PB, group_nosort))

    def sort_values(tree):
        f = find_func(tree, "PearlChainProbability.__init__")
        for c in calls_in(f, name="np.sort"):
            new = parse_expr("x.sort_values().to_numpy()")
            new.func.value.func.value = c.args[0]
            return replace_node(c, new)
        return False
    out.append(twin("sort_values() instead of np.sort", PC, sort_values))

    def mask_swapped(tree):
        f = find_func(tree, "FatigueData._calc_finite_zone_manual")
        for n in ast.walk(f):
            if isinstance(n, ast.Compare) and isinstance(n.ops[0], ast.Gt):
                n.left, n.comparators = n.comparators[0], [n.left]
                n.ops = [ast.Lt()]
                return True
        return False
    out.append(twin("finite mask written as limit < load", FD, mask_swapped))
    return out
