"""C13 — broadcasting leaves operands untouched (structural clauses).

R-C13-1 acquire/release typestate on the CFG, R-C13-2 save-before-clobber in the
index cache, R-C13-3 effect analysis: no other write reaches an operand.
"""
from __future__ import annotations

import ast

from ..astutil import const_value as const_value
from ..astutil import (names_in, call_name, calls_in, find_func, is_self_attr, parse_stmt, replace_node, enclosing_stmt)
from ..astutil import inline_single_defs
from ..cfg import CFG
from ..effects import Effects
from ..frontend import AnalysisError, walk_function
from ..report import norm_text
from ..witness import witness, twin, repair

LEVEL = "other"
MOD = "pylife.core.broadcaster"
PATH = "src/pylife/core/broadcaster.py"
EXPLANATION = (
    "Static decision of the 'operands are not modified' half of C13 for every call that returns normally. "
    "Roles are discovered by effect summaries (flow-sensitive may-alias analysis with interprocedural summaries): "
    "the helper that replaces None level names and returns a token (acquire), the helper that undoes it (release), "
    "the index-cache class whose constructor re-codes the operands' indices (acquire) and its restore method (release). "
    "R-C13-1: on the CFG of every function that acquires, every path to a normal exit passes the matching release, the "
    "release covers every acquired object, and releases happen in reverse (LIFO) order of acquires. R-C13-2: in the cache "
    "constructor each clobbered attribute of an operand is saved before it is overwritten and the restore method writes "
    "exactly the saved value back to the same object. R-C13-3: apart from those paired temporary writes no mutation sink "
    "(attribute/item store, augmented assignment, inplace=True, del) is reachable on an object that aliases an operand in "
    "any function of the broadcaster module. Not decided: that the aligned values are right. Exception paths between "
    "acquire and release are not covered (the property speaks about calls that return).")
EXPLANATION += (' R-C13-4: the acquire helper gives placeholders exactly to the level names that are None (identity test, not truthiness), the release helper resets exactly the placeholders, and where an aligned pair is re-ordered both results are re-ordered to the canonical level order.')
EXPLANATION += (" R-C13-5: the index cache gives every level its own range of integer codes (position in the level's key table plus a cumulative per-level offset) and the decoding subtracts exactly that offset; bare positions would let the re-coded indices of operands with different level names or orders compare equal, in which case align() returns them un-aligned.")
EXPLANATION += (" R-C13-5 also requires every path of a code helper to look the keys up in the level's key table (no positional shortcut). R-C13-6: the frame-to-frame path returns fresh objects: its return summary (effect analysis) contains no alias or view of an operand.")
EXPLANATION += (" R-C13-8: array data is attached to the object's index positionally; pd.Series(<freshly built Series>, index=...) re-keys by label and is a violation (built-in positive example).")
EXPLANATION += (" R-C13-7: the object is aligned directly with the caller's parameter only where an isinstance test excludes the combination DataFrame object / Series parameter (which is otherwise wrapped into a one-column frame).")
EXPLANATION += (' R-C13-9 (shared with R-C14-11): after `a, b = x.broadcast(y)` neither result is re-ordered on its own (sort_index, sort_values, sample, reindex, stepped slice) - the consumers combine the two row by row; built-in example.')
EXPLANATION += (' R-C13-10: no broadcast frame is built as pd.DataFrame(<list of the Series object>) without an explicit index (pandas would label the rows with the object\'s name); built-in example.')
EXPLANATION += (" R-C13-11: the rule R-C12-8 evaluated for this property (the consumer of the broadcast in the mean stress transformation of a matrix puts the levels of the broadcast result into the order of the matrix and re-indexes it by the matrix's index before anything is combined by position).")
EXPLANATION += (" R-C13-12: the index levels cached by the broadcaster are read as pandas Index objects only - not through .values / .to_numpy() / np.asarray / .tolist(), which change the type of time-zone aware, categorical, interval and nullable keys.")
EXPLANATION += (" R-C13-1 covers exceptional exits too (defect repaired in /repo 4dafbb3): each acquisition (placeholder names, index re-coding) is immediately followed by a try statement whose finally clause contains the matching release.")
EXPLANATION += (" R-C13-13 (defect repaired in /repo faf7999): the step that turns index codes back into keys (subscript of a cached level by computed positions) is accompanied by a test for missing codes; after the outer alignment of partially shared levels rows that only one operand contributes have NaN codes.")
EXPLANATION += (" R-C13-14: the parameter-set branch of Broadcaster.broadcast is guarded by self._obj.index.names == [None] (one unnamed level).")
ASSUMPTIONS = [
    "pandas DataFrame.align(Series, axis=0) may return the frame with its previous index when the joined index requires no row "
    "movement on the frame side (behaviour of the installed pandas; the repository wraps the series for that reason)",
    "pandas align/join return both operands unchanged when their indices compare equal, and Index.equals ignores level names",
    "pandas methods without inplace=True return new objects (align, join, reorder_levels, groupby().first(), iloc)",
    "assigning obj.index.names mutates the Index object held by obj (so a saved Index keeps a placeholder name until the "
    "name release ran on it: this is why LIFO order matters)",
]


class AsymmetricRelease(AnalysisError):
    pass


def _roles(prog, eff):
    mod = prog.module(MOD)
    acquire = release = cache = restore = None
    for key, fi in prog.functions.items():
        if fi.module is not mod or fi.cls is not None or fi.parent is not None:
            continue
        s = eff.summary(fi)
        names_eff = [e for e in s["effects"] if e.kind == "attr:index.names" and e.origin[0] in ("elem", "param")
                     and e.func == fi.key]
        if not names_eff:
            continue
        has_ret = any(isinstance(n, ast.Return) and n.value is not None for n in walk_function(fi.node))
        if has_ret:
            acquire = fi
        else:
            release = fi
    for ck, ci in prog.classes.items():
        if ci.module is not mod:
            continue
        init = ci.methods.get("__init__", [None])[-1]
        if init is None:
            continue
        s = eff.summary(init)
        if any(e.kind == "attr:index" and e.origin[0] == "param" for e in s["effects"]):
            cache = ci
            for name, defs in ci.methods.items():
                if name == "__init__":
                    continue
                ss = eff.summary(defs[-1])
                if any(e.kind == "attr:index" and e.origin[0] == "self" for e in ss["effects"]):
                    restore = defs[-1]
    if acquire and not release:
        # an un-naming that REPLACES the index object (obj.index = obj.index.set_names(...)) instead of renaming in place: the
        # acquire renamed the shared Index object in place, so every other holder of that object keeps the placeholder name
        for key, fi in prog.functions.items():
            if fi.module is not mod or fi.cls is not None or fi.parent is not None or fi is acquire:
                continue
            for st in walk_function(fi.node):
                if isinstance(st, ast.Assign) and isinstance(st.targets[0], ast.Attribute) and st.targets[0].attr == "index" and \
                        any(isinstance(c_.func, ast.Attribute) and c_.func.attr in ("set_names", "rename") for c_ in calls_in(st.value)):
                    e = AsymmetricRelease("release replaces the index object")
                    e.func, e.stmt, e.acquire = fi, st, acquire
                    raise e
    if not (acquire and release and cache and restore):
        raise AnalysisError("broadcaster roles not found: acquire=%s release=%s cache=%s restore=%s" % (
            acquire and acquire.key, release and release.key, cache and cache.key, restore and restore.key))
    return acquire, release, cache, restore


def _list_elts(e):
    if isinstance(e, (ast.List, ast.Tuple)):
        return [norm_text(x) for x in e.elts]
    return None


def run(ctx):
    prog = ctx.prog
    eff = Effects(prog)
    try:
        acquire, release, cache, restore = _roles(prog, eff)
    except AsymmetricRelease as e:
        ctx.rule("R-C13-1", floor=1, what="acquire/release pairing on all normal paths, release covers acquired objects, LIFO order")
        ctx.violated(e.func, e.stmt, "%s undoes the placeholder names by giving the operand a NEW index object (%s), while %s put "
                     "them onto the existing one in place: every other object that shares the operand's Index (a float copy, a "
                     "Series built on df.index) keeps the placeholder as level name - the caller's data are altered" %
                     (e.func.name, norm_text(e.stmt)[:60], e.acquire.name), text="release replaces the index object")
        return
    mod = prog.module(MOD)

    # ------------------------------------------------------------------ R-C13-1
    ctx.rule("R-C13-1", floor=3, what="acquire/release pairing on all normal paths, release covers acquired objects, LIFO order")
    users = []
    for key, fi in prog.functions.items():
        if fi.module is not mod or fi in (acquire, release) or fi.cls is cache:
            continue
        acq_sites, cache_sites = [], []
        for s in walk_function(fi.node):
            if isinstance(s, ast.stmt):
                for c in [n for n in ast.walk(s) if isinstance(n, ast.Call)]:
                    if enclosing_stmt(c) is not s:
                        continue
                    tgt = prog.resolve_call(fi, c)
                    if acquire.key in tgt:
                        acq_sites.append((s, c))
                    init = prog.lookup_method(cache, "__init__")
                    if init.key in tgt:
                        cache_sites.append((s, c))
        if acq_sites or cache_sites:
            users.append((fi, acq_sites, cache_sites))
    if not users:
        raise AnalysisError("no function acquires the temporary index re-coding")
    for fi, acq_sites, cache_sites in users:
        cfg = CFG(fi.node)
        rel_calls = []       # (stmt, call) of name release
        restore_calls = []   # (stmt, call, receiver name)
        for s in walk_function(fi.node):
            if isinstance(s, ast.stmt):
                for c in [n for n in ast.walk(s) if isinstance(n, ast.Call)]:
                    if enclosing_stmt(c) is not s:
                        continue
                    if release.key in prog.resolve_call(fi, c):
                        rel_calls.append((s, c))
                    if isinstance(c.func, ast.Attribute) and c.func.attr == restore.name and \
                            isinstance(c.func.value, ast.Name):
                        restore_calls.append((s, c, c.func.value.id))
        pairs = []
        for s, c in acq_sites:
            if not (isinstance(s, ast.Assign) and len(s.targets) == 1 and isinstance(s.targets[0], ast.Name)):
                ctx.violated(fi, s, "the token returned by the name replacement is not kept, so it cannot be undone")
                continue
            tok = s.targets[0].id
            objs = _list_elts(c.args[0]) if c.args else None
            if objs is None:
                raise AnalysisError("%s: acquired objects are not a literal list" % fi.key)
            rels = [(rs, rc) for rs, rc in rel_calls if len(rc.args) >= 2 and isinstance(rc.args[1], ast.Name)
                    and rc.args[1].id == tok]
            rel_nodes = {cfg.node(rs) for rs, rc in rels}
            n0 = cfg.node(s)
            if not rels or not cfg.must_pass(cfg.exit, rel_nodes, start=n0):
                ctx.violated(fi, s, "a path from the name replacement to a normal return does not pass the matching "
                             "restore of the level names")
                continue
            covered = set()
            for rs, rc in rels:
                if cfg.must_pass(cfg.exit, {cfg.node(rs)}, start=n0):
                    covered |= set(_list_elts(rc.args[0]) or [])
            missing = set(objs) - covered
            _exceptional(ctx, fi, s, [rs for rs, rc in rels if set(objs) <= set(_list_elts(rc.args[0]) or [])],
                         "the placeholder level names of %s" % objs)
            if missing:
                ctx.violated(fi, rels[0][0], "level-name restore does not cover acquired operand(s) %s" % sorted(missing))
            else:
                ctx.holds(fi, s, "names of %s replaced and restored on every normal path" % objs, {"token": tok})
            pairs.append(("names", s, [rs for rs, _ in rels]))
        for s, c in cache_sites:
            if not (isinstance(s, ast.Assign) and len(s.targets) == 1 and isinstance(s.targets[0], ast.Name)):
                ctx.violated(fi, s, "the index cache object is not kept, so the re-coding cannot be undone")
                continue
            var = s.targets[0].id
            rs_ = [(rs, rc) for rs, rc, recv in restore_calls if recv == var]
            nodes = {cfg.node(rs) for rs, rc in rs_}
            if not rs_ or not cfg.must_pass(cfg.exit, nodes, start=cfg.node(s)):
                ctx.violated(fi, s, "a path from the index re-coding to a normal return does not pass %s()" % restore.name)
                continue
            ctx.holds(fi, s, "indices of %s re-coded and restored on every normal path" %
                      [norm_text(a) for a in c.args], {"cache": var})
            _exceptional(ctx, fi, s, [rs for rs, rc in rs_], "the re-coded indices of %s" % [norm_text(a) for a in c.args])
            pairs.append(("index", s, [rs for rs, _ in rs_]))
        # LIFO
        dom = cfg.dominators()
        for i, (k1, a1, r1) in enumerate(pairs):
            for k2, a2, r2 in pairs[i + 1:]:
                n1, n2 = cfg.node(a1), cfg.node(a2)
                if n1 in dom.get(n2, ()):
                    first, second = (k1, a1, r1), (k2, a2, r2)
                elif n2 in dom.get(n1, ()):
                    first, second = (k2, a2, r2), (k1, a1, r1)
                else:
                    continue
                # every release of 'first' must come after a release of 'second'
                bad = None
                for rf in first[2]:
                    if not cfg.must_pass(cfg.node(rf), {cfg.node(x) for x in second[2]}, start=cfg.node(second[1])):
                        bad = rf
                if bad is not None:
                    ctx.violated(fi, bad, "%s restore can run before the %s restore: releases must be in reverse order "
                                 "of acquires (the saved Index objects still carry the placeholder names)" %
                                 (first[0], second[0]))
                else:
                    ctx.holds(fi, first[2][0], "LIFO: %s restored after %s" % (first[0], second[0]))

    # ------------------------------------------------------------------ R-C13-2
    ctx.rule("R-C13-2", floor=2, what="cache constructor saves each operand attribute before clobbering it; restore writes the saved value back")
    init = cache.methods["__init__"][-1]
    icfg = CFG(init.node)
    idom = icfg.dominators()
    params = [p for p in init.params if p != "self"]
    clobbers = []
    saves = {}     # (param, attr) -> (self attr, stmt)
    holders = {}   # param -> self attr
    for s in walk_function(init.node):
        if isinstance(s, ast.Assign) and len(s.targets) == 1:
            t, v = s.targets[0], s.value
            if isinstance(t, ast.Attribute) and isinstance(t.value, ast.Name) and t.value.id in params:
                clobbers.append((t.value.id, t.attr, s))
            if is_self_attr(t) and isinstance(v, ast.Attribute) and isinstance(v.value, ast.Name) and v.value.id in params:
                saves.setdefault((v.value.id, v.attr), []).append((t.attr, s))
            if is_self_attr(t) and isinstance(v, ast.Name) and v.id in params:
                holders[v.id] = t.attr
    restores = {}   # (holder attr, attr) -> source self attr
    for s in walk_function(restore.node):
        if isinstance(s, ast.Assign) and len(s.targets) == 1:
            t, v = s.targets[0], s.value
            if isinstance(t, ast.Attribute) and is_self_attr(t.value) and is_self_attr(v):
                restores[(t.value.attr, t.attr)] = (v.attr, s)
    if not clobbers:
        raise AnalysisError("index cache constructor clobbers nothing")
    for p, attr, s in clobbers:
        ok_saves = [(sa, st) for sa, st in saves.get((p, attr), []) if icfg.node(st) in idom.get(icfg.node(s), ())]
        if not ok_saves:
            ctx.violated(init, s, "%s.%s is overwritten before its original value was saved" % (p, attr))
            continue
        h = holders.get(p)
        r = restores.get((h, attr)) if h else None
        if r is None:
            ctx.violated(restore, restore.node, "restore does not write %s back to operand %r" % (attr, p),
                         text="%s.%s" % (p, attr))
        elif r[0] not in [sa for sa, _ in ok_saves]:
            ctx.violated(restore, r[1], "restore assigns self.%s to %s.%s, but the original was saved in self.%s" %
                         (r[0], p, attr, ok_saves[0][0]))
        else:
            # the saved attribute must not be overwritten elsewhere in the class
            rewritten = False
            for name, defs in cache.methods.items():
                for st in walk_function(defs[-1].node):
                    if isinstance(st, ast.Assign) and any(is_self_attr(t, r[0]) for t in st.targets) and \
                            st is not ok_saves[0][1]:
                        rewritten = True
            if rewritten:
                ctx.violated(init, s, "saved original self.%s is overwritten elsewhere" % r[0])
            else:
                ctx.holds(init, s, "%s.%s saved in self.%s before clobber and restored from it" % (p, attr, r[0]))

    # ------------------------------------------------------------------ R-C13-3
    ctx.rule("R-C13-3", floor=8, what="no mutation sink reaches an operand except the paired temporary writes")
    allowed_funcs = {acquire.key: {"attr:index.names"}, release.key: {"attr:index.names"},
                     init.key: {"attr:index"}, restore.key: {"attr:index"}}
    n_funcs = 0
    seen = set()
    for key, fi in prog.functions.items():
        if fi.module is not mod:
            continue
        n_funcs += 1
        s = eff.summary(fi)
        if s is None:
            raise AnalysisError("effect summary of %s unavailable (depth bound)" % key)
        ci = fi.cls or (fi.parent.cls if fi.parent else None)
        prov = eff.attr_provenance(ci) if ci else {}
        for e in s["effects"]:
            caller = e.origin[0] in ("param", "elem") or \
                (e.origin[0] == "self" and any(o[0] == "param" for o, m in prov.get(e.origin[1], ())))
            if not caller:
                continue
            k = (e.func, e.lineno, e.kind)
            if e.kind in allowed_funcs.get(e.func, ()):
                if k not in seen:
                    seen.add(k)
                    ctx.holds(prog.functions[e.func], None, "paired temporary write %s" % e.kind,
                              {"line": e.lineno, "stmt": e.text})
                continue
            if k in seen:
                continue
            seen.add(k)
            f2 = prog.functions[e.func]
            node = None
            for st in walk_function(f2.node, include_nested=False):
                if isinstance(st, ast.stmt) and getattr(st, "lineno", None) == e.lineno:
                    node = st
                    break
            ctx.violated(f2, node, "write (%s) reaches an operand of the broadcaster (%s of %s) outside the paired "
                         "temporary re-coding" % (e.kind, e.mode, "/".join(map(str, e.origin))), text=e.text)
    for i in range(n_funcs):
        pass
    ctx.holds(MOD, None, "%d functions of the broadcaster module scanned for operand writes" % n_funcs,
              {"functions": n_funcs})
    ctx.note("exception paths between acquire and release leave the operands re-coded; the property speaks about "
             "calls that return, so this is recorded here and not reported")
    # zero-expected rule: positive example that must match on every run
    _positive_example(ctx)
    ctx.attempt(lambda c: _r4(c, acquire, release))
    ctx.attempt(lambda c: _r5(c, cache))
    ctx.attempt(lambda c: _r6(c, eff))
    ctx.attempt(_r7)
    ctx.attempt(_r8)
    ctx.attempt(_r9)
    ctx.attempt(_r10)
    ctx.attempt(_r11)
    ctx.attempt(_r12)
    ctx.attempt(_r13)
    ctx.attempt(_r14)
    ctx.attempt(_r15)
    ctx.attempt(_r16)
    ctx.attempt(_r17)
    ctx.attempt(_r18)
    ctx.attempt(_r19)


def _r19(ctx):
    """R-C13-19: the keys of a caller-supplied Series / frame (parameter names, column labels, index keys) are never turned into
    Python keyword names: no `f(**<caller object>)` in the broadcaster.  Keyword expansion needs string keys; a parameter set
    keyed by integers or tuples (`pd.Series([1., 2., 3.])` broadcast to an array) raises TypeError instead of being broadcast."""
    prog = ctx.prog
    ctx.rule("R-C13-19", floor=10, what="no keyword expansion of a caller-supplied pandas object in the broadcaster")
    for k, fi in sorted(prog.functions.items()):
        if fi.module.name != MOD:
            continue
        bad = None
        for c in calls_in(fi.node):
            for kw in c.keywords:
                if kw.arg is None:
                    v = kw.value
                    base = v.func.value if isinstance(v, ast.Call) and isinstance(v.func, ast.Attribute) and \
                        v.func.attr in ("to_dict", "items") else v
                    caller = is_self_attr(base, "_obj") or (isinstance(base, ast.Name) and base.id in fi.params)
                    if caller and not (isinstance(v, ast.Name) and v.id in ("kwargs", "kw", "kwds")):
                        bad = (c, v)
        if bad:
            ctx.violated(fi, bad[0], "%s expands the caller's object `%s` into keyword arguments: its keys must then be strings - a "
                         "parameter set keyed by integers or tuples raises TypeError instead of being broadcast" %
                         (fi.qualname, norm_text(bad[1])), text="keyword expansion of a caller-supplied object")
        else:
            ctx.holds(fi, fi.node, "%s: no keyword expansion of a caller-supplied object" % fi.qualname)


_ZERO_DIM_TESTS = ("%s.shape == ()", "() == %s.shape", "%s.ndim == 0", "0 == %s.ndim", "np.ndim(%s) == 0", "0 == np.ndim(%s)",
                   "np.isscalar(%s)", "np.shape(%s) == ()", "() == np.shape(%s)", "len(%s.shape) == 0", "0 == len(%s.shape)")


def _r18(ctx):
    """R-C13-18 ('two objects with identical index ... for scalars, arrays'): a Series object (one parameter set) comes back AS IT
    IS - un-broadcast, together with the parameter - only for a 0-d parameter.  Every `return <p>, self._obj` of
    `_broadcast_series` is guarded by a zero-dimension test of the parameter (`shape == ()`, `ndim == 0`, `np.isscalar`); a test
    that also holds for arrays of one element (`size == 1`, `len(...) <= 1`) hands a 0-d result to a caller that asked for rows."""
    prog = ctx.prog
    ctx.rule("R-C13-18", floor=1, what="the un-broadcast return of _broadcast_series is taken for 0-d parameters only")
    f = prog.func(MOD + ":Broadcaster._broadcast_series")
    n = 0

    def visit(stmts, guards):
        nonlocal n
        for st in stmts:
            if isinstance(st, ast.If):
                visit(st.body, guards + [st.test])
                visit(st.orelse, guards)
            elif isinstance(st, ast.Return) and isinstance(st.value, ast.Tuple) and len(st.value.elts) == 2 and \
                    is_self_attr(st.value.elts[1], "_obj"):
                n += 1
                names = {x.id for g in guards for x in ast.walk(g) if isinstance(x, ast.Name)} | {"parameter"}
                ok = any(norm_text(g) in {t % nm for t in _ZERO_DIM_TESTS for nm in names} for g in guards)
                if ok:
                    ctx.holds(f, st, "un-broadcast return guarded by a zero-dimension test (%s)" % " and ".join(norm_text(g) for g in guards))
                else:
                    ctx.violated(f, st, "Broadcaster._broadcast_series returns the object un-broadcast under `%s`, which is not a "
                                 "zero-dimension test of the parameter: an array of one element gets a 0-d parameter and the bare "
                                 "parameter set back instead of one row each" % (" and ".join(norm_text(g) for g in guards) or "no test"),
                                 text="un-broadcast return of _broadcast_series")
            elif isinstance(st, (ast.For, ast.While, ast.With, ast.Try)):
                for fld in ("body", "orelse", "finalbody"):
                    visit(getattr(st, fld, []) or [], guards)
    visit(f.node.body, [])
    if n == 0:
        raise AnalysisError("_broadcast_series: the un-broadcast return `<p>, self._obj` was not found")


def _r17(ctx):
    """R-C13-17 (the two operands may be ONE object: Broadcaster(x).broadcast(x), hist.load_collective.scale(hist)): in the
    constructor of the index-level cache every read of `<parameter>.index` - for the level tables and for the re-coding - comes
    before the first `<parameter>.index = ...` store.  A store to the object's index followed by a read of the operand's index
    re-codes the already re-coded keys when both names denote the same object: the result rows get wrong keys."""
    prog = ctx.prog
    ctx.rule("R-C13-17", floor=1, what="the cache constructor reads both operands' indices before it overwrites either")
    f = prog.func(MOD + ":_IndexLevelCache.__init__")
    params = [p_ for p_ in f.params if p_ != "self"]
    stores = [st for st in walk_function(f.node) if isinstance(st, ast.Assign) and any(
        isinstance(t, ast.Attribute) and t.attr == "index" and isinstance(t.value, ast.Name) and t.value.id in params for t in st.targets)]
    if len(stores) < 2:
        raise AnalysisError("_IndexLevelCache.__init__: the index stores to the two operands were not found")
    first = min(st.lineno for st in stores)
    bad = None
    for st in walk_function(f.node):
        if getattr(st, "lineno", 0) < first or not isinstance(st, ast.stmt):
            continue
        exprs = [st.value] if isinstance(st, (ast.Assign, ast.Expr, ast.AugAssign, ast.Return)) and st.value is not None else \
            [getattr(st, "test", None) or getattr(st, "iter", None)]
        for e in exprs:
            if e is None:
                continue
            for x in ast.walk(e):
                if isinstance(x, ast.Attribute) and x.attr == "index" and isinstance(x.value, ast.Name) and x.value.id in params and \
                        isinstance(x.ctx, ast.Load):
                    stored_before = [s_ for s_ in stores if s_.lineno < st.lineno or (s_ is not st and s_.lineno == st.lineno)]
                    others = [s_ for s_ in stored_before if not any(isinstance(t, ast.Attribute) and t.value.id == x.value.id
                                                                     for t in s_.targets if isinstance(t, ast.Attribute))]
                    if others and bad is None:
                        bad = (st, x, others[0])
    if bad is None:
        ctx.holds(f, stores[0], "all reads of %s precede the first index store (line %d)" % (" / ".join(p_ + ".index" for p_ in params), first))
    else:
        st, x, o = bad
        ctx.violated(f, st, "_IndexLevelCache.__init__: `%s` reads %s.index after `%s` has already replaced the index of the other "
                     "operand - when both are the same object (x broadcast against itself) the re-coded index is re-coded again and "
                     "the rows of the result carry wrong keys" % (norm_text(st)[:70], x.value.id, norm_text(o)[:50]),
                     text="index read after the other operand's index store")


def _r16(ctx):
    """R-C13-16 ('every calculation built on it equals the element-by-element result'): broadcast returns TWO objects with an
    identical index, in an order of its own (the alignment of partially shared levels sorts).  A caller that throws the second
    one away (`p, _ = ....broadcast(q)`) and then pairs `p` BY POSITION (`.iloc`) with some other object - typically the object it
    broadcast, in its original row order - gives element i the parameters of element j whenever the two orders differ."""
    prog = ctx.prog
    ctx.rule("R-C13-16", floor=6, what="a broadcast result is paired by position only with the object returned together with it")
    for k, fi in sorted(prog.functions.items()):
        if not fi.module.name.startswith("pylife.") or fi.module.name == MOD:
            continue
        for st in walk_function(fi.node):
            if not (isinstance(st, ast.Assign) and isinstance(st.targets[0], ast.Tuple) and len(st.targets[0].elts) == 2 and
                    isinstance(st.value, ast.Call) and isinstance(st.value.func, ast.Attribute) and st.value.func.attr == "broadcast"
                    and all(isinstance(t, ast.Name) for t in st.targets[0].elts)):
                continue
            p, o = (t.id for t in st.targets[0].elts)
            later = [x for x in walk_function(fi.node) if getattr(x, "lineno", 0) > st.lineno]
            o_read = o != "_" and any(isinstance(x, ast.Name) and x.id == o and isinstance(x.ctx, ast.Load) for y in later for x in ast.walk(y))
            if o_read:
                ctx.holds(fi, st, "%s: both results of the broadcast are used (%s, %s)" % (fi.qualname, p, o))
                continue
            bad = None
            for y in later:
                if not isinstance(y, ast.Assign):
                    continue
                t = y.targets[0]
                positional_target = isinstance(t, ast.Subscript) and isinstance(t.value, ast.Attribute) and t.value.attr in ("iloc", "iat") \
                    and isinstance(t.value.value, ast.Name) and t.value.value.id != p
                reads_p_by_position = any(isinstance(x, ast.Attribute) and x.attr in ("iloc", "iat", "values") and
                                          any(isinstance(z, ast.Name) and z.id == p for z in ast.walk(x.value)) for x in ast.walk(y.value))
                if positional_target and reads_p_by_position:
                    bad = y
                    break
            if bad is None:
                ctx.holds(fi, st, "%s: the second result is not used, and %s is not paired by position with another object" % (fi.qualname, p))
            else:
                ctx.violated(fi, bad, "%s: `%s` discards the object aligned with %r, and %r then fills %r from %r by position: "
                             "the two are in the same row order only as long as the broadcast keeps the order of the object it was "
                             "given - it does not for partially shared index levels that are not sorted, and element i receives the "
                             "parameters of element j" % (fi.qualname, norm_text(st)[:70], p, norm_text(bad)[:60],
                                                          bad.targets[0].value.value.id, p),
                             text="positional pairing of a broadcast result with another object")


def _one_level_branches(fn_node):
    """(If, index expression X, statements executed when X has ONE level) for every test on len(X.names) / X.nlevels"""
    out = []
    for s in walk_function(fn_node):
        if not isinstance(s, ast.If) or not isinstance(s.test, ast.Compare) or len(s.test.ops) != 1:
            continue
        l, op, r = s.test.left, s.test.ops[0], s.test.comparators[0]
        if const_value(l) is not None and const_value(r) is None:          # the canonical form writes `1 < len(X.names)`
            flip = {ast.Lt: ast.Gt, ast.Gt: ast.Lt, ast.LtE: ast.GtE, ast.GtE: ast.LtE}
            l, r, op = r, l, flip.get(type(op), type(op))()
        x = None
        if isinstance(l, ast.Call) and call_name(l) == "len" and len(l.args) == 1 and isinstance(l.args[0], ast.Attribute) and \
                l.args[0].attr == "names":
            x = l.args[0].value
        elif isinstance(l, ast.Attribute) and l.attr == "nlevels":
            x = l.value
        c = const_value(r)
        if x is None or not isinstance(c, int):
            continue
        if isinstance(op, ast.Eq) and c == 1 or isinstance(op, ast.Lt) and c == 2 or isinstance(op, ast.LtE) and c == 1:
            out.append((s, x, s.body))
        elif isinstance(op, ast.Gt) and c == 1 or isinstance(op, ast.GtE) and c == 2 or isinstance(op, ast.NotEq) and c == 1:
            rest = list(s.orelse)
            if s.body and isinstance(s.body[-1], (ast.Return, ast.Raise)):
                # the several-level case leaves the function: what follows the If in its block is one-level code as well
                for blk in ast.walk(fn_node):
                    for fld in ("body", "orelse", "finalbody"):
                        lst = getattr(blk, fld, None)
                        if isinstance(lst, list) and s in lst:
                            rest += lst[lst.index(s) + 1:]
            out.append((s, x, rest))
        else:
            out.append((s, x, []))
    return out


def _r15(ctx):
    """R-C13-15 (contradicting beliefs about one object): a branch chosen by the NUMBER OF LEVELS of an index (`len(X.names) == 1`)
    holds for a plain Index and for a MultiIndex of one level alike; `X.name` is the level name for the first and None for the
    second.  Where X is the index of a caller-supplied operand, the one-level branch must take the name from `X.names` - a lookup
    of the level tables under `X.name` raises KeyError(None) for a signal over a one-level MultiIndex with a same-named level."""
    prog = ctx.prog
    ctx.rule("R-C13-15", floor=2, what="one-level branches read the level name of a caller-supplied index from .names, not .name")
    for k, fi in sorted(prog.functions.items()):
        if fi.module.name != MOD:
            continue
        for st, x, branch in _one_level_branches(fi.node):
            xt = norm_text(x)
            uses = [a for b in branch for a in ast.walk(b) if isinstance(a, ast.Attribute) and a.attr == "name" and norm_text(a.value) == xt]
            if not uses:
                ctx.holds(fi, st, "%s: the one-level branch of `%s` does not read %s.name" % (fi.qualname, norm_text(st.test), xt))
                continue
            # whose index is it?
            external = None
            if isinstance(x, ast.Name) and x.id in fi.params:
                sites = []
                for k2, f2 in prog.functions.items():
                    if f2.module.name != MOD:
                        continue
                    for c in calls_in(f2.node):
                        if fi.key in prog.resolve_call(f2, c) or (isinstance(c.func, ast.Attribute) and c.func.attr == fi.name):
                            off = 1 if fi.params and fi.params[0] == "self" and isinstance(c.func, ast.Attribute) else 0
                            i = fi.params.index(x.id) - off
                            arg = c.args[i] if 0 <= i < len(c.args) else next((kw.value for kw in c.keywords if kw.arg == x.id), None)
                            if arg is not None:
                                sites.append((f2, arg))
                if not sites:
                    raise AnalysisError("%s: no call site found for the index parameter %r" % (fi.qualname, x.id))
                external = [(f2, a) for f2, a in sites if _caller_supplied(f2, a)]
            else:
                external = [(fi, x)] if _caller_supplied(fi, x) else []
            if external:
                f2, a = external[0]
                ctx.violated(fi, uses[0], "%s: in the branch for an index of one level, `%s.name` is used as the level name, and %s "
                             "passes the index of a caller-supplied operand (`%s`): for a MultiIndex of one level .name is None "
                             "while .names[0] is the level - the level tables have no key None (KeyError) / the result loses the name"
                             % (fi.qualname, xt, f2.qualname, norm_text(a)))
            else:
                ctx.holds(fi, st, "%s: %s.name in the one-level branch, but %s is always an index built by the module itself "
                          "(a plain Index when it has one level)" % (fi.qualname, xt, xt))


def _caller_supplied(f, e):
    """`<p>.index` with <p> a parameter of f or an attribute of self: an index object that belongs to the caller"""
    if isinstance(e, ast.Attribute) and e.attr == "index":
        b = e.value
        if isinstance(b, ast.Name):
            if b.id in f.params:
                return True
            defs = [st for st in walk_function(f.node) if isinstance(st, ast.Assign) and
                    any(isinstance(t, ast.Name) and t.id == b.id for t in st.targets)]
            return bool(defs) and all(isinstance(d.value, ast.Attribute) and is_self_attr(d.value) for d in defs)
        return isinstance(b, ast.Attribute) and is_self_attr(b)
    if isinstance(e, ast.Name) and e.id in f.params:
        return not f.name.startswith("_")
    return False


def _kind_tests(test):
    """isinstance(<e>, pd.<Kind>) facts of a condition: (conjuncts, negated?) -> set of (expr text, kind)"""
    out = set()
    parts = test.values if isinstance(test, ast.BoolOp) and isinstance(test.op, ast.And) else [test]
    for p_ in parts:
        if isinstance(p_, ast.Call) and call_name(p_) == "isinstance" and len(p_.args) == 2:
            k = norm_text(p_.args[1])
            if k in ("pd.DataFrame", "pd.Series"):
                out.add((norm_text(p_.args[0]), k.split(".")[1]))
    return out, len(parts)


def _mixed_align_sites(fn_node, operand_names):
    """`.align(<operand>, axis=0)` calls whose receiver/argument kinds are not separated by an isinstance guard that excludes
    the combination DataFrame receiver / Series argument: [(call, guarded?)]"""
    out = []
    for c in ast.walk(fn_node):
        if not (isinstance(c, ast.Call) and isinstance(c.func, ast.Attribute) and c.func.attr == "align" and c.args):
            continue
        arg = c.args[0]
        if not (isinstance(arg, ast.Name) and arg.id in operand_names):
            continue
        recv, a = norm_text(c.func.value), arg.id
        guarded = False
        n = c
        while getattr(n, "_parent", None) is not None and n is not fn_node:
            par = n._parent
            if isinstance(par, ast.If):
                facts, nparts = _kind_tests(par.test)
                in_else = any(n is x for x in par.orelse)
                in_body = any(n is x for x in par.body)
                if in_else and facts == {(recv, "DataFrame"), (a, "Series")} and nparts == 2:
                    guarded = True
                if in_body and ((a, "DataFrame") in facts or (recv, "Series") in facts):
                    guarded = True
                if in_else and nparts == 1 and ((a, "Series") in facts or (recv, "DataFrame") in facts):
                    guarded = True
            n = par
        out.append((c, guarded))
    return out


def d_after(n_, before, c, name):
    """another definition of `name` between the index-less construction and the use (the use then sees that one)"""
    return bool(before) and any(isinstance(t_, ast.Name) and t_.id == name for t_ in n_.targets) and \
        before[-1].lineno < n_.lineno < c.lineno


def _relabelled_series(fn_node):
    """pd.Series(X, index=I) / pd.DataFrame(X, index=I) where X is itself a pandas object built in the function without an index
    (pd.Series(...) of array data): pandas then looks the rows of X up by the labels of I instead of attaching I positionally"""
    fresh = {}
    for n_ in ast.walk(fn_node):
        if isinstance(n_, ast.Assign) and len(n_.targets) == 1 and isinstance(n_.targets[0], ast.Name):
            v_ = n_.value
            if isinstance(v_, ast.Call) and call_name(v_) in ("pd.Series", "pd.DataFrame", "pandas.Series", "pandas.DataFrame") and \
                    not any(k_.arg == "index" for k_ in v_.keywords) and len(v_.args) < 2:
                fresh.setdefault(n_.targets[0].id, []).append(n_)
    out = []
    for c in [x_ for x_ in ast.walk(fn_node) if isinstance(x_, ast.Call)]:
        if call_name(c) in ("pd.Series", "pd.DataFrame", "pandas.Series", "pandas.DataFrame") and c.args and \
                any(k_.arg == "index" for k_ in c.keywords):
            a0 = c.args[0]
            if isinstance(a0, ast.Name) and a0.id in fresh:
                before = [d_ for d_ in fresh[a0.id] if d_.lineno < c.lineno]
                later_defs = [n_ for n_ in ast.walk(fn_node) if isinstance(n_, ast.Assign) and d_after(n_, before, c, a0.id)]
                if before and not later_defs:
                    out.append((c, before[-1]))
            elif isinstance(a0, ast.Call) and call_name(a0) in ("pd.Series", "pd.DataFrame") and \
                    not any(k_.arg == "index" for k_ in a0.keywords):
                out.append((c, a0))
    return out


ROW_REORDER = ("sort_index", "sort_values", "sample", "reindex", "reindex_like", "sortlevel", "take", "drop_duplicates")


def unpaired_reorders(fn_node):
    """After `a, b = <x>.broadcast(<y>)` the two results have the same index, row by row, and are combined by position
    (`.values`, arithmetic on aligned frames, zipped level values).  A statement that re-orders ONE of them on its own
    (`a = a.sort_index()`, `b = b.sample(...)`, `a = a.iloc[::-1]`) breaks that pairing unless the other one gets the same
    treatment.  -> [(statement, name, operation)]"""
    pairs = []
    for st in ast.walk(fn_node):
        if isinstance(st, ast.Assign) and len(st.targets) == 1 and isinstance(st.targets[0], ast.Tuple) and \
                len(st.targets[0].elts) == 2 and all(isinstance(t, ast.Name) for t in st.targets[0].elts) and \
                isinstance(st.value, ast.Call) and isinstance(st.value.func, ast.Attribute) and st.value.func.attr == "broadcast":
            pairs.append((st, st.targets[0].elts[0].id, st.targets[0].elts[1].id))
    out = []
    for bst, a, b in pairs:
        ops = {a: [], b: []}
        for st in ast.walk(fn_node):
            if isinstance(st, ast.Assign) and len(st.targets) == 1 and isinstance(st.targets[0], ast.Name) and \
                    st.targets[0].id in (a, b) and st.lineno > bst.lineno:
                nm = st.targets[0].id
                v = st.value
                op = None
                for c in ast.walk(v):
                    if isinstance(c, ast.Call) and isinstance(c.func, ast.Attribute) and c.func.attr in ROW_REORDER and \
                            any(isinstance(x, ast.Name) and x.id == nm for x in ast.walk(c.func.value)):
                        op = c.func.attr
                    if isinstance(c, ast.Subscript) and isinstance(c.slice, ast.Slice) and c.slice.step is not None and \
                            const_value(c.slice.step) not in (None, 1) and \
                            any(isinstance(x, ast.Name) and x.id == nm for x in ast.walk(c.value)):
                        op = "slice with a step"
                if op:
                    ops[nm].append((st, op))
        for nm, other in ((a, b), (b, a)):
            for st, op in ops[nm]:
                if not any(o2 == op for _, o2 in ops[other]):
                    out.append((st, nm, op))
    return out


def paired_results_rule(ctx, rule, modules):
    prog = ctx.prog
    ctx.rule(rule, floor=1, what="the two results of a broadcast stay paired: neither is re-ordered on its own")
    ex = ast.parse("def f(self, p):\n    a, b = self.broadcast(p)\n    b = b.sort_index()\n    return a.values * b.values\n"
                   "def g(self, p):\n    a, b = self.broadcast(p)\n    a = a.sort_index()\n    b = b.sort_index()\n    return a.values * b.values\n")
    if len(unpaired_reorders(ex.body[0])) != 1 or unpaired_reorders(ex.body[1]):
        raise AnalysisError("%s built-in example not matched" % rule)
    n = 0
    for key, fi in sorted(prog.functions.items()):
        if fi.parent is not None or (modules and fi.module.name not in modules):
            continue
        if not any(isinstance(c.func, ast.Attribute) and c.func.attr == "broadcast" for c in calls_in(fi.node)):
            continue
        n += 1
        bad = unpaired_reorders(fi.node)
        for st, nm, op in bad:
            ctx.violated(fi, st, "%s: %s re-orders one result of the broadcast (%s) on its own; the other keeps the order of the "
                         "broadcast, and the two are combined row by row afterwards - every row then gets another row's operand" %
                         (fi.name, norm_text(st)[:60], op), text="unpaired %s of %s in %s" % (op, nm, fi.name))
        if not bad:
            ctx.holds(fi, fi.node, "%s: the results of its broadcast are not re-ordered individually" % fi.name)
    if n < 1:
        raise AnalysisError("%s: no consumer of broadcast() found" % rule)


def frames_from_series_lists(fn_node):
    """pd.DataFrame(<list of Series>) without index=: pandas labels the rows with the `name` of each Series - a Series taken
    from a frame with .loc[key] carries the key as its name, so all rows get that label instead of 0..n-1"""
    out = []
    for c in ast.walk(fn_node):
        if isinstance(c, ast.Call) and call_name(c) in ("pd.DataFrame", "pandas.DataFrame") and c.args and \
                not any(k.arg == "index" for k in c.keywords):
            a = inline_single_defs(fn_node, c.args[0]) if isinstance(c.args[0], ast.Name) else c.args[0]
            lst = None
            if isinstance(a, ast.BinOp) and isinstance(a.op, ast.Mult):
                lst = a.left if isinstance(a.left, ast.List) else a.right if isinstance(a.right, ast.List) else None
                elts = lst.elts if lst is not None else []
            elif isinstance(a, ast.List):
                elts = a.elts
            elif isinstance(a, ast.ListComp):
                elts = [a.elt]
            else:
                elts = []
            if elts and all(is_self_attr(e, "_obj") or (isinstance(e, ast.Call) and isinstance(e.func, ast.Attribute) and
                                                        e.func.attr in ("copy",) and is_self_attr(e.func.value, "_obj"))
                            for e in elts):
                out.append(c)
    return out


DTYPE_LOSERS = ("values", "to_numpy", "tolist", "to_list", "array", "astype", "to_flat_index")


def key_type_losses(cls_node):
    """the keys of the operands are kept as pandas Index objects (self.<dict>[name] = <index>.unique()); expressions that read them
    through .values / .to_numpy() / np.asarray / .tolist() return plain numpy values - time-zone aware timestamps, categoricals,
    intervals and nullable integers come back as something else: [(node, text)]"""
    stores = set()
    for n in ast.walk(cls_node):
        if isinstance(n, ast.Assign):
            for t in n.targets:
                if isinstance(t, ast.Subscript) and is_self_attr(t.value) and isinstance(n.value, ast.Call) and \
                        isinstance(n.value.func, ast.Attribute) and n.value.func.attr in ("unique", "get_level_values", "append", "drop_duplicates", "union"):
                    stores.add(t.value.attr)
    out = []
    for n in ast.walk(cls_node):
        base = None
        if isinstance(n, ast.Attribute) and n.attr in DTYPE_LOSERS:
            base = n.value
        elif isinstance(n, ast.Call) and (call_name(n) or "") in ("np.asarray", "np.array", "list", "np.asanyarray") and n.args:
            base = n.args[0]
        if base is None:
            continue
        while isinstance(base, ast.Subscript) and not (is_self_attr(base.value) and base.value.attr in stores):
            base = base.value
        if isinstance(base, ast.Subscript) and is_self_attr(base.value) and base.value.attr in stores:
            out.append((n, norm_text(n)[:80]))
    return out


NA_TESTS = ("hasnans", "isna", "isnull", "notna", "notnull", "isnan")


def unguarded_code_decodes(cls_node):
    """positions computed from index codes are turned back into keys by subscripting a cached level (`self.<levels>[name][codes - off]`).
    After an OUTER alignment the codes of a level that only one operand has are NaN for the rows only the other one contributes;
    a decode that is not under (or next to) a test for missing codes raises IndexError there: [(subscript node, enclosing def)]"""
    stores = set()
    for n in ast.walk(cls_node):
        if isinstance(n, ast.Assign):
            for t in n.targets:
                if isinstance(t, ast.Subscript) and is_self_attr(t.value) and isinstance(n.value, ast.Call) and \
                        isinstance(n.value.func, ast.Attribute) and n.value.func.attr in ("unique", "get_level_values", "append", "drop_duplicates", "union"):
                    stores.add(t.value.attr)
    out = []
    for n in ast.walk(cls_node):
        if isinstance(n, ast.Subscript) and isinstance(n.value, ast.Subscript) and is_self_attr(n.value.value) and \
                n.value.value.attr in stores and isinstance(n.ctx, ast.Load) and not isinstance(n.slice, ast.Constant):
            fn = n
            while not isinstance(fn, (ast.FunctionDef, ast.Lambda)):
                fn = fn._parent
            guarded = any((isinstance(x, ast.Attribute) and x.attr in NA_TESTS) or
                          (isinstance(x, ast.Call) and (call_name(x) or "").split(".")[-1] in NA_TESTS)
                          for t in ast.walk(fn) if isinstance(t, (ast.If, ast.IfExp)) for x in ast.walk(t.test))
            if not guarded:
                out.append((n, fn))
    return out


def _r14(ctx):
    """R-C13-14: the 'parameter set' branch of Broadcaster.broadcast (a Series whose rows become COLUMNS of the result) is taken for a
    Series with ONE unnamed index level only (`index.names == [None]`).  A test that also holds for a MultiIndex whose levels are all
    unnamed (`set(names) == {None}`, `all(n is None ...)`, `index.name is None`) turns an ordinary signal over several unnamed levels
    into a wide frame instead of cross-joining it."""
    prog = ctx.prog
    ctx.rule("R-C13-14", floor=1, what="the parameter-set branch of broadcast is guarded by index.names == [None]")
    f = prog.func(MOD + ":Broadcaster.broadcast")
    branches = [s for s in walk_function(f.node) if isinstance(s, ast.If) and any(
        isinstance(c_, ast.Call) and (call_name(c_) or "").endswith("DataFrame") and any(k.arg == "columns" for k in c_.keywords)
        for b_ in s.body for c_ in ast.walk(b_))]
    if len(branches) != 1:
        raise AnalysisError("Broadcaster.broadcast: parameter-set branch not found")
    t = branches[0].test
    ok = any(isinstance(c_, ast.Compare) and len(c_.ops) == 1 and isinstance(c_.ops[0], ast.Eq) and
             {norm_text(c_.left), norm_text(c_.comparators[0])} == {"self._obj.index.names", "[None]"} for c_ in ast.walk(t))
    if ok:
        ctx.holds(f, branches[0], "parameter-set branch only for a single unnamed index level")
    else:
        ctx.violated(f, branches[0], "the parameter-set branch (rows of the Series become columns) is guarded by `%s`, which is not "
                     "`self._obj.index.names == [None]`: a Series over several unnamed levels is no parameter set" % norm_text(t)[:80],
                     text="parameter-set branch guard")


def _r13(ctx):
    """R-C13-13: 'NaN where the original had no such key ... for partially shared index levels'.  Operands with shared levels are
    aligned with an outer join; rows that only one operand contributes have no code for the levels only the other one has.  The
    step that turns codes back into keys must provide for missing codes (a test for NaN codes next to the positional decode);
    a bare `levels[codes - offset]` raises IndexError for exactly the inputs the clause is about."""
    prog = ctx.prog
    ctx.rule("R-C13-13", floor=1, what="codes are turned back into keys with a provision for missing codes")
    from ..frontend import set_parents
    ex = set_parents(ast.parse("class K:\n    def __init__(self, o):\n        self.lv = {}\n        self.lv['a'] = o.index.get_level_values('a').unique()\n"
                               "    def back(self, c):\n        return self.lv['a'][c - 3]\n"
                               "    def back2(self, c):\n        p = pd.Index(c - 3)\n        if not p.hasnans:\n            return self.lv['a'][p]\n        return pd.Index(pd.Series(self.lv['a']).reindex(p))\n")).body[0]
    if len(unguarded_code_decodes(ex)) != 1:
        raise AnalysisError("R-C13-13 built-in example not matched")
    n = 0
    for k, ci in sorted(prog.classes.items()):
        if ci.module.name != MOD:
            continue
        decodes = [x for x in ast.walk(ci.node) if isinstance(x, ast.Subscript) and isinstance(x.value, ast.Subscript) and
                   is_self_attr(x.value.value) and not isinstance(x.slice, ast.Constant) and isinstance(x.ctx, ast.Load)]
        if not decodes:
            continue
        bad = unguarded_code_decodes(ci.node)
        for node, fn in bad:
            n += 1
            fi = next((f[-1] for f in ci.methods.values() if any(x is node for x in ast.walk(f[-1].node))), ci.key)
            ctx.violated(fi, node, "%s turns codes back into keys with %s and no provision for missing codes: after the outer alignment "
                         "of partially shared levels a row that one operand lacks has NaN as code of the other's own levels - "
                         "IndexError instead of a row with NaN (obj over (a, b, d), parameter over (a, b) with a key obj does not have)"
                         % (ci.name, norm_text(node)[:70]), text="code decode without provision for missing codes")
        for node in decodes:
            if not any(node is b for b, _ in bad):
                n += 1
                ctx.holds(ci.key, node, "%s: decode %s is accompanied by a test for missing codes" % (ci.name, norm_text(node)[:50]))
    if n == 0:
        raise AnalysisError("no decode of index codes found in the broadcaster module")


def _r12(ctx):
    """R-C13-12: the result rows carry the operands' own keys.  The level cache keeps the keys as pandas Index objects; the real
    index of the result is made by indexing those objects.  Reading them through .values / .to_numpy() / np.asarray turns
    time-zone aware timestamps into naive UTC values (categoricals, intervals, nullable integers likewise change type): rows
    with keys the operand does not have."""
    prog = ctx.prog
    ctx.rule("R-C13-12", floor=1, what="cached index levels are read as Index objects, not through .values / np.asarray")
    ex = ast.parse("class K:\n    def __init__(self, o):\n        self.lv = {}\n        self.lv['a'] = o.index.get_level_values('a').unique()\n"
                   "    def back(self, c):\n        return self.lv['a'].values[c], self.lv['a'][c]\n").body[0]
    if len(key_type_losses(ex)) != 1:
        raise AnalysisError("R-C13-12 built-in example not matched")
    n = 0
    for k, ci in sorted(prog.classes.items()):
        if ci.module.name != MOD:
            continue
        n += 1
        hits = key_type_losses(ci.node)
        for node, text in hits:
            fi = next((f[-1] for f in ci.methods.values() if any(x is node for x in ast.walk(f[-1].node))), ci.key)
            ctx.violated(fi, node, "%s reads the cached index level through %s: the keys lose their pandas type (a time-zone aware level "
                         "comes back as naive UTC timestamps), the result rows carry keys the operand does not have" % (ci.name, text),
                         text="cached level read through " + text.split("[")[0][-30:])
        if not hits:
            ctx.holds(ci.key, None, "%s: cached index levels are only indexed as Index objects" % ci.name)
    if n == 0:
        raise AnalysisError("no class found in the broadcaster module")


def _exceptional(ctx, fi, acquire_stmt, release_stmts, what):
    """R-C13-1, exceptional exits: pandas refuses some index layouts in the middle of the alignment (NotImplementedError for
    non-unique unnamed indices, IndexError for a missing combination of shared levels).  The operands belong to the caller: the
    acquire statement must be IMMEDIATELY followed by a try statement whose finally clause contains the matching release
    (nothing that can raise in between)."""
    blk = None
    par = getattr(acquire_stmt, "_parent", None)
    for f_, v in ast.iter_fields(par) if par is not None else []:
        if isinstance(v, list) and any(x is acquire_stmt for x in v):
            blk = v
    nxt = None
    if blk is not None:
        i = [k for k, x in enumerate(blk) if x is acquire_stmt][0]
        nxt = blk[i + 1] if i + 1 < len(blk) else None
    ok = isinstance(nxt, ast.Try) and nxt.finalbody and any(any(x is r for x in ast.walk(fb)) for fb in nxt.finalbody for r in release_stmts)
    if ok:
        ctx.holds(fi, acquire_stmt, "%s are given back in the finally clause of the try statement that follows the acquisition" % what)
    else:
        ctx.violated(fi, acquire_stmt, "%s are restored on the normal path only: the acquisition is not immediately followed by a try "
                     "statement whose finally clause releases them, so an exception raised by pandas during the alignment leaves "
                     "the CALLER's operands with re-coded indices / placeholder names" % what, text="no release on exceptional exits: " + what[:40])


def _r11(ctx):
    """R-C13-11 (the rule R-C12-8 evaluated for this property): 'every calculation built on the broadcast equals the element-by-element
    result' - the histogram accessor of the mean stress transformation combines the broadcast result with the rows of the caller's
    matrix by position; it has to bring the levels into the matrix's order and re-index by the matrix's index first."""
    from .c12 import _r8
    _r8(ctx, "R-C13-11")


def _r10(ctx):
    """R-C13-10: the frame a Series object is broadcast into has the row labels the broadcaster gives it (0..n-1 or the
    parameter's index), never labels pandas derives from the object's `name`."""
    prog = ctx.prog
    ctx.rule("R-C13-10", floor=1, what="a broadcast frame is not built from a list of the Series object (row labels would be its name)")
    ex = ast.parse("def f(self, p):\n    return pd.DataFrame([self._obj] * len(p)), pd.DataFrame([self._obj] * len(p), index=range(len(p)))\n").body[0]
    if len(frames_from_series_lists(ex)) != 1:
        raise AnalysisError("R-C13-10 built-in example not matched")
    n = 0
    m = 0
    for key, fi in sorted(prog.functions.items()):
        if fi.module.name != MOD or fi.parent is not None:
            continue
        n += 1
        for c in frames_from_series_lists(fi.node):
            m += 1
            ctx.violated(fi, c, "%s: %s builds the broadcast frame from a list of the Series object: pandas labels every row with "
                         "the object's name (the key of a curve taken with .loc[key]), so object and parameter no longer share an "
                         "index" % (fi.name, norm_text(c)[:60]), text="frame from list of the object in " + fi.name)
    if n < 5:
        raise AnalysisError("broadcaster functions not found")
    if not m:
        ctx.holds(MOD, None, "%d broadcaster functions: no frame is built from a list of the Series object" % n)


def _r9(ctx):
    """R-C13-9: every calculation built on broadcast() combines its two results row by row; none re-orders one of them alone."""
    paired_results_rule(ctx, "R-C13-9", None)


def _r8(ctx):
    """R-C13-8: an array parameter is attached to the object's index by position.  `pd.Series(values, index=I)` does that for an
    array; if `values` is itself a Series (with the RangeIndex it got when it was built) pandas re-indexes it by LABEL: rows
    whose key is not in 0..n-1 become NaN, integer keys pick the wrong element."""
    prog = ctx.prog
    ctx.rule("R-C13-8", floor=1, what="array data is attached to the object's index positionally, never through a freshly built Series")
    ex = ast.parse("def f(self, p):\n    p = pd.Series(np.broadcast_to(p, 3))\n    q = np.broadcast_to(p, 3)\n"
                   "    return pd.Series(p, index=self._obj.index), pd.Series(q, index=self._obj.index)\n").body[0]
    if len(_relabelled_series(ex)) != 1:
        raise AnalysisError("R-C13-8 built-in example not matched")
    n = 0
    for key, fi in sorted(prog.functions.items()):
        if fi.module.name != MOD or fi.parent is not None:
            continue
        n += 1
        for c, src in _relabelled_series(fi.node):
            ctx.violated(fi, c, "%s builds %s from a pandas object that was created without an index (%s): the rows are looked up by "
                         "the labels of the new index instead of being attached in order - keys outside 0..n-1 give NaN, integer keys "
                         "the wrong element" % (fi.name, norm_text(c)[:70], norm_text(src)[:60]), text="relabelled " + fi.name)
    ctx.holds("pylife.core.broadcaster", None, "no Series/DataFrame is built from an index-less pandas object with a new index (%d functions)" % n)


def _r7(ctx):
    """Kind discipline of the alignment: DataFrame.align(Series, axis=0) is not reliable in pandas (it can hand the frame back
    with its old index when no row of the frame has to move - assumption below), so the object and the parameter are aligned
    directly only when that combination is excluded; otherwise the series is wrapped into a one-column frame first."""
    prog = ctx.prog
    ctx.rule("R-C13-7", floor=1, what="no direct DataFrame.align(Series) between the operands: the mixed case is wrapped or excluded by a kind test")
    import ast as _a
    from ..frontend import set_parents as _sp
    ex = _sp(_a.parse("def f(self, parameter):\n    obj, prm = self._obj.align(parameter, axis=0)\n    return obj, prm\n")).body[0]
    if [g for _, g in _mixed_align_sites(ex, ["parameter"])] != [False]:
        raise AnalysisError("R-C13-7 built-in example not matched")
    n = 0
    for key, fi in sorted(prog.functions.items()):
        if fi.module.name != MOD:
            continue
        names = set(fi.params) | (set(fi.parent.params) if fi.parent is not None else set())
        names.discard("self")
        for c, guarded in _mixed_align_sites(fi.node, names):
            if any(c is c2 for f2 in prog.functions.values() if f2.parent is fi for c2 in ast.walk(f2.node)):
                continue                    # reported with the nested function
            n += 1
            if guarded:
                ctx.holds(fi, c, "%s: the combination DataFrame receiver / Series argument is excluded by a kind test" % norm_text(c))
            else:
                ctx.violated(fi, c, "%s aligns the object with the caller's parameter whatever their kinds: for a DataFrame object "
                             "and a Series parameter pandas can return the frame with its old index, so the two results do not "
                             "share an index (wrap the series into a one-column frame, or exclude the combination with an "
                             "isinstance test)" % norm_text(c), text="mixed align " + norm_text(c))
    if n == 0:
        raise AnalysisError("no alignment of the operands found in the broadcaster")


def _r6(ctx, eff):
    """Broadcasting two indexed operands returns NEW objects: neither result may be (an alias or view of) an operand, otherwise a
    caller that edits the result - LoadCollective.scale/shift do - edits the user's data (effect analysis: the return summary
    of the frame-to-frame path contains no operand)."""
    prog = ctx.prog
    ctx.rule("R-C13-6", floor=1, what="the frame-to-frame path returns fresh objects, never the operands themselves")
    f = prog.func(MOD + ":Broadcaster._broadcast_frame_to_frame")
    summ = eff.summary(f)
    if summ is None:
        raise AnalysisError("no effect summary for _broadcast_frame_to_frame")
    bad = sorted({(o, m) for o, m in summ["returns"] if o[0] in ("param", "elem") or o == ("self", "_obj")})
    if not bad:
        ctx.holds(f, f.node, "no return value of the frame-to-frame path aliases an operand")
    else:
        rets = [x for x in walk_function(f.node) if isinstance(x, ast.Return) and x.value is not None]
        site = next((r_ for r_ in rets if any((isinstance(n, ast.Name) and n.id in f.params) or is_self_attr(n, "_obj")
                                             for n in ast.walk(r_.value))), rets[0] if rets else f.node)
        ctx.violated(f, site, "the frame-to-frame path can return an operand itself (%s): callers that write into the result "
                     "(scale, shift) then modify the user's object, and a second identical call gives another answer" %
                     ", ".join("%s (%s)" % ("/".join(map(str, o)), m) for o, m in bad), text="operand returned")


def _r5(ctx, cache):
    """The index cache replaces every level's keys by integer codes before the operands are aligned.  pandas' align/join
    take a short cut when the two indices compare equal, and Index.equals ignores level names (assumption below), so the
    codes of differently named levels must not be able to coincide: (A,B) against (B,C) - or (B,A) - with equally sized levels
    would otherwise be returned un-aligned.  Codes must therefore be unique per level (disjoint ranges), and the decoding
    must undo exactly that."""
    prog = ctx.prog
    ctx.rule("R-C13-5", floor=2, what="re-coded index values are unique per level name (disjoint code ranges); decode inverts encode")
    ci = cache if hasattr(cache, 'methods') else cache.cls
    enc, dec = [], []
    for name, fs in ci.methods.items():
        f = fs[-1]
        for c in calls_in(f.node):
            if isinstance(c.func, ast.Attribute) and c.func.attr in ("get_indexer_for", "get_indexer"):
                enc.append((f, c))
        for n in ast.walk(f.node):
            if isinstance(n, ast.Subscript) and isinstance(n.value, ast.Subscript) and is_self_attr(n.value.value) and \
                    isinstance(n.ctx, ast.Load) and any(isinstance(x, ast.Call) or isinstance(x, ast.Name) for x in ast.walk(n.slice)) \
                    and f.name != "__init__":
                dec.append((f, n))
    if not enc or not dec:
        raise AnalysisError("index cache: encoding (get_indexer_for) / decoding sites not found")

    def level_key(e):
        # the level-name expression a per-level table is subscripted with
        return norm_text(e.slice) if isinstance(e, ast.Subscript) else None

    def offset_term(expr, op):
        # expr == <inner> (op) self.<table>[<level key>]
        if isinstance(expr, ast.BinOp) and isinstance(expr.op, op) and isinstance(expr.right, ast.Subscript) and \
                is_self_attr(expr.right.value):
            return expr.right.value.attr, level_key(expr.right)
        return None
    tables = set()

    def encode_sites():
        """(function, expression that is the code of a level) - an encode call, or the call of a helper that returns one"""
        out = []
        for f, c in enc:
            par = c._parent
            if isinstance(par, ast.Return) and f.name != "__init__":
                # helper returning the codes: every return of the helper must be a key-table lookup, and the sites are its calls
                for r_ in [x for x in walk_function(f.node) if isinstance(x, ast.Return) and x.value is not None]:
                    if not (isinstance(r_.value, ast.Call) and isinstance(r_.value.func, ast.Attribute) and
                            r_.value.func.attr in ("get_indexer_for", "get_indexer")):
                        ctx.violated(f, r_, "%s returns %s as level codes on some path instead of looking the keys up in the level's "
                                     "key table: codes assigned by position pair values with the wrong keys whenever an operand "
                                     "lists the keys in another order" % (f.name, norm_text(r_.value)), text="codes not from lookup")
                for name2, fs2 in ci.methods.items():
                    g = fs2[-1]
                    for c2 in calls_in(g.node):
                        if isinstance(c2.func, ast.Attribute) and is_self_attr(c2.func) and c2.func.attr == f.name:
                            lvl = norm_text(c2.args[0]) if c2.args else None
                            out.append((g, c2, lvl))
            else:
                lvl = level_key(c.func.value) if isinstance(c.func.value, ast.Subscript) else None
                out.append((f, c, lvl))
        return out
    for f, c, lvl in encode_sites():
        par = c._parent
        got = offset_term(par, ast.Add) if isinstance(par, ast.BinOp) and par.left is c else None
        if got and got[1] == lvl:
            tables.add(got[0])
            ctx.holds(f, c, "%s: code = position in the level's key table + self.%s[%s] (per-level offset)" % (f.name, got[0], lvl))
        else:
            ctx.violated(f, c, "%s: level keys are re-coded as bare positions %s; the codes of differently named levels share the "
                         "range 0..n-1, so the re-coded indices of operands with different level names or orders (e.g. (A,B) "
                         "against (B,C) with equally sized levels) compare equal and align() returns them un-aligned" %
                         (f.name, norm_text(c)), text="bare positions " + f.name + " " + (norm_text(c.args[0])[:40] if c.args else ""))
    def _decoded_positions(f, sl):
        """the subscript expression with single-definition locals of the (possibly nested) function resolved and value-preserving
        index constructors stripped: positions = pd.Index(codes - off); levels[positions]"""
        fn = sl
        while not isinstance(fn, (ast.FunctionDef, ast.Lambda)):
            fn = fn._parent
        e = inline_single_defs(fn, sl, depth=3) if isinstance(fn, ast.FunctionDef) else sl
        while isinstance(e, ast.Call) and (call_name(e) or "") in ("pd.Index", "np.asarray", "pd.array", "np.array") and len(e.args) == 1:
            e = e.args[0]
        return e
    for f, n in dec:
        got = offset_term(_decoded_positions(f, n.slice), ast.Sub)
        lvl = level_key(n.value)
        if got and got[1] == lvl and (not tables or got[0] in tables):
            ctx.holds(f, n, "%s: decode subtracts the same per-level offset" % f.name)
        elif tables:
            ctx.violated(f, n, "%s: decoding %s does not subtract the per-level offset self.%s[...] that the encoding adds" %
                         (f.name, norm_text(n), sorted(tables)[0]), text="decode " + norm_text(n)[:60])
    # the offsets are cumulative sizes of the level tables: ranges are disjoint
    init = prog.lookup_method(ci, "__init__")

    def cumulative(fn, is_container):
        """a loop in fn stores a running counter under each level and advances it by the size of that level's table"""
        for lp in [x for x in walk_function(fn.node) if isinstance(x, ast.For)]:
            st_ = [s_ for s_ in lp.body if isinstance(s_, ast.Assign) and isinstance(s_.targets[0], ast.Subscript) and
                   is_container(s_.targets[0].value) and isinstance(s_.value, ast.Name)]
            acc_ = [s_ for s_ in lp.body if isinstance(s_, ast.AugAssign) and isinstance(s_.op, ast.Add) and
                    isinstance(s_.value, ast.Call) and call_name(s_.value) == "len" and isinstance(s_.target, ast.Name)]
            if st_ and acc_ and acc_[0].target.id == st_[0].value.id and lp.body.index(st_[0]) < lp.body.index(acc_[0]):
                zero = [s_ for s_ in walk_function(fn.node) if isinstance(s_, ast.Assign) and isinstance(s_.targets[0], ast.Name)
                        and s_.targets[0].id == acc_[0].target.id and const_value(s_.value) == 0]
                if zero:
                    return st_[0]
        return None
    for t in sorted(tables):
        site = cumulative(init, lambda e_: is_self_attr(e_, t))
        where = init
        if site is None:
            # self.<t> = <helper>(...) : the helper builds the table in a local dict and returns it
            for s_ in walk_function(init.node):
                if isinstance(s_, ast.Assign) and any(is_self_attr(x, t) for x in s_.targets) and isinstance(s_.value, ast.Call):
                    for key in prog.resolve_call(init, s_.value):
                        h_ = prog.functions.get(key)
                        if h_ is None:
                            continue
                        rets = [r_ for r_ in walk_function(h_.node) if isinstance(r_, ast.Return) and isinstance(r_.value, ast.Name)]
                        if rets:
                            site = cumulative(h_, lambda e_, nm=rets[0].value.id: isinstance(e_, ast.Name) and e_.id == nm)
                            where = h_
        if site is not None:
            ctx.holds(where, site, "self.%s[level] = running sum of the sizes of the preceding level tables: disjoint code ranges" % t)
        else:
            anywhere = [s_ for s_ in walk_function(init.node) if isinstance(s_, ast.Assign) and
                        any(is_self_attr(x, t) or (isinstance(x, ast.Subscript) and is_self_attr(x.value, t)) for x in s_.targets)]
            if any(isinstance(x.value, ast.Call) and not prog.resolve_call(init, x.value) for x in anywhere if isinstance(x.value, ast.Call)):
                raise AnalysisError("index cache: construction of self.%s not understood" % t)
            ctx.violated(init, anywhere[0] if anywhere else init.node, "the per-level offsets self.%s are not cumulative table sizes; "
                         "code ranges may overlap" % t, text="offsets " + t)


def _r4(ctx, acquire, release):
    """Placeholders and level order.  (a) The acquire helper replaces exactly the None level names: the selection is an identity
    test against None (a truthiness test would also replace names such as 0 or '', which the release helper then turns into
    None: the operand's level name is lost and a shared level is cross joined).  (b) The release helper maps exactly the
    placeholders back to None.  (c) Where the aligned pair is re-ordered, both results are re-ordered to the canonical level
    order - identical index means identical level order."""
    prog = ctx.prog
    ctx.rule("R-C13-4", floor=3, what="only None names get placeholders; only placeholders are reset; both results are re-ordered to the canonical level order")
    comp = [n for n in ast.walk(acquire.node) if isinstance(n, ast.ListComp)]
    if len(comp) != 1 or not isinstance(comp[0].generators[0].target, ast.Name):
        # second idiom: an explicit loop over the level names that re-binds the name under a test and appends it
        loops = [n for n in ast.walk(acquire.node) if isinstance(n, ast.For) and isinstance(n.target, ast.Name) and
                 isinstance(n.iter, ast.Attribute) and n.iter.attr == "names"]
        if len(loops) != 1:
            raise AnalysisError("%s: the comprehension / loop building the new level names not found" % acquire.name)
        lp = loops[0]
        v = lp.target.id
        tests = [x for x in lp.body if isinstance(x, ast.If) and v in names_in(x.test)]
        appended = [c for c in calls_in(lp) if isinstance(c.func, ast.Attribute) and c.func.attr == "append" and len(c.args) == 1
                    and isinstance(c.args[0], ast.Name) and c.args[0].id == v and
                    any(c is getattr(x, "value", None) for x in lp.body)]
        if len(tests) != 1 or not appended:
            raise AnalysisError("%s: the loop building the new level names was not understood" % acquire.name)
        t = tests[0].test
        ident = isinstance(t, ast.Compare) and len(t.ops) == 1 and isinstance(t.left, ast.Name) and t.left.id == v and \
            isinstance(t.comparators[0], ast.Constant) and t.comparators[0].value is None and isinstance(t.ops[0], (ast.Is, ast.IsNot))
        arm = (tests[0].body if isinstance(t.ops[0], ast.Is) else tests[0].orelse) if ident else []
        other = (tests[0].orelse if isinstance(t.ops[0], ast.Is) else tests[0].body) if ident else []
        rebinds = any(isinstance(x, ast.Assign) and isinstance(x.targets[0], ast.Name) and x.targets[0].id == v and
                      any(isinstance(y, ast.Call) for y in ast.walk(x.value)) for x in arm)
        keeps = not any(isinstance(x, ast.Assign) and any(isinstance(y, ast.Name) and y.id == v for y in x.targets) for x in other)
        if ident and rebinds and keeps:
            ctx.holds(acquire, tests[0], "placeholder only for names that are None (identity test); every other name is kept")
        elif not ident:
            ctx.violated(acquire, tests[0], "the level names that get a placeholder are selected by %s, not by an identity test against "
                         "None: names such as 0 or '' would be replaced and later reset to None" % norm_text(t), text="none-name selection")
        else:
            raise AnalysisError("%s: the loop building the new level names was not understood" % acquire.name)
        comp = None
    v = comp[0].generators[0].target.id if comp else None
    e = comp[0].elt if comp else None
    ok = False
    if isinstance(e, ast.IfExp) and isinstance(e.test, ast.Compare) and len(e.test.ops) == 1 and \
            isinstance(e.test.left, ast.Name) and e.test.left.id == v and isinstance(e.test.comparators[0], ast.Constant) and \
            e.test.comparators[0].value is None:
        keep, new = (e.body, e.orelse) if isinstance(e.test.ops[0], ast.IsNot) else \
            ((e.orelse, e.body) if isinstance(e.test.ops[0], ast.Is) else (None, None))
        ok = keep is not None and isinstance(keep, ast.Name) and keep.id == v and isinstance(new, ast.Call)
    if comp is None:
        pass
    elif ok:
        ctx.holds(acquire, comp[0], "placeholder only for names that are None (identity test); every other name is kept")
    else:
        ctx.violated(acquire, comp[0], "the level names that get a placeholder are selected by %s, not by an identity test against "
                     "None: names such as 0 or '' would be replaced and later reset to None" % norm_text(e), text="none-name selection")
    comp = [n for n in ast.walk(release.node) if isinstance(n, ast.ListComp)]
    ok = False
    if len(comp) == 1 and isinstance(comp[0].elt, ast.IfExp) and isinstance(comp[0].generators[0].target, ast.Name):
        v = comp[0].generators[0].target.id
        e = comp[0].elt
        tokens = [p_ for p_ in release.params][-1]
        t = e.test
        if isinstance(t, ast.Compare) and len(t.ops) == 1 and isinstance(t.left, ast.Name) and t.left.id == v and \
                isinstance(t.comparators[0], ast.Name) and t.comparators[0].id == tokens:
            if isinstance(t.ops[0], ast.In):
                ok = isinstance(e.body, ast.Constant) and e.body.value is None and isinstance(e.orelse, ast.Name) and e.orelse.id == v
            elif isinstance(t.ops[0], ast.NotIn):
                ok = isinstance(e.orelse, ast.Constant) and e.orelse.value is None and isinstance(e.body, ast.Name) and e.body.id == v
    if not ok and not comp:
        # the same selection written as a loop:  for n in x.index.names: (names.append(None) if n in tokens else names.append(n))
        tokens = [p_ for p_ in release.params][-1]
        for lp in [n for n in ast.walk(release.node) if isinstance(n, ast.For) and isinstance(n.target, ast.Name)]:
            v = lp.target.id
            if len(lp.body) == 1 and isinstance(lp.body[0], ast.If) and len(lp.body[0].body) == 1 and len(lp.body[0].orelse) == 1:
                iff = lp.body[0]
                t = iff.test

                def appended(st_):
                    if isinstance(st_, ast.Expr) and isinstance(st_.value, ast.Call) and isinstance(st_.value.func, ast.Attribute) and \
                            st_.value.func.attr == "append" and len(st_.value.args) == 1:
                        return st_.value.args[0]
                    return None
                a_, b_ = appended(iff.body[0]), appended(iff.orelse[0])
                if isinstance(t, ast.Compare) and len(t.ops) == 1 and isinstance(t.left, ast.Name) and t.left.id == v and \
                        isinstance(t.comparators[0], ast.Name) and t.comparators[0].id == tokens and a_ is not None and b_ is not None:
                    if isinstance(t.ops[0], ast.NotIn):
                        a_, b_ = b_, a_
                    if isinstance(t.ops[0], (ast.In, ast.NotIn)) and isinstance(a_, ast.Constant) and a_.value is None and \
                            isinstance(b_, ast.Name) and b_.id == v:
                        ok = True
                        comp = [lp]
    if ok:
        ctx.holds(release, comp[0], "exactly the placeholders are reset to None, every other name is kept")
    else:
        ctx.violated(release, comp[0] if comp else release.node, "the release helper does not reset exactly the placeholder names to None",
                     text="placeholder reset")
    # symmetric re-ordering of the aligned pair
    n = 0
    for key, fi in prog.functions.items():
        if fi.module.name != MOD:
            continue
        rets = [s_ for s_ in fi.node.body if isinstance(s_, ast.Return) and isinstance(s_.value, ast.Tuple) and
                len(s_.value.elts) == 2 and all(isinstance(x, ast.Name) for x in s_.value.elts)]
        if not rets:
            continue
        pair = {x.id for x in rets[-1].value.elts}
        for blk in [s_ for s_ in walk_function(fi.node) if isinstance(s_, ast.If)]:
            re = {}
            for st in blk.body:
                if isinstance(st, ast.Assign) and isinstance(st.targets[0], ast.Name) and st.targets[0].id in pair and \
                        isinstance(st.value, ast.Call) and isinstance(st.value.func, ast.Attribute) and \
                        st.value.func.attr == "reorder_levels":
                    re[st.targets[0].id] = st
            if not re:
                continue
            n += 1
            if set(re) == pair:
                ctx.holds(fi, blk, "%s: both results (%s) are re-ordered to the canonical level order" % (fi.name, ", ".join(sorted(pair))))
            else:
                ctx.violated(fi, blk, "%s: only %s is re-ordered to the canonical level order, %s keeps whatever order align() "
                             "produced: the two results do not share an identical index" %
                             (fi.name, ", ".join(sorted(re)), ", ".join(sorted(pair - set(re)))), text="asymmetric reorder")
    if n == 0:
        raise AnalysisError("no re-ordering of an aligned pair found")


def _positive_example(ctx):
    from ..frontend import Program
    src = ("class B:\n    def __init__(self, o):\n        self._obj = o\n"
           "    def f(self, parameter):\n        x = parameter\n        x.index = [1]\n"
           "        self._obj.sort_index(inplace=True)\n        y = parameter.copy()\n        y.index = [2]\n")
    import ast as _a, hashlib
    from ..frontend import Module, set_parents, FuncInfo, ClassInfo
    tree = set_parents(_a.parse(src))
    p = object.__new__(Program)
    p.root, p.overrides, p._base = "", {}, None
    p.modules = {"ex": Module("ex", "ex.py", src, tree, "0")}
    p.modules["ex"].pysource = src
    p.functions, p.classes, p.accessors, p._subclasses = {}, {}, {}, {}
    p._index()
    e = Effects(p)
    s = e.summary(p.functions["ex:B.f"])
    kinds = sorted((x.kind, x.origin) for x in s["effects"])
    want = [("attr:index", ("param", "parameter")), ("call:sort_index(inplace=True)", ("self", "_obj"))]
    if kinds != want:
        raise AnalysisError("effect analysis positive example failed: %s" % (kinds,))
    ctx.holds("selftest:positive-example", None, "operand-write sinks fire on the built-in example and stay silent on its copy",
              {"effects": str(kinds)}, rule="R-C13-3")


# =========================================================================== variants

F2F = "Broadcaster._broadcast_frame_to_frame"


def variants():
    out = []

    def _one_level_body(tree):
        f = find_func(tree, "_IndexLevelCache._make_new_index")
        return next(st for st in f.body if isinstance(st, ast.If))

    def name_of_one_level_index(tree):
        st = _one_level_body(tree)
        st.body = [parse_stmt("return pd.Index(self.index_levels[index.name].get_indexer_for(index) + self._offsets[index.name], "
                              "name=index.name)")]
        return True
    out.append(witness("level tables looked up under index.name in the one-level branch", PATH, name_of_one_level_index, "R-C13-15"))

    def name_kept_from_dot_name(tree):
        st = _one_level_body(tree)
        ret = st.body[-1]
        kw = next(k for k in ret.value.keywords if k.arg == "name")
        kw.value = ast.parse("index.name", mode="eval").body
        return True
    out.append(witness("re-coded one-level index named after index.name", PATH, name_kept_from_dot_name, "R-C13-15"))

    def nlevels_test(tree):
        st = _one_level_body(tree)
        st.test = ast.parse("index.nlevels == 1", mode="eval").body
        return True
    out.append(twin("one-level branch chosen with index.nlevels == 1", PATH, nlevels_test))

    def multi_first(tree):
        f = find_func(tree, "_IndexLevelCache._make_new_index")
        i = next(k for k, st in enumerate(f.body) if isinstance(st, ast.If))
        st = f.body[i]
        rest = f.body[i + 1:]
        f.body[i:] = [ast.If(test=ast.parse("len(index.names) > 1", mode="eval").body, body=rest, orelse=[])] + st.body
        ast.fix_missing_locations(f)
        return True
    out.append(twin("several-level branch written first, one-level code after it", PATH, multi_first))

    def multi_first_dot_name(tree):
        multi_first(tree)
        f = find_func(tree, "_IndexLevelCache._make_new_index")
        f.body[-1] = parse_stmt("return pd.Index(self.index_levels[index.name].get_indexer_for(index) + self._offsets[index.name], "
                                "name=index.name)")
        return True
    out.append(witness("several-level branch first, then index.name for the one-level case", PATH, multi_first_dot_name, "R-C13-15"))

    MS = "src/pylife/strength/meanstress.py"

    def five_segment_keeps_aligned(tree):
        f = find_func(tree, "HaighDiagram.five_segment")
        for st in ast.walk(f):
            if isinstance(st, ast.Assign) and isinstance(st.targets[0], ast.Tuple) and isinstance(st.value, ast.Call) and \
                    isinstance(st.value.func, ast.Attribute) and st.value.func.attr == "broadcast":
                st.targets[0].elts[1] = ast.Name(id="haigh", ctx=ast.Store())
                return True
        return False
    out.append(repair("five_segment fills the diagram that the broadcast returned together with the slopes", MS, five_segment_keeps_aligned,
                      "R-C13-16"))

    def goodman_positional(tree):
        f = find_func(tree, "HaighDiagram.fkm_goodman")
        i = next(k for k, st in enumerate(f.body) if isinstance(st, ast.Assign) and norm_text(st.targets[0]) == "R_index")
        f.body.insert(i + 1, parse_stmt("haigh.iloc[R_index.get_indexer_for([0])] = haigh_frame.iloc[R_index.get_indexer_for([0]), 0] * 0"))
        return True
    out.append(witness("fkm_goodman pairs the broadcast index frame with the dummy series by position", MS, goodman_positional, "R-C13-16"))

    def assign_by_keywords(tree):
        f = find_func(tree, "Broadcaster._broadcasted_dataframe")
        f.body = [parse_stmt("data = np.empty((len(parameter), len(self._obj)))"),
                  parse_stmt("return pd.DataFrame(data, columns=self._obj.index).assign(**self._obj)")]
        return True
    out.append(witness("parameter set expanded into keyword arguments of DataFrame.assign", PATH, assign_by_keywords, "R-C13-19"))

    def one_element_is_scalar(tree):
        f = find_func(tree, "Broadcaster._broadcast_series")
        st = next(x for x in f.body if isinstance(x, ast.If))
        st.test = ast.parse("prm.size == 1", mode="eval").body
        return True
    out.append(witness("arrays of one element take the scalar path of _broadcast_series", PATH, one_element_is_scalar, "R-C13-18"))

    def ndim_test(tree):
        f = find_func(tree, "Broadcaster._broadcast_series")
        st = next(x for x in f.body if isinstance(x, ast.If))
        st.test = ast.parse("prm.ndim == 0", mode="eval").body
        return True
    out.append(twin("scalar path of _broadcast_series chosen with prm.ndim == 0", PATH, ndim_test))

    def recode_in_place(tree):
        f = find_func(tree, "_IndexLevelCache.__init__")
        idx = [i for i, st in enumerate(f.body) if isinstance(st, ast.Assign) and isinstance(st.targets[0], ast.Attribute) and
               st.targets[0].attr == "index" and isinstance(st.targets[0].value, ast.Name) and st.targets[0].value.id in ("obj", "operand")]
        if len(idx) != 2:
            return False
        f.body[idx[0]] = parse_stmt("obj.index = self._make_new_index(obj.index)")
        f.body[idx[1]] = parse_stmt("operand.index = self._make_new_index(operand.index)")
        return True
    out.append(witness("operands re-coded one after the other (aliasing operands re-coded twice)", PATH, recode_in_place, "R-C13-17"))

    def identity_fast_path(tree):
        f = find_func(tree, F2F)
        i = next(k for k, st in enumerate(f.body) if not isinstance(st, ast.FunctionDef) and
                 not (isinstance(st, ast.Expr) and isinstance(st.value, ast.Constant)))
        f.body.insert(i, parse_stmt("if parameter.index is self._obj.index and len(droplevel) == 0:\n    return parameter, self._obj"))
        return True
    out.append(witness("fast path returns the operands themselves", PATH, identity_fast_path, "R-C13-6"))

    def positional_codes(tree):
        f = find_func(tree, "_IndexLevelCache._make_new_index")
        cls = f._parent
        cls.body.append(parse_stmt("def _level_codes(self, name, values):\n    level = self.index_levels[name]\n"
                                   "    if values.is_unique and len(values) == len(level):\n        return np.arange(len(level))\n"
                                   "    return level.get_indexer_for(values)"))
        n = 0
        for c in list(ast.walk(f)):
            if isinstance(c, ast.Call) and isinstance(c.func, ast.Attribute) and c.func.attr == "get_indexer_for":
                lvl = ast.unparse(c.func.value.slice)
                replace_node(c, ast.parse("self._level_codes(%s, %s)" % (lvl, ast.unparse(c.args[0])), mode="eval").body)
                n += 1
        return n == 2
    out.append(witness("level codes taken by position when the keys are unique", PATH, positional_codes, "R-C13-5"))

    def codes_helper(tree):
        f = find_func(tree, "_IndexLevelCache._make_new_index")
        cls = f._parent
        cls.body.append(parse_stmt("def _level_codes(self, name, values):\n    return self.index_levels[name].get_indexer_for(values)"))
        n = 0
        for c in list(ast.walk(f)):
            if isinstance(c, ast.Call) and isinstance(c.func, ast.Attribute) and c.func.attr == "get_indexer_for":
                lvl = ast.unparse(c.func.value.slice)
                replace_node(c, ast.parse("self._level_codes(%s, %s)" % (lvl, ast.unparse(c.args[0])), mode="eval").body)
                n += 1
        return n == 2
    out.append(twin("key-table lookup moved into a helper, offsets added by the caller", PATH, codes_helper))

    def bare_positions(tree):
        f = find_func(tree, "_IndexLevelCache._make_new_index")
        n = 0
        for b in list(ast.walk(f)):
            if isinstance(b, ast.BinOp) and isinstance(b.op, ast.Add) and isinstance(b.left, ast.Call) and \
                    isinstance(b.left.func, ast.Attribute) and b.left.func.attr == "get_indexer_for":
                replace_node(b, b.left)
                n += 1
        return n > 0
    out.append(witness("level keys re-coded as bare positions", PATH, bare_positions, "R-C13-5"))

    def decode_without_offset(tree):
        f = find_func(tree, "_IndexLevelCache.restore_real_index")
        for b in list(ast.walk(f)):
            if isinstance(b, ast.BinOp) and isinstance(b.op, ast.Sub) and isinstance(b.right, ast.Subscript) and \
                    is_self_attr(b.right.value, "_offsets"):
                replace_node(b, b.left)
                return True
        return False
    out.append(witness("decoding forgets the per-level offset", PATH, decode_without_offset, "R-C13-5"))

    def truthy_names(tree):
        f = find_func(tree, "_replace_none_index_names_with_unique_string")
        for n in ast.walk(f):
            if isinstance(n, ast.ListComp):
                n.elt = ast.parse("name or make_uuid()", mode="eval").body
                return True
        return False
    out.append(witness("placeholder for every falsy level name", PATH, truthy_names, "R-C13-4"))

    def reorder_prm_only(tree):
        f = find_func(tree, F2F)
        for n in ast.walk(f):
            if isinstance(n, ast.If) and any(isinstance(x, ast.Assign) and "reorder_levels" in ast.unparse(x) for x in n.body):
                n.body = [x for x in n.body if not (isinstance(x, ast.Assign) and x.targets[0].id == "obj")]
                return len(n.body) == 1
        return False
    out.append(witness("only the parameter is re-ordered after align", PATH, reorder_prm_only, "R-C13-4"))

    def none_test_swapped(tree):
        f = find_func(tree, "_replace_none_index_names_with_unique_string")
        for n in ast.walk(f):
            if isinstance(n, ast.ListComp):
                n.elt = ast.parse("make_uuid() if name is None else name", mode="eval").body
                return True
        return False
    out.append(twin("placeholder selection written with `is None`", PATH, none_test_swapped))

    def _operand_release(f):
        for c in calls_in(f, name="_replace_unique_string_with_none_name"):
            if c.args and isinstance(c.args[0], ast.List) and any(isinstance(e, ast.Name) and e.id == "parameter" for e in c.args[0].elts):
                return c
        return None

    def _blocks_of(f):
        for n in ast.walk(f):
            for fld in ("body", "orelse", "finalbody"):
                blk = getattr(n, fld, None)
                if isinstance(blk, list) and blk and isinstance(blk[0], ast.stmt):
                    yield blk

    def drop_param(tree):
        f = find_func(tree, F2F)
        c = _operand_release(f)
        if c is None:
            return False
        c.args[0].elts = [e for e in c.args[0].elts if not (isinstance(e, ast.Name) and e.id == "parameter")]
        return True
    out.append(witness("drop parameter from name-restore list", PATH, drop_param, "R-C13-1"))

    def names_before_index(tree):
        f = find_func(tree, F2F)
        rel = _operand_release(f)
        ri = rn = None
        for blk in _blocks_of(f):
            for i, s in enumerate(blk):
                if isinstance(s, ast.Expr) and isinstance(s.value, ast.Call) and isinstance(s.value.func, ast.Attribute) and \
                        s.value.func.attr == "restore_original_indeces":
                    ri = (blk, i)
                if isinstance(s, ast.Expr) and s.value is rel:
                    rn = (blk, i)
        if ri is None or rn is None:
            return False
        ri[0][ri[1]], rn[0][rn[1]] = rn[0][rn[1]], ri[0][ri[1]]
        return True
    out.append(witness("restore names before indices", PATH, names_before_index, "R-C13-1"))

    def delete_restore(tree):
        f = find_func(tree, F2F)
        for blk in _blocks_of(f):
            for i, s in enumerate(blk):
                if isinstance(s, ast.Expr) and isinstance(s.value, ast.Call) and isinstance(s.value.func, ast.Attribute) \
                        and s.value.func.attr == "restore_original_indeces":
                    blk[i] = ast.Pass()
                    return True
        return False
    out.append(witness("delete index restore", PATH, delete_restore, "R-C13-1"))

    def release_outside_finally(tree):
        f = find_func(tree, F2F)
        for n in ast.walk(f):
            if isinstance(n, ast.Try) and n.finalbody and any(isinstance(x, ast.Call) and isinstance(x.func, ast.Attribute) and
                                                              x.func.attr == "restore_original_indeces" for fb in n.finalbody for x in ast.walk(fb)):
                n.body = n.body + n.finalbody
                n.finalbody = []
                n.handlers = [ast.ExceptHandler(type=ast.Name(id="KeyError", ctx=ast.Load()), name=None, body=[ast.Raise(exc=None, cause=None)])]
                return True
        return False
    out.append(witness("index restore on the normal path only", PATH, release_outside_finally, "R-C13-1"))

    def drop_token(tree):
        f = find_func(tree, F2F)
        c = _operand_release(f)
        if c is None:
            return False
        c.args[1] = ast.List(elts=[], ctx=ast.Load())
        return True
    out.append(witness("name restore with another token", PATH, drop_token, "R-C13-1"))

    def save_after(tree):
        f = find_func(tree, "_IndexLevelCache.__init__")
        save = [s for s in f.body if isinstance(s, ast.Assign) and is_self_attr(s.targets[0], "_obj_index")]
        if not save:
            return False
        f.body.remove(save[0])
        f.body.append(save[0])
        return True
    out.append(witness("cache saves index after replacing it", PATH, save_after, "R-C13-2"))

    def restore_swapped(tree):
        f = find_func(tree, "_IndexLevelCache.restore_original_indeces")
        a = [s for s in f.body if isinstance(s, ast.Assign)]
        if len(a) != 2:
            return False
        a[0].value, a[1].value = a[1].value, a[0].value
        return True
    out.append(witness("restore assigns the other operand's index", PATH, restore_swapped, "R-C13-2"))

    def restore_one(tree):
        f = find_func(tree, "_IndexLevelCache.restore_original_indeces")
        a = [s for s in f.body if isinstance(s, ast.Assign)]
        if len(a) != 2:
            return False
        f.body.remove(a[1])
        return True
    out.append(witness("restore forgets the operand", PATH, restore_one, "R-C13-2"))

    def sort_inplace(tree):
        f = find_func(tree, F2F)
        f.body.insert(len(f.body) - 1, parse_stmt("self._obj.sort_index(inplace=True)"))
        return True
    out.append(witness("sort_index(inplace=True) on self._obj", PATH, sort_inplace, "R-C13-3"))

    def name_write(tree):
        f = find_func(tree, "_broadcast_to")
        for s in ast.walk(f):
            if isinstance(s, ast.Assign) and isinstance(s.targets[0], ast.Attribute) and s.targets[0].attr == "name":
                s.targets[0].value = ast.Name(id="obj", ctx=ast.Load())
                s.value = ast.Constant("x")
                return True
        return False
    out.append(witness("helper renames the operand", PATH, name_write, "R-C13-3"))

    def alias_write(tree):
        f = find_func(tree, "Broadcaster._broadcast_frame")
        f.body.insert(0, parse_stmt("o = self._obj"))
        f.body.insert(1, parse_stmt("o.index = o.index.rename('x')"))
        return True
    out.append(witness("index write through an alias of self._obj", PATH, alias_write, "R-C13-3"))

    def item_write(tree):
        f = find_func(tree, "Broadcaster.broadcast")
        for s in ast.walk(f):
            if isinstance(s, ast.Assign) and isinstance(s.targets[0], ast.Subscript) and \
                    isinstance(s.targets[0].value, ast.Name) and s.targets[0].value.id == "df":
                s.targets[0].value = ast.Name(id="parameter", ctx=ast.Load())
                return True
        return False
    out.append(witness("item store into parameter", PATH, item_write, "R-C13-3"))

    # twins
    def rename(tree):
        f = find_func(tree, F2F)
        for n in ast.walk(f):
            if isinstance(n, ast.Name) and n.id == "uuids":
                n.id = "tokens"
            if isinstance(n, ast.Name) and n.id == "index_level_cache":
                n.id = "cache"
        return True
    out.append(twin("rename token and cache locals", PATH, rename))

    def reorder(tree):
        f = find_func(tree, F2F)
        idx = [i for i, s in enumerate(f.body) if isinstance(s, ast.Assign) and isinstance(s.targets[0], ast.Name)
               and s.targets[0].id in ("prm_index_names", "obj_index_names")]
        if len(idx) != 2:
            return False
        f.body[idx[0]], f.body[idx[1]] = f.body[idx[1]], f.body[idx[0]]
        return True
    out.append(twin("reorder independent statements", PATH, reorder))

    def copy_write(tree):
        f = find_func(tree, "Broadcaster._broadcast_frame")
        f.body.insert(0, parse_stmt("o = self._obj.copy()"))
        f.body.insert(1, parse_stmt("o.index = o.index.rename('x')"))
        return True
    out.append(twin("write to a copy of the operand", PATH, copy_write))

    def more_release(tree):
        f = find_func(tree, F2F)
        for c in calls_in(f, name="_replace_unique_string_with_none_name"):
            c.args[0].elts.append(ast.Name(id="prm", ctx=ast.Load()))
            return True
        return False
    out.append(twin("release list is a superset", PATH, more_release))
    return out
