"""C12 — mean stress transformation (structural and algebraic clauses)."""
from __future__ import annotations

import ast
from fractions import Fraction

from ..astutil import (call_name, calls_in, const_value, find_func, is_self_attr, names_in, parse_expr, parse_stmt,
                       replace_node)
from ..domains import weak_orderings
from ..astutil import inline_single_defs
from ..cfg import CFG
from ..dataflow import inline_env
from ..astutil import subst_names
from ..frontend import AnalysisError, walk_function, walk_stmts
from ..nf import to_nf, NFUnsupported, RF, Poly, _subst_atom
from ..report import norm_text
from ..witness import witness, twin

LEVEL = "other"
MS = "pylife.strength.meanstress"
EXPLANATION = (
    "Static decision of structural/algebraic clauses of C12. R-C12-1: the plain functions, the collective accessor and the "
    "histogram accessor all build the diagram with the matching HaighDiagram class method and call the same transform with "
    "their R_goal. R-C12-2: slope tables - FKM-Goodman (-inf,0] -> M, (0,1] -> M2 (default M/3), (1,inf) -> 0; five-segment "
    "M0..M4 on their intervals with R12/R23 as shared borders - checked as position <-> interval <-> value associations "
    "through the indexers. R-C12-3: the per-segment amplitude satisfies the iso-damage line equation S_a' + M S_m' = S_a + "
    "M S_m with S_m' = S_a'(1+R)/(1-R) in normal form, the R = -inf formula is the leading-coefficient limit of the general "
    "one, and the three places that convert R to mean/amplitude use the same expression. R-C12-4: the membership predicate "
    "of the re-binning (first bin [l,r], others (l,r]) puts every range in [0,max] into exactly one of two adjacent bins on "
    "every ordering of the range relative to the edges. Not decided: path independence across segment borders, idempotence "
    "and continuity over the whole Haigh plane.")
EXPLANATION += (' R-C12-4 additionally requires both aggregation paths (with and without additional index levels) to use the verified membership predicate and no library binning. R-C12-5: the two unbounded R segments, whose mid points are +-inf and whose pseudo mean stress is NaN, do not tie: the placing method treats mid == inf explicitly and brings the segments into a defined order (stable argsort / lexsort), and the walks sort the distances with a stable sort.')
EXPLANATION += (' R-C12-6: a local helper whose result is NaN-patched (.fillna) at one call site is patched or guarded by an explicit infinity test of its argument at every call site (belief-contradiction rule for the indeterminate form (1+R)/(1-R) at R = +-inf).')
EXPLANATION += (" R-C12-4 evaluates the membership mask of the re-binning helper (after inlining its locals) as a boolean function of the position of a range relative to the class edges, for &, |, ~, operator/np comparison functions and comparison expressions; an approximate comparison (np.isclose ...) in the mask is a violation. R-C12-7: no numeric parameter (M, M2, R_goal, amplitude, meanstress ...) of a mean-stress function is used as a truth value - 0 is admissible for each of them.")
EXPLANATION += (' R-C12-8: whatever the histogram accessor combines by position with the rows of the caller\'s matrix (A.iloc[mask(B.values)], traced through nested helpers and common row selections) is aligned with the index of the matrix first (B = B.reindex(self._obj.index)); the transformed classes come back in the row order of the broadcast; before that re-indexing the levels of B are put into the order of the levels of the matrix (reorder_levels, unconditionally or for every MultiIndex), because reindex matches levels by position.')
EXPLANATION += (' R-C12-9: class-level caches of the mean stress module are keyed by everything the cached object is built from (parameter-rooted access paths of value and key compared), and no accessor memoises across calls (memo rule).')
EXPLANATION += (" R-C12-11: no branch of the segment transformer is decided by a reduction (all / any / sum ...) of the mean stress sensitivities over all elements of a table of diagrams; only row masks are reduced (nothing to shift -> return).")
ASSUMPTIONS = ["pandas IntervalIndex.get_indexer_for maps interval values to their positions",
               "1 - R_goal + M (1 + R_goal) != 0 for admissible slopes"]


def run(ctx):
    for r in (_r1, _r2, _r3, _r4, _r5, _r6, _r7, _r8, _r9, _r11):
        ctx.attempt(r)


def slope_reductions(fn_node):
    """`if` tests inside the segment transformer that reduce the mean stress sensitivities of ALL elements to one truth value
    (`M.all()`, `M.any()`, `np.all(M == 0)`, `not M.sum()`): the slopes are per element x cycle, a branch decided that way is taken
    or skipped for every element at once.  [(if node, text)]"""
    haigh_helpers = {h.name for h in ast.walk(fn_node) if isinstance(h, ast.FunctionDef) and h is not fn_node and
                     any(is_self_attr(n, '_haigh') for n in ast.walk(h))}
    slopes = set()
    for st in ast.walk(fn_node):
        if isinstance(st, ast.Assign) and len(st.targets) == 1 and isinstance(st.targets[0], ast.Name):
            v = st.value
            if any(is_self_attr(n, '_haigh') for n in ast.walk(v)) or \
                    (isinstance(v, ast.Call) and isinstance(v.func, ast.Name) and v.func.id in haigh_helpers):
                slopes.add(st.targets[0].id)
    out = []
    for st in ast.walk(fn_node):
        if not isinstance(st, (ast.If, ast.IfExp, ast.While)):
            continue
        for c in ast.walk(st.test):
            red = None
            if isinstance(c, ast.Call) and isinstance(c.func, ast.Attribute) and c.func.attr in ('all', 'any', 'sum', 'max', 'min', 'item', 'bool'):
                red = c.func.value
            elif isinstance(c, ast.Call) and (call_name(c) or '') in ('np.all', 'np.any', 'all', 'any', 'bool', 'np.count_nonzero', 'np.sum') and c.args:
                red = c.args[0]
            if red is None:
                continue
            for n in ast.walk(red):
                direct = (isinstance(n, ast.Name) and n.id in slopes) or is_self_attr(n, '_haigh')
                if direct and not (isinstance(getattr(n, '_parent', None), ast.Attribute) and n._parent.attr in ('index', 'columns', 'shape', 'size')):
                    out.append((st, norm_text(st.test)[:70]))
                    break
    seen, res = set(), []
    for st, t in out:
        if id(st) not in seen:
            seen.add(id(st))
            res.append((st, t))
    return res


def _r11(ctx):
    """R-C12-11: inside the segment transformer no branch is decided by a reduction of the mean stress sensitivities over all
    elements.  With a table of sensitivities (one row per element) the transformation of an element's cycles depends on that
    element's slopes only; `if not M.all(): <leave the amplitudes>` skips the update for every element as soon as ONE element has
    a vanishing slope in the segment."""
    prog = ctx.prog
    ctx.rule('R-C12-11', floor=1, what='no branch of the segment transformer is decided by a reduction over the slopes of all elements')
    from ..frontend import set_parents
    ex = set_parents(ast.parse('class T:\n    def f(self, iv):\n        def seg():\n            return self._haigh.xs(iv, level="R")\n        ts = self.cycles_in(iv)\n        if not ts.any():\n            return\n        M = seg()\n        ts = self.sel(ts, M.index)\n        if not M.all():\n            return\n')).body[0].body[0]
    if len(slope_reductions(ex)) != 1:
        raise AnalysisError('R-C12-11 built-in example not matched')
    ci = prog.cls(MS + ':_SegmentTransformer')
    n = 0
    for name, defs in sorted(ci.methods.items()):
        fi = defs[-1]
        n += 1
        hits = slope_reductions(fi.node)
        for st, t in hits:
            ctx.violated(fi, st, '_SegmentTransformer.%s decides a branch by reducing the sensitivities of all elements to one truth value (%s): '
                         'one element with a vanishing slope in the segment changes the path of every element of the table' % (name, t),
                         text='branch on a reduction of the slopes in ' + name)
        if not hits:
            ctx.holds(fi, fi.node, '_SegmentTransformer.%s: no branch on a reduction of the slopes' % name)
    if n == 0:
        raise AnalysisError('_SegmentTransformer has no methods')


def _r9(ctx):
    """R-C12-9: the transformation of a cycle depends on the diagram parameters and the target only - nothing is remembered from
    an earlier call.  A diagram / transformer cached at class level is keyed by everything it was built from (memo rule and
    keyed-cache rule of sa/memo.py: a cache of FKM-Goodman diagrams keyed by M alone hands the diagram of another M2 to the next
    caller), and no accessor keeps a memo attribute or caching decorator."""
    from .. import memo
    prog = ctx.prog
    ctx.rule("R-C12-9", floor=1, what="diagrams / transformers cached across calls are keyed by everything they are built from")
    classes = [ci for k, ci in sorted(prog.classes.items()) if k.startswith(MS + ":")]
    if len(classes) < 4:
        raise AnalysisError("classes of the mean stress module not found")
    memo.check_keyed_caches(ctx, prog, classes)
    memo.run_rule(ctx, classes=classes)


def positional_pairings(fn_node):
    """(subscript, selected object root, mask source root) for every  A.iloc[<mask built from B.values / B.to_numpy()>]  in the
    function and its nested helpers, with A and B traced through helper parameters (call-site binding inside fn_node) and
    through row selections that are applied to both alike (.xs, .loc) back to names / self attributes of fn_node itself"""
    helpers = {n.name: n for n in ast.walk(fn_node) if isinstance(n, ast.FunctionDef) and n is not fn_node}

    def bindings(h):
        """parameter -> set of argument expressions at the call sites of helper h inside fn_node"""
        out = {}
        params = [a.arg for a in h.args.args]
        for c in ast.walk(fn_node):
            if isinstance(c, ast.Call) and isinstance(c.func, ast.Name) and c.func.id == h.name:
                for p_, a_ in zip(params, c.args):
                    out.setdefault(p_, []).append((a_, c))
        return out

    def owner(node):
        best = fn_node
        for h in helpers.values():
            if any(x is node for x in ast.walk(h)):
                if best is fn_node or any(x is h for x in ast.walk(best)):
                    best = h
        return best

    def root(e, scope, depth=0):
        """name of the object e is a row selection of, resolved to fn_node's own names"""
        while True:
            if isinstance(e, ast.Call) and isinstance(e.func, ast.Attribute) and e.func.attr in ("xs", "to_numpy", "copy", "astype"):
                e = e.func.value
            elif isinstance(e, ast.Attribute) and e.attr in ("values", "iloc", "loc", "array"):
                e = e.value
            elif isinstance(e, ast.Subscript):
                e = e.value
            else:
                break
        if is_self_attr(e):
            return "self." + e.attr
        if isinstance(e, ast.Name):
            if scope is not fn_node and depth < 4:
                # a local of the helper re-bound from a selection of itself / a parameter bound at the call sites
                defs = [st.value for st in ast.walk(scope) if isinstance(st, ast.Assign) and len(st.targets) == 1 and
                        isinstance(st.targets[0], ast.Name) and st.targets[0].id == e.id]
                for d in defs:
                    r_ = root(d, scope, depth + 1) if not (isinstance(d, ast.Name) and d.id == e.id) else None
                    if r_ and r_ != e.id:
                        return r_
                b = bindings(scope).get(e.id)
                if b:
                    roots = {root(a_, owner(c_), depth + 1) for a_, c_ in b}
                    if len(roots) == 1:
                        return roots.pop()
            return e.id
        return None
    out = []
    for n in ast.walk(fn_node):
        if isinstance(n, ast.Subscript) and isinstance(n.value, ast.Attribute) and n.value.attr == "iloc":
            srcs = [x for x in ast.walk(n.slice) if (isinstance(x, ast.Attribute) and x.attr == "values") or
                    (isinstance(x, ast.Call) and isinstance(x.func, ast.Attribute) and x.func.attr == "to_numpy")]
            if not srcs:
                continue
            sc = owner(n)
            a = root(n.value.value, sc)
            for x in srcs:
                b = root(x, sc)
                if a and b and a != b and not any(o_[0] is n and o_[1:] == (a, b) for o_ in out):
                    out.append((n, a, b))
    return out


def _r8(ctx, rule_id="R-C12-8"):
    """R-C12-8: the histogram accessor transforms the classes of the matrix and then sums the cycles of the classes that fall into
    each result class.  Transformed ranges and cycle counts are combined BY POSITION (`counts.iloc[mask(ranges.values)]`), and
    the transformed ranges come back in the row order of the broadcast (grouped by the first level), not in the row order of the
    caller's matrix.  They must therefore be aligned with the matrix by label (`ranges.reindex(self._obj.index)`) before the
    first positional use; otherwise the result depends on the order of the rows of the matrix (counts are conserved, but
    end up in other classes)."""
    prog = ctx.prog
    ctx.rule(rule_id, floor=1, what="values combined by position with the rows of the matrix are aligned with its index first")
    ex = ast.parse("def f(self, r):\n    def h(iv, r, o):\n        return o.iloc[(r.values > iv.left)].sum()\n"
                   "    return [h(iv, r, self._obj) for iv in self._b]\n").body[0]
    if [(a, b) for _, a, b in positional_pairings(ex)] != [("self._obj", "r")]:
        raise AnalysisError("R-C12-8 built-in example not matched")
    ci = prog.cls(MS + ":MeanstressTransformMatrix")
    n = 0
    for name, fi in sorted(prog.methods_of(ci, inherited=False).items()):
        pairs = positional_pairings(fi.node)
        params = [q for q in fi.params if q != "self"]
        for sub, a, b in pairs:
            n += 1
            foreign, own = (b, a) if b in params else ((a, b) if a in params else (None, None))
            if foreign is None:
                ctx.holds(fi, sub, "%s: %s and %s are selections of objects of the accessor itself" % (name, a, b))
                continue
            # an alignment `foreign = <foreign...>.reindex(<own>.index)` as a statement of the method body before the first use
            # of a helper that (transitively) contains the positional pairing
            helpers_ = {h.name: h for h in ast.walk(fi.node) if isinstance(h, ast.FunctionDef) and h is not fi.node}
            pairing_helpers = {nm_ for nm_, h in helpers_.items() if any(x is sub for x in ast.walk(h))}
            for _ in range(3):
                pairing_helpers |= {nm_ for nm_, h in helpers_.items()
                                    if any(isinstance(x, ast.Name) and x.id in pairing_helpers for x in ast.walk(h))}
            aligned = None
            for st in fi.node.body:
                if isinstance(st, ast.FunctionDef):
                    continue
                if isinstance(st, ast.Assign) and len(st.targets) == 1 and isinstance(st.targets[0], ast.Name) and \
                        st.targets[0].id == foreign and isinstance(st.value, ast.Call) and isinstance(st.value.func, ast.Attribute) \
                        and st.value.func.attr in ("reindex", "reindex_like") and st.value.args and \
                        norm_text(st.value.args[0]) in (own + ".index", own) and \
                        any(isinstance(x, ast.Name) and x.id == foreign for x in ast.walk(st.value.func.value)):
                    aligned = st
                    break
                if any(x is sub for x in ast.walk(st)) or (isinstance(st, (ast.If, ast.Assign, ast.Return, ast.Expr)) and
                                                            any(isinstance(x, ast.Name) and x.id == foreign and isinstance(x.ctx, ast.Load)
                                                                for x in ast.walk(st)) and
                                                            any(isinstance(x, ast.Name) and x.id in pairing_helpers
                                                                for x in ast.walk(st))):
                    break
            if aligned is not None:
                ctx.holds(fi, aligned, "%s: %s is re-indexed with %s.index before it is combined with its rows by position" %
                          (name, foreign, own))
                # re-indexing one MultiIndex by another matches the levels BY POSITION: the levels of the broadcast result
                # (shared levels first) have to be brought into the order of the matrix's levels first, unconditionally or under
                # the one test "is a MultiIndex"
                reordered = None
                for st in fi.node.body:
                    if st is aligned:
                        break
                    cands = [st]
                    if isinstance(st, ast.If) and not st.orelse and isinstance(st.test, ast.Call) and call_name(st.test) == "isinstance" and \
                            len(st.test.args) == 2 and norm_text(st.test.args[0]) == foreign + ".index" and "MultiIndex" in norm_text(st.test.args[1]):
                        cands = st.body
                    elif isinstance(st, ast.If):
                        continue
                    for c_ in cands:
                        if isinstance(c_, ast.Assign) and len(c_.targets) == 1 and isinstance(c_.targets[0], ast.Name) and \
                                c_.targets[0].id == foreign and isinstance(c_.value, ast.Call) and isinstance(c_.value.func, ast.Attribute) and \
                                c_.value.func.attr == "reorder_levels" and c_.value.args and \
                                norm_text(c_.value.args[0]) in (own + ".index.names", "list(%s.index.names)" % own):
                            reordered = c_
                if reordered is not None:
                    ctx.holds(fi, reordered, "%s: the levels of %s are put into the order of %s.index.names before the re-indexing" % (name, foreign, own))
                else:
                    ctx.violated(fi, aligned, "%s: %s is re-indexed with %s.index without its levels being put into the order of %s.index.names "
                                 "first (unconditionally, or for every MultiIndex): reindex matches the levels of two MultiIndexes by "
                                 "position, and the broadcast returns the shared levels first - for a matrix whose extra level is not "
                                 "leading nothing matches and all transformed ranges become NaN" % (name, foreign, own, own),
                                 text="reindex without reorder_levels in %s" % name)
            else:
                ctx.violated(fi, sub, "%s: %s pairs the rows of %s with the values of %s by position, but %s (the transformed "
                             "classes, in the row order of the broadcast) is never aligned with %s.index: for a matrix whose rows "
                             "are not in that order the cycles are summed into the wrong classes" %
                             (name, norm_text(sub)[:70], own, foreign, foreign, own), text="positional pairing %s %s/%s" % (name, a, b))
    if n == 0:
        ctx.holds(ci.key, None, "the histogram accessor combines nothing by position")


NUMERIC_PARAMS = ("M", "M2", "M0", "M1", "M3", "M4", "R_goal", "R12", "R23", "amplitude", "meanstress", "N_c", "M_sigma")


def _truthiness_sites(fn_node, params):
    """uses of a numeric parameter as a truth value: `p or d`, `p and x`, `not p`, `if p:`, `x if p else y`"""
    out = []

    def bare(e):
        return isinstance(e, ast.Name) and e.id in params
    for n in ast.walk(fn_node):
        if isinstance(n, ast.BoolOp):
            for v in n.values[:-1] if isinstance(n.op, ast.Or) else n.values:
                if bare(v):
                    out.append((n, v.id))
        elif isinstance(n, ast.UnaryOp) and isinstance(n.op, ast.Not) and bare(n.operand):
            out.append((n, n.operand.id))
        elif isinstance(n, (ast.If, ast.IfExp, ast.While)) and bare(n.test):
            out.append((n, n.test.id))
    return out


def _r7(ctx):
    """0 is an admissible value of every numeric parameter of the mean-stress module (M2 = 0: no sensitivity beyond R = 0;
    R_goal = 0; mean 0).  Using such a parameter as a truth value (`M2 or M/3`) silently replaces a legitimate 0."""
    prog = ctx.prog
    ctx.rule("R-C12-7", floor=1, what="numeric parameters of the mean-stress functions are never used as truth values")
    ex = ast.parse("def f(M, M2=None):\n    return {'M2': M2 or M / 3.}\n").body[0]
    if [p_ for _, p_ in _truthiness_sites(ex, NUMERIC_PARAMS)] != ["M2"]:
        raise AnalysisError("R-C12-7 built-in example not matched")
    n = 0
    for key, fi in sorted(prog.functions.items()):
        if fi.module.name != MS:
            continue
        ps = [q for q in fi.params if q in NUMERIC_PARAMS]
        if not ps:
            continue
        n += 1
        for node, pname in _truthiness_sites(fi.node, ps):
            st = node
            while not isinstance(st, ast.stmt):
                st = st._parent
            ctx.violated(fi, st, "%s: the numeric parameter %s is used as a truth value in `%s`; the admissible value 0 is treated "
                         "as 'not given' and replaced" % (fi.name, pname, norm_text(node)[:60]), text="truthiness %s %s" % (fi.name, pname))
    if n < 5:
        raise AnalysisError("only %d functions with numeric parameters found in the mean-stress module" % n)
    ctx.holds(MS, None, "%d functions with numeric parameters (%s): none used as a truth value" % (n, "/".join(NUMERIC_PARAMS[:7])))


REORDER = ("sort_values", "sort_index", "sort", "argsort", "reindex", "take", "sortlevel", "sample", "reorder_levels")
REORDER_FN = ("np.sort", "sorted", "np.unique", "np.flip", "reversed", "np.argsort", "np.roll")
KEEP = ("unique", "copy", "rename", "set_names", "astype", "to_numpy", "set_closed")


def _order_kept(e, params):
    """('kept', root) if the expression is its root in unchanged order, ('reordered', op) or ('unknown', text)"""
    while True:
        if isinstance(e, ast.Name):
            return ("kept", e.id)
        if is_self_attr(e):
            return ("kept", "self." + e.attr)
        if isinstance(e, ast.Attribute):
            e = e.value
            continue
        if isinstance(e, ast.Subscript):
            if isinstance(e.slice, ast.Slice) and e.slice.step is not None:
                return ("reordered", "slice with a step")
            if not isinstance(e.slice, ast.Slice):
                return ("unknown", norm_text(e))
            e = e.value
            continue
        if isinstance(e, ast.Call):
            fn = call_name(e) or ""
            if fn in REORDER_FN:
                return ("reordered", fn)
            if isinstance(e.func, ast.Attribute):
                if e.func.attr in REORDER:
                    return ("reordered", "." + e.func.attr + "()")
                if e.func.attr in KEEP:
                    e = e.func.value
                    continue
            if fn in ("pd.IntervalIndex", "pd.Index", "list", "tuple", "np.asarray") and e.args:
                e = e.args[0]
                continue
            return ("unknown", norm_text(e))
        return ("unknown", norm_text(e))


def unbounded_tie(dist_fn):
    """facts about the method that places the R segments on the mean-stress axis: (NaN patch statements, explicit treatments of
    the segment whose mid point is +inf, statement that puts the segments into a defined order)"""
    patches = [c for c in calls_in(dist_fn) if isinstance(c.func, ast.Attribute) and c.func.attr in ("fillna", "nan_to_num")] + \
        [c for c in calls_in(dist_fn) if call_name(c) in ("np.nan_to_num", "np.where") and
         any(isinstance(x, ast.Call) and call_name(x) in ("np.isnan", "pd.isna") for x in ast.walk(c))]
    explicit = [n for n in ast.walk(dist_fn) if isinstance(n, ast.Compare) and len(n.ops) == 1 and
                isinstance(n.ops[0], (ast.Eq, ast.NotEq)) and
                any(isinstance(x, ast.Attribute) and x.attr == "mid" for x in ast.walk(inline_single_defs(dist_fn, n))) and
                any(norm_text(x) in ("np.inf", "-np.inf", "float('inf')", "math.inf", "numpy.inf") for x in n.comparators + [n.left])]
    ordered = [c for c in calls_in(dist_fn) if (call_name(c) in ("np.argsort", "np.lexsort") or
                                                (isinstance(c.func, ast.Attribute) and c.func.attr in ("argsort", "sort_values")))
               and any(k.arg == "kind" and const_value(k.value) in ("stable", "mergesort") for k in c.keywords)] + \
        [c for c in calls_in(dist_fn) if call_name(c) == "np.lexsort"]
    return patches, explicit, ordered


def _r5(ctx):
    """Processing order of the R segments.  The transformer places every segment on the mean-stress axis by (1 + R)/(1 - R) of
    its mid point and walks through the segments by distance from the target.  The mid points of the two unbounded segments are
    +inf and -inf, the expression is NaN for both, and a common NaN patch puts both at -1: they tie.  Which of the two is
    processed first - which decides whether pure compression cycles (R > 1) are carried over R = +-inf or are left behind -
    would then be decided by the order in which the diagram lists its segments, and for the target R = -inf the segment
    (1, inf) would not be processed at all.  Required: (a) the placing method treats the segment with mid point +inf
    explicitly (it lies left of the one open to -inf), (b) it brings the segments into a defined order (a stable argsort of that
    flag, or a lexicographic sort), and (c) the walks sort the distances with a stable sort, so that what still ties after
    rounding keeps that order."""
    prog = ctx.prog
    ctx.rule("R-C12-5", floor=3, what="the two unbounded R segments do not tie: explicit placement, defined order, stable distance sorts")
    stc = prog.cls(MS + ":_SegmentTransformer")
    dm = [fi_ for n_, fi_ in prog.methods_of(stc, inherited=False).items()
          if any(isinstance(x_, ast.Attribute) and x_.attr == "mid" for x_ in ast.walk(fi_.node))]
    if len(dm) != 1:
        raise AnalysisError("_SegmentTransformer: the method computing the distances of the segment mid points was not found")
    d = dm[0]
    patches, explicit, ordered = unbounded_tie(d.node)
    if explicit:
        ctx.holds(d, explicit[0], "the segment whose mid point is +inf is placed explicitly (%s)" % norm_text(explicit[0])[:60])
    elif patches:
        ctx.violated(d, patches[0], "%s: the NaN patch %s puts both unbounded segments ((1, inf) and (-inf, 0]) at the same place; their "
                     "processing order is then the order of the rows of the diagram, and for the target R = -inf the segment "
                     "(1, inf) is not processed at all (cycles with R > 1 stay untransformed)" %
                     (d.name, norm_text(patches[0])[:60]), text="unbounded segments tie")
    else:
        raise AnalysisError("%s: neither a NaN patch nor an explicit treatment of the unbounded segments found" % d.name)
    if explicit:
        if ordered:
            ctx.holds(d, ordered[0], "segments are brought into a defined order (%s)" % norm_text(ordered[0])[:70])
        else:
            ctx.violated(d, explicit[0], "%s: the unbounded segments are told apart, but the segments are not brought into a defined "
                         "order (stable argsort / lexsort): after subtracting the target the two can tie again by rounding, and the "
                         "order of the rows of the diagram decides" % d.name, text="segment order undefined")
    # the walks: every sort of the distances is stable
    dattr = None
    for fi_ in prog.methods_of(stc, inherited=False).values():
        for st in walk_function(fi_.node):
            if isinstance(st, ast.Assign) and is_self_attr(st.targets[0]) and any(
                    isinstance(c_.func, ast.Attribute) and c_.func.attr == d.name for c_ in calls_in(st.value)):
                dattr = st.targets[0].attr
    if dattr is None:
        raise AnalysisError("_SegmentTransformer: the attribute holding the distances was not found")
    sorts = []
    for fi_ in prog.methods_of(stc, inherited=False).values():
        for c_ in calls_in(fi_.node):
            if isinstance(c_.func, ast.Attribute) and c_.func.attr in ("sort_values", "argsort") and \
                    any(is_self_attr(x_, dattr) for x_ in ast.walk(inline_single_defs(fi_.node, c_.func.value))):
                sorts.append((fi_, c_))
    if not sorts:
        raise AnalysisError("_SegmentTransformer: no sort of the distances found")
    # the walks depend on the diagram and the target only: which segments lie left / right of the target is a property of the
    # Haigh diagram, not of the cycles that happen to be in the collective (R > 1 is numerically large but lies on the far left)
    init_ = prog.lookup_method(stc, "__init__")
    cyc_attrs = set()
    if init_ is not None and len(init_.params) > 1:
        first = init_.params[1]
        derived = {first}
        for st in walk_function(init_.node):
            if isinstance(st, ast.Assign) and any(isinstance(x, ast.Name) and x.id in derived for x in ast.walk(st.value)):
                for t in st.targets:
                    if isinstance(t, ast.Name):
                        derived.add(t.id)
                    elif is_self_attr(t):
                        cyc_attrs.add(t.attr)
    if not cyc_attrs:
        raise AnalysisError("_SegmentTransformer.__init__: the attribute holding the cycles was not found")
    for fi_ in sorted({f_.key: f_ for f_, _ in sorts}.values(), key=lambda f_: f_.name):
        reads = [x for x in ast.walk(fi_.node) if is_self_attr(x) and x.attr in cyc_attrs]
        if reads:
            ctx.violated(fi_, reads[0], "%s selects the segments to walk through from the cycles themselves (self.%s): the same "
                         "cycle is then transformed differently depending on which other cycles the collective contains" %
                         (fi_.name, reads[0].attr), text="walk depends on cycles " + fi_.name)
        else:
            ctx.holds(fi_, fi_.node, "%s depends on the diagram and the target only" % fi_.name)
    for fi_, c_ in sorts:
        if any(k.arg == "kind" and const_value(k.value) in ("stable", "mergesort") for k in c_.keywords):
            ctx.holds(fi_, c_, "%s sorts the distances with a stable sort" % fi_.name)
        else:
            ctx.violated(fi_, c_, "%s sorts the distances with an unstable sort (%s): segments at equal distance come out in an "
                         "unspecified order" % (fi_.name, norm_text(c_)[:60]), text="unstable sort " + fi_.name)


def _r6(ctx):
    """Indeterminate forms.  A local helper whose result is patched with .fillna(...) at one call site is believed by the
    code itself to return NaN for some arguments ((1+R)/(1-R) at R = +-inf).  Every other call of the same helper must then
    either be patched the same way or be guarded by an explicit test of its argument for infinity - an unguarded call makes
    every distance NaN for the target R = -inf, and no segment is transformed."""
    prog = ctx.prog
    ctx.rule("R-C12-6", floor=1, what="calls of a helper that is NaN-patched at one site are patched or infinity-guarded at every site")
    n = 0
    for key, fi in sorted(prog.functions.items()):
        if fi.module.name != MS:
            continue
        helpers = {x.name for x in fi.node.body if isinstance(x, ast.FunctionDef)}
        # private single-expression functions of the module are helpers of every function that calls them
        helpers |= {f2.name for f2 in prog.functions.values() if f2.module is fi.module and f2.cls is None and f2.parent is None
                    and f2.name.startswith("_") and f2 is not fi and len(f2.params) == 1}
        if not helpers:
            continue
        calls = {}
        for c in calls_in(fi.node):
            if isinstance(c.func, ast.Name) and c.func.id in helpers:
                # calls inside the helper definitions themselves do not count
                p_ = c
                inside = False
                while p_ is not None and p_ is not fi.node:
                    if isinstance(p_, ast.FunctionDef) and p_.name in helpers:
                        inside = True
                    p_ = getattr(p_, "_parent", None)
                if not inside:
                    calls.setdefault(c.func.id, []).append(c)
        for h, cs in calls.items():
            def patched(c):
                par = getattr(c, "_parent", None)
                return isinstance(par, ast.Attribute) and par.attr in ("fillna", "nan_to_num") or \
                    (isinstance(par, ast.Call) and (call_name(par) or "") in ("np.nan_to_num",))

            def guarded(c):
                par = getattr(c, "_parent", None)
                while par is not None and not isinstance(par, (ast.FunctionDef, ast.Module)):
                    if isinstance(par, (ast.IfExp, ast.If)):
                        t = norm_text(par.test)
                        if ("inf" in t or "isfinite" in t) and c.args and norm_text(c.args[0]) in t:
                            return True
                    par = getattr(par, "_parent", None)
                return False
            if not any(patched(c) for c in cs):
                continue
            for c in cs:
                n += 1
                st = c
                while not isinstance(st, ast.stmt):
                    st = st._parent
                if patched(c) or guarded(c):
                    ctx.holds(fi, st, "%s: call %s is %s" % (fi.name, norm_text(c), "NaN-patched" if patched(c) else "guarded by an infinity test"))
                else:
                    ctx.violated(fi, st, "%s: %s is called without the NaN patch / infinity guard that protects its other call "
                                 "site(s); for an infinite argument (target R = -inf) the result is NaN and every comparison "
                                 "with it is False" % (fi.name, norm_text(c)), text="unguarded " + norm_text(c))
    if n == 0:
        raise AnalysisError("no NaN-patched helper found in the mean stress module (distance computation changed)")


def _r1(ctx):
    prog = ctx.prog
    ctx.rule("R-C12-1", floor=5, what="all interfaces build the diagram with the same class method and call transform(..., R_goal)")
    table = {MS + ":fkm_goodman": "fkm_goodman", MS + ":five_segment_correction": "five_segment",
             MS + ":MeanstressTransformCollective.fkm_goodman": "fkm_goodman",
             MS + ":MeanstressTransformCollective.five_segment": "five_segment",
             MS + ":MeanstressTransformMatrix.fkm_goodman": "fkm_goodman"}
    tr = prog.func(MS + ":HaighDiagram.transform")
    from ..inline import inlined
    for key, ctor in table.items():
        f = inlined(prog, prog.func(key))          # shared private helpers (module level or methods) expanded
        goal = f.params[-1]
        ctors = [c for c in calls_in(f.node) if isinstance(c.func, ast.Attribute) and isinstance(c.func.value, ast.Name)
                 and c.func.value.id == "HaighDiagram"]
        trs = [c for c in calls_in(f.node) if isinstance(c.func, ast.Attribute) and c.func.attr == "transform"]
        ok = len(ctors) == 1 and ctors[0].func.attr == ctor and len(trs) == 1 and len(trs[0].args) == 2 and \
            isinstance(trs[0].args[1], ast.Name) and trs[0].args[1].id == goal
        if ok:
            recv = trs[0].func.value
            if isinstance(recv, ast.Name):
                d = [s for s in walk_function(f.node) if isinstance(s, ast.Assign) and isinstance(s.targets[0], ast.Name)
                     and s.targets[0].id == recv.id]
                ok = bool(d) and (d[0].value is ctors[0] or (isinstance(d[0].value, ast.Name) and any(
                    isinstance(s2, ast.Assign) and isinstance(s2.targets[0], ast.Name) and s2.targets[0].id == d[0].value.id and
                    s2.value is ctors[0] for s2 in walk_function(f.node))))
            else:
                ok = recv is ctors[0]
        if ok:
            ctx.holds(f, trs[0], "HaighDiagram.%s(...).transform(data, %s)" % (ctor, goal))
        else:
            ctx.violated(f, f.node, "%s does not go through HaighDiagram.%s(...).transform(data, %s)" % (f.qualname, ctor, goal),
                         text=f.qualname)


DEDUP = ("unique", "drop_duplicates", "sort_values", "sort_index")
DEDUP_FN = ("np.unique", "set", "sorted", "pd.unique")


def _comp_names(comp, fn=None):
    """comprehension variable -> attribute it iterates over:  for R12 in h.R12  /  for a, b in zip(h.R12, h.R23).
    Iterables held in locals are resolved through their single definition (tuple assignments included).  Inside a zip of
    several columns each column must be the row-aligned column itself: one that was de-duplicated or sorted on its own no longer
    pairs with the others row by row - its variable is then named `<attr><regrouped>`."""
    local = {}
    if fn is not None:
        for st in ast.walk(fn):
            if isinstance(st, ast.Assign) and len(st.targets) == 1:
                t, v = st.targets[0], st.value
                if isinstance(t, ast.Name):
                    local.setdefault(t.id, []).append(v)
                elif isinstance(t, (ast.Tuple, ast.List)) and isinstance(v, (ast.Tuple, ast.List)) and len(t.elts) == len(v.elts):
                    for a, b in zip(t.elts, v.elts):
                        if isinstance(a, ast.Name):
                            local.setdefault(a.id, []).append(b)

    def resolve(e):
        for _ in range(4):
            if isinstance(e, ast.Name) and len(local.get(e.id, ())) == 1:
                e = local[e.id][0]
            else:
                break
        return e

    def column(e, in_zip):
        """(attribute name, regrouped?)"""
        e = resolve(e)
        regrouped = False
        for _ in range(6):
            if isinstance(e, ast.Call) and isinstance(e.func, ast.Attribute) and e.func.attr in DEDUP + ("to_numpy", "tolist", "copy"):
                regrouped = regrouped or e.func.attr in DEDUP
                e = resolve(e.func.value)
            elif isinstance(e, ast.Call) and call_name(e) in DEDUP_FN + ("np.asarray", "list", "np.array") and e.args:
                regrouped = regrouped or call_name(e) in DEDUP_FN
                e = resolve(e.args[0])
            elif isinstance(e, ast.Attribute) and e.attr == "values":
                e = resolve(e.value)
            else:
                break
        if isinstance(e, ast.Attribute):
            return e.attr + ("<regrouped>" if regrouped and in_zip else "")
        return None
    out = {}
    for g in getattr(comp, "generators", []):
        it, tg = resolve(g.iter), g.target
        if isinstance(tg, ast.Name):
            c = column(it, False)
            if c:
                out[tg.id] = c
        elif isinstance(tg, ast.Tuple) and isinstance(it, ast.Call) and call_name(it) == "zip":
            for a, b in zip(tg.elts, it.args):
                c = column(b, len(it.args) > 1)
                if isinstance(a, ast.Name) and c:
                    out[a.id] = c
    return out


def _interval(e, names=None):
    """(a, b) tuple or pd.Interval(a, b) -> (text a, text b)"""
    names = names or {}

    def t(x):
        if isinstance(x, ast.Name) and x.id in names:
            return names[x.id]
        s = norm_text(x)
        return {"np.inf": "inf", "-np.inf": "-inf", "1.0": "1", "0.0": "0"}.get(s, s.split(".")[-1] if isinstance(x, ast.Attribute) else s)
    if isinstance(e, ast.Tuple) and len(e.elts) == 2:
        return (t(e.elts[0]), t(e.elts[1]))
    if isinstance(e, ast.Call) and call_name(e) == "pd.Interval" and len(e.args) == 2:
        return (t(e.args[0]), t(e.args[1]))
    return None


def _r2(ctx):
    prog = ctx.prog
    ctx.rule("R-C12-2", floor=8, what="slope tables: position <-> R interval <-> slope value")
    f = prog.func(MS + ":HaighDiagram.fkm_goodman")
    tup = [c for c in calls_in(f.node) if (call_name(c) or "").endswith("IntervalIndex.from_tuples")]
    if len(tup) != 1 or not isinstance(tup[0].args[0], ast.List):
        raise AnalysisError("fkm_goodman: interval list not found")
    ivs = [_interval(e) for e in tup[0].args[0].elts]
    dummies = [n for n in ast.walk(f.node) if isinstance(n, ast.List) and [const_value(x) for x in n.elts] == [0, 1, 2]]
    if len(dummies) < 1:
        raise AnalysisError("fkm_goodman: dummy position labels [0, 1, 2] not found")
    stores = {}
    # table-driven form: `for number, slope in slopes:` over a local literal table of (position, slope) pairs is unrolled first
    from ..astutil import unroll_literal_loops, clone
    body = []
    for s in f.node.body:
        if isinstance(s, ast.For) and isinstance(s.iter, ast.Name):
            dd = [x for x in f.node.body if isinstance(x, ast.Assign) and len(x.targets) == 1 and isinstance(x.targets[0], ast.Name) and
                  x.targets[0].id == s.iter.id]
            if len(dd) == 1 and isinstance(dd[0].value, (ast.Tuple, ast.List)):
                s2 = clone(s)
                s2.iter = clone(dd[0].value)
                s = s2
        body.append(s)
    for s in unroll_literal_loops(body):
        if isinstance(s, ast.Assign) and isinstance(s.targets[0], ast.Subscript) and isinstance(s.targets[0].value, ast.Attribute) \
                and s.targets[0].value.attr == "iloc":
            c = [c for c in calls_in(s.targets[0].slice) if isinstance(c.func, ast.Attribute) and c.func.attr == "get_indexer_for"]
            if c and isinstance(c[0].args[0], ast.List) and len(c[0].args[0].elts) == 1:
                val = s.value
                if isinstance(val, ast.Name):
                    dd = [x for x in f.node.body if isinstance(x, ast.Assign) and isinstance(x.targets[0], ast.Name)
                          and x.targets[0].id == val.id]
                    if len(dd) == 1 and isinstance(dd[0].value, ast.Attribute):
                        val = ast.Name(id=dd[0].value.attr, ctx=ast.Load())
                if isinstance(val, ast.Attribute) and isinstance(val.value, ast.Name):
                    val = ast.Name(id=val.attr, ctx=ast.Load())          # the column read in place
                elif isinstance(val, ast.Subscript) and isinstance(const_value(val.slice), str):
                    val = ast.Name(id=const_value(val.slice), ctx=ast.Load())
                stores[const_value(c[0].args[0].elts[0])] = (s, norm_text(val))
                series_name = s.targets[0].value.value.id if isinstance(s.targets[0].value.value, ast.Name) else None
    init = [s for s in f.node.body if isinstance(s, ast.Assign) and isinstance(s.targets[0], ast.Name) and stores and
            s.targets[0].id == series_name]
    init0 = init and isinstance(init[0].value, ast.Call) and const_value(init[0].value.args[0]) == 0.0
    got = {}
    for pos, iv in enumerate(ivs):
        got[iv] = stores[pos][1] if pos in stores else ("0" if init0 else "?")
    want = {("-inf", "0"): "M", ("0", "1"): "M2", ("1", "inf"): "0"}
    for iv, val in want.items():
        if got.get(iv) == val:
            ctx.holds(f, tup[0], "FKM-Goodman: R in (%s, %s] -> %s" % (iv[0], iv[1], val))
        else:
            ctx.violated(f, stores.get(ivs.index(iv), (tup[0],))[0] if iv in ivs else tup[0],
                         "FKM-Goodman: segment (%s, %s] gets slope %s, expected %s" % (iv[0], iv[1], got.get(iv), val),
                         text="goodman %s %s" % (iv, got.get(iv)))
    d = [s for s in walk_function(f.node) if isinstance(s, ast.Assign) and isinstance(s.targets[0], ast.Subscript)
         and const_value(s.targets[0].slice) == "M2"]
    ok = False
    if len(d) == 1:
        try:
            ok = to_nf(d[0].value, atom=lambda e: "M" if isinstance(e, ast.Subscript) and const_value(e.slice) == "M" else None) \
                == to_nf(parse_expr("M/3"))
        except NFUnsupported:
            ok = False
        p = getattr(d[0], "_parent", None)
        ok = ok and isinstance(p, ast.If) and norm_text(p.test).startswith("'M2' not in")
    if ok:
        ctx.holds(f, d[0], "default M2 = M/3 only when M2 is not given")
    else:
        ctx.violated(f, d[0] if d else f.node, "default for M2 is not M/3 (applied only when M2 is missing)")
    # five-segment
    g = prog.func(MS + ":HaighDiagram.five_segment")
    want5 = {"M0": ("-inf", "0"), "M1": ("0", "R12"), "M2": ("R12", "R23"), "M3": ("R23", "1"), "M4": ("1", "inf")}
    seen = {}
    from ..astutil import unroll_literal_loops, inline_single_defs as _isd5
    named_tables = {s_.targets[0].id: s_.value for s_ in g.node.body if isinstance(s_, ast.Assign) and len(s_.targets) == 1 and
                    isinstance(s_.targets[0], ast.Name) and isinstance(s_.value, (ast.List, ast.Tuple, ast.Dict))}
    pre = []
    for s_ in g.node.body:                  # a loop over a named literal table is a loop over the table
        if isinstance(s_, ast.For) and isinstance(s_.iter, ast.Name) and s_.iter.id in named_tables:
            s2 = ast.For(target=s_.target, iter=named_tables[s_.iter.id], body=s_.body, orelse=s_.orelse, lineno=s_.lineno, col_offset=0)
            pre.append(s2)
        elif isinstance(s_, ast.For) and isinstance(s_.iter, ast.Call) and isinstance(s_.iter.func, ast.Attribute) and \
                s_.iter.func.attr == "items" and isinstance(s_.iter.func.value, ast.Name) and s_.iter.func.value.id in named_tables:
            it2 = ast.Call(func=ast.Attribute(value=named_tables[s_.iter.func.value.id], attr="items", ctx=ast.Load()), args=[], keywords=[])
            pre.append(ast.For(target=s_.target, iter=it2, body=s_.body, orelse=s_.orelse, lineno=s_.lineno, col_offset=0))
        else:
            pre.append(s_)
    body5 = unroll_literal_loops(pre)
    for s in body5:
        if isinstance(s, ast.Assign) and isinstance(s.targets[0], ast.Subscript) and isinstance(s.targets[0].value, ast.Attribute) \
                and s.targets[0].value.attr == "iloc" and isinstance(s.targets[0].slice, ast.Name):
            loc = s.targets[0].slice.id
            v = s.value
            ok = isinstance(v, ast.Subscript) and isinstance(v.value, ast.Attribute) and v.value.attr == "iloc" and \
                isinstance(v.value.value, ast.Attribute) and isinstance(v.slice, ast.Name) and v.slice.id == loc
            if not ok:
                ctx.violated(g, s, "five-segment: rows %s receive %s, not the slope column at the same rows" % (loc, norm_text(v)))
                continue
            k = v.value.value.attr
            d = [x for x in body5 if isinstance(x, ast.Assign) and isinstance(x.targets[0], ast.Name) and x.targets[0].id == loc]
            iv = None
            if len(d) == 1:
                c = [c_ for c_ in calls_in(d[0].value) if isinstance(c_.func, ast.Attribute) and c_.func.attr == "get_indexer_for"]
                if c:
                    a = c[0].args[0]
                    if isinstance(a, ast.List) and len(a.elts) == 1:
                        iv = _interval(a.elts[0])
                    elif isinstance(a, ast.ListComp):
                        iv = _interval(a.elt, _comp_names(a, g.node))
            seen[k] = (s, iv)
    if not seen:
        # second idiom: {slope name: positions} and one loop  `frame.iloc[locs] = getattr(h, name).iloc[locs]`
        def interval_of_indexer(e_):
            c_ = [x_ for x_ in calls_in(e_) if isinstance(x_.func, ast.Attribute) and x_.func.attr == "get_indexer_for"]
            if not c_ or not c_[0].args:
                return None
            a_ = c_[0].args[0]
            if isinstance(a_, ast.List) and len(a_.elts) == 1:
                return _interval(a_.elts[0])
            if isinstance(a_, ast.ListComp):
                return _interval(a_.elt, _comp_names(a_, g.node))
            return None
        tables = {s_.targets[0].id: s_.value for s_ in g.node.body if isinstance(s_, ast.Assign) and isinstance(s_.targets[0], ast.Name)
                  and isinstance(s_.value, ast.Dict) and s_.value.keys and all(isinstance(const_value(k_), str) for k_ in s_.value.keys)}
        for lp in [s_ for s_ in g.node.body if isinstance(s_, ast.For)]:
            it_ = lp.iter
            d_lit = None
            if isinstance(it_, ast.Call) and isinstance(it_.func, ast.Attribute) and it_.func.attr == "items":
                if isinstance(it_.func.value, ast.Name) and it_.func.value.id in tables:
                    d_lit = tables[it_.func.value.id]
                elif isinstance(it_.func.value, ast.Dict) and it_.func.value.keys and \
                        all(isinstance(const_value(k_), str) for k_ in it_.func.value.keys):
                    d_lit = it_.func.value                     # the table written in place
            if d_lit is not None and isinstance(lp.target, ast.Tuple) and \
                    len(lp.target.elts) == 2 and all(isinstance(x_, ast.Name) for x_ in lp.target.elts) and len(lp.body) == 1 and \
                    isinstance(lp.body[0], ast.Assign):
                kn, ln = lp.target.elts[0].id, lp.target.elts[1].id
                st_ = lp.body[0]
                t_, v_ = st_.targets[0], st_.value
                shape_ok = isinstance(t_, ast.Subscript) and isinstance(t_.value, ast.Attribute) and t_.value.attr == "iloc" and \
                    isinstance(t_.slice, ast.Name) and t_.slice.id == ln and isinstance(v_, ast.Subscript) and \
                    isinstance(v_.value, ast.Attribute) and v_.value.attr == "iloc" and isinstance(v_.slice, ast.Name) and \
                    v_.slice.id == ln and isinstance(v_.value.value, ast.Call) and call_name(v_.value.value) == "getattr" and \
                    len(v_.value.value.args) == 2 and isinstance(v_.value.value.args[1], ast.Name) and v_.value.value.args[1].id == kn
                if shape_ok:
                    d_ = d_lit
                    for k_, e_ in zip(d_.keys, d_.values):
                        seen[const_value(k_)] = (st_, interval_of_indexer(e_))
    if set(seen) != set(want5):
        if not seen:
            raise AnalysisError("five_segment: slope stores not found")
        ctx.violated(g, g.node, "five-segment: slopes %s are stored, expected %s" % (sorted(seen), sorted(want5)), text="five-segment slopes")
    for k, iv in want5.items():
        if k not in seen:
            continue
        if seen[k][1] == iv:
            ctx.holds(g, seen[k][0], "five-segment: %s stored on the rows of (%s, %s]" % (k, iv[0], iv[1]))
        else:
            why = " - the zipped columns were de-duplicated / sorted independently, so they no longer pair row by row and some " \
                "segments are never looked up (their slope stays 0)" if "<regrouped>" in str(seen[k][1]) else ""
            ctx.violated(g, seen[k][0], "five-segment: %s is stored on the rows of %s, expected (%s, %s]%s" %
                         (k, seen[k][1], iv[0], iv[1], why))
    mk = [n for n in ast.walk(g.node) if isinstance(n, ast.FunctionDef) and n is not g.node and
          len(calls_in(n, name="pd.Interval")) >= 5]
    if mk:
        ivs5 = sorted(_interval(c) for c in calls_in(mk[0], name="pd.Interval"))
        if ivs5 == sorted(want5.values()):
            ctx.holds(g, mk[0], "diagram index consists of the five adjacent R intervals sharing R12/R23")
        else:
            ctx.violated(g, mk[0], "diagram index intervals are %s" % ivs5, text="five-segment index")


def _coeff(p: Poly, sym, power):
    out = Poly()
    for m, c in p.terms.items():
        e = dict(m).get(sym, 0)
        if e == power:
            rest = tuple((a, x) for a, x in m if a != sym)
            out = out + Poly({rest: c})
    return out


def _r3(ctx):
    prog = ctx.prog
    ctx.rule("R-C12-3", floor=6, what="per-segment shift lies on the iso-damage line; R=-inf formula is its limit; one R<->mean relation")
    # the shift formula: the if/else on `R_goal == -np.inf` whose two arms define the same local - in the method itself or in
    # one of its nested helper functions (role, not name)
    outer = prog.func(MS + ":_SegmentTransformer.transform_cycles_in_interval")
    cands = [outer] + [fi_ for k_, fi_ in prog.functions.items() if fi_.parent is outer]
    f, br = None, None
    for fi_ in cands:
        for s_ in fi_.node.body:
            if isinstance(s_, ast.If) and norm_text(s_.test) in ("R_goal == -np.inf", "-np.inf == R_goal") and len(s_.body) == 1 and \
                    len(s_.orelse) == 1 and isinstance(s_.body[0], ast.Assign) and isinstance(s_.orelse[0], ast.Assign) and \
                    norm_text(s_.body[0].targets[0]) == norm_text(s_.orelse[0].targets[0]):
                f, br = fi_, s_
    if f is None:
        raise AnalysisError("transformed_amplitude helper not found")
    special = br.body[0].value
    general = br.orelse[0].value
    t = norm_text(br.test)
    if t not in ("R_goal == -np.inf",):
        raise AnalysisError("transformed_amplitude: unexpected branch condition %s" % t)

    amp_n = [x.targets[0].id for x in f.node.body if isinstance(x, ast.Assign) and isinstance(x.targets[0], ast.Name)
             and isinstance(x.value, ast.Attribute) and x.value.attr == "amplitude"]
    mean_n = [x.targets[0].id for x in f.node.body if isinstance(x, ast.Assign) and isinstance(x.targets[0], ast.Name)
              and amp_n and amp_n[0] in names_in(x.value) and any(isinstance(n, ast.Attribute) and n.attr == "R" for n in ast.walk(x.value))]
    if len(amp_n) != 1 or len(mean_n) != 1:
        raise AnalysisError("transformed_amplitude: amplitude / mean locals not identified")
    free = sorted(names_in(general) - {amp_n[0], mean_n[0], "R_goal"})
    if len(free) != 1:
        raise AnalysisError("transformed_amplitude: slope variable not identified (%s)" % free)
    canon = {amp_n[0]: "amp", mean_n[0]: "mean", free[0]: "M", "R_goal": "Rg"}

    def atom(e):
        if isinstance(e, ast.Name):
            return canon.get(e.id, e.id)
        return None
    try:
        G = to_nf(general, atom=atom)
        S = to_nf(special, atom=atom)
    except NFUnsupported as e:
        raise AnalysisError("shift formulas outside the fragment: %s" % e)
    Rg, M = RF.sym("Rg"), RF.sym("M")
    lhs = G * (RF.const(1) + M * (RF.const(1) + Rg) / (RF.const(1) - Rg))
    rhs = RF.sym("amp") + M * RF.sym("mean")
    if lhs == rhs:
        ctx.holds(f, br.orelse[0], "S_a' + M S_m' == S_a + M S_m with S_m' = S_a'(1+R_goal)/(1-R_goal)")
    else:
        ctx.violated(f, br.orelse[0], "transformed amplitude %r does not satisfy the iso-damage line S_a' + M S_m' = S_a + M S_m"
                     % G)
    # fixed point: a cycle that already has the target ratio keeps its amplitude (=> idempotence within a segment)
    at_goal = RF.sym("amp") * (RF.const(1) + Rg) / (RF.const(1) - Rg)
    Gfix = _subst_atom(G, "mean", at_goal)
    if Gfix == RF.sym("amp"):
        ctx.holds(f, br.orelse[0], "a cycle already at R_goal is unchanged: G(amp, amp(1+R_goal)/(1-R_goal)) == amp")
    else:
        ctx.violated(f, br.orelse[0], "a cycle that already has the target stress ratio is changed to %r" % Gfix, text="fixed point")
    Sfix = _subst_atom(S, "mean", -RF.sym("amp"))
    if Sfix == RF.sym("amp"):
        ctx.holds(f, br.body[0], "a cycle already at R = -inf (mean = -amplitude) is unchanged by the R_goal = -inf formula")
    else:
        ctx.violated(f, br.body[0], "a cycle at R = -inf is changed to %r by the R_goal = -inf formula" % Sfix, text="fixed point -inf")
    # limit R_goal -> -inf : ratio of the leading coefficients in Rg
    num1, den1 = _coeff(G.num, "Rg", Fraction(1)), _coeff(G.den, "Rg", Fraction(1))
    higher = any(dict(m).get("Rg", 0) not in (0, 1) for p in (G.num, G.den) for m in p.terms)
    if not higher and not den1.is_zero() and RF(num1, den1) == S:
        ctx.holds(f, br.body[0], "R_goal = -inf formula is the limit of the general one")
    else:
        ctx.violated(f, br.body[0], "formula for R_goal = -inf (%r) is not the limit of the general formula (%r)" %
                     (S, RF(num1, den1) if not den1.is_zero() else None))
    # R <-> mean relation used in three places
    forms = []
    md = [s for s in f.node.body if isinstance(s, ast.Assign) and isinstance(s.targets[0], ast.Name) and s.targets[0].id == mean_n[0]]
    if md:
        forms.append(("transformed_amplitude.mean", f, md[0], to_nf(md[0].value, atom=lambda e: (
            "R" if isinstance(e, ast.Attribute) and e.attr == "R" else ("amp" if isinstance(e, ast.Name) and e.id == amp_n[0] else None))) / RF.sym("amp")))
    # the closure of the segment transformer that maps a stress ratio to the mean stress of a unit amplitude
    for k_, fm in sorted(prog.functions.items()):
        if fm.parent is not None and fm.parent.cls is not None and fm.parent.cls.name == "_SegmentTransformer" and \
                len(fm.params) == 1 and any(isinstance(x_, ast.Attribute) and x_.attr == "mid" for x_ in ast.walk(fm.parent.node)):
            r = [s for s in fm.node.body if isinstance(s, ast.Return)]
            if len(r) == 1 and r[0].value is not None:
                try:
                    forms.append(("unit-amplitude mean stress closure %s" % fm.name, fm, r[0], to_nf(
                        r[0].value, atom=lambda e, p_=fm.params[0]: "R" if isinstance(e, ast.Name) and e.id == p_ else None)))
                except NFUnsupported:
                    pass
    if not any(nm.startswith("unit-amplitude") for nm, _, _, _ in forms):
        # the closure may have been moved to module level: a private one-parameter function called by the distance method
        stc_ = prog.cls(MS + ":_SegmentTransformer")
        for n_, dm_ in prog.methods_of(stc_, inherited=False).items():
            if not any(isinstance(x_, ast.Attribute) and x_.attr == "mid" for x_ in ast.walk(dm_.node)):
                continue
            for c_ in calls_in(dm_.node):
                for k_ in prog.resolve_call(dm_, c_):
                    fm = prog.functions.get(k_)
                    if fm is not None and fm.cls is None and fm.parent is None and fm.name.startswith("_") and len(fm.params) == 1:
                        r = [s for s in fm.node.body if isinstance(s, ast.Return)]
                        if len(r) == 1 and not any(nm == "unit-amplitude mean stress helper %s" % fm.name for nm, _, _, _ in forms):
                            try:
                                forms.append(("unit-amplitude mean stress helper %s" % fm.name, fm, r[0], to_nf(
                                    r[0].value, atom=lambda e, p_=fm.params[0]: "R" if isinstance(e, ast.Name) and e.id == p_ else None)))
                            except NFUnsupported:
                                pass
    tr = prog.func(MS + ":HaighDiagram.transform")
    d = [n for n in ast.walk(tr.node) if isinstance(n, ast.Dict)]
    if d:
        m = {const_value(k): inline_single_defs(tr.node, v) for k, v in zip(d[0].keys, d[0].values)}
        if "mean" in m:
            v = m["mean"]

            def atom2(e):
                if isinstance(e, ast.Attribute) and e.attr == "R":
                    return "R"
                if isinstance(e, ast.Attribute) and e.attr == "amplitude":
                    return "amp"
                return None

            def strip(e):
                if isinstance(e, ast.Call) and isinstance(e.func, ast.Attribute) and e.func.attr == "fillna":
                    return e.func.value
                return e
            forms.append(("transform result mean", tr, d[0], to_nf(v, atom=atom2, strip=strip) / RF.sym("amp")))
            rng = m.get("range")
            if rng is not None and to_nf(rng, atom=atom2) == to_nf(parse_expr("2*amp")):
                ctx.holds(tr, d[0], "result range = 2 * transformed amplitude")
            else:
                ctx.violated(tr, d[0], "result range is not twice the transformed amplitude")
    want = to_nf(parse_expr("(1+R)/(1-R)"))
    if len(forms) < 3:
        raise AnalysisError("R <-> mean relation found in %d places, expected 3" % len(forms))
    for name, fi, node, nf in forms:
        if nf == want:
            ctx.holds(fi, node, "%s: mean/amplitude = (1+R)/(1-R)" % name)
        else:
            ctx.violated(fi, node, "%s: mean/amplitude = %r, the stress ratio relation is (1+R)/(1-R)" % (name, nf))


def _r4(ctx):
    prog = ctx.prog
    ctx.rule("R-C12-4", floor=3, what="re-binning membership partitions [0, max] into adjacent bins")
    f = prog.functions.get(MS + ":MeanstressTransformMatrix._rebin_results.sum_intervals")
    if f is None:
        raise AnalysisError("sum_intervals helper not found")
    ret = [s for s in f.node.body if isinstance(s, ast.Return)]
    if len(ret) != 1:
        raise AnalysisError("sum_intervals: single return expected")
    env = inline_env(CFG(f.node), ret[0])
    env.pop("__ambiguous__", None)
    full = subst_names(ret[0].value, env)
    sub = [n for n in ast.walk(full) if isinstance(n, ast.Subscript) and isinstance(n.value, ast.Attribute) and
           n.value.attr in ("iloc", "loc")]
    sub += [n for n in ast.walk(full) if isinstance(n, ast.Subscript) and not sub]
    if not sub:
        raise AnalysisError("sum_intervals: membership mask not found")
    mask = sub[0].slice
    OPS = {"op.ge": lambda a, b: a >= b, "op.gt": lambda a, b: a > b, "op.le": lambda a, b: a <= b, "op.lt": lambda a, b: a < b,
           "op.eq": lambda a, b: a == b, "op.ne": lambda a, b: a != b,
           "np.greater_equal": lambda a, b: a >= b, "np.greater": lambda a, b: a > b,
           "np.less_equal": lambda a, b: a <= b, "np.less": lambda a, b: a < b}
    CMP = {ast.GtE: "op.ge", ast.Gt: "op.gt", ast.LtE: "op.le", ast.Lt: "op.lt", ast.Eq: "op.eq", ast.NotEq: "op.ne"}
    TOLERANT = ("np.isclose", "np.allclose", "math.isclose", "np.round", "np.around", "round")

    class Tolerance(Exception):
        pass
    a0 = f.params[0] if f.params else "iv"

    def val(e, x, lo, hi):
        t = norm_text(e)
        if t in ("ranges.values", "ranges", "ranges.to_numpy()"):
            return x
        if t == a0 + ".left":
            return lo
        if t == a0 + ".right":
            return hi
        c = const_value(e)
        if isinstance(c, (int, float)) and not isinstance(c, bool):
            return c
        if any((call_name(c_) or "") in TOLERANT for c_ in calls_in(e)):
            raise Tolerance(norm_text(e))
        raise AnalysisError("sum_intervals: operand %s of the membership predicate not understood" % t)

    def ev(e, x, lo, hi):
        if isinstance(e, ast.IfExp):                # a comparison chosen by a test on the class edges
            return ev(e.body if ev(e.test, x, lo, hi) else e.orelse, x, lo, hi)
        if isinstance(e, ast.BinOp) and isinstance(e.op, (ast.BitAnd, ast.BitOr)):
            l_, r_ = ev(e.left, x, lo, hi), ev(e.right, x, lo, hi)
            return (l_ and r_) if isinstance(e.op, ast.BitAnd) else (l_ or r_)
        if isinstance(e, ast.UnaryOp) and isinstance(e.op, ast.Invert):
            return not ev(e.operand, x, lo, hi)
        if isinstance(e, ast.Compare) and len(e.ops) == 1 and type(e.ops[0]) in CMP:
            return OPS[CMP[type(e.ops[0])]](val(e.left, x, lo, hi), val(e.comparators[0], x, lo, hi))
        if isinstance(e, ast.Call):
            cn = call_name(e) or ""
            if cn in TOLERANT:
                raise Tolerance(norm_text(e))
            fn = e.func
            if isinstance(fn, ast.IfExp):
                fn = fn.body if ev(fn.test, x, lo, hi) else fn.orelse
            if norm_text(fn) in OPS and len(e.args) == 2:
                return OPS[norm_text(fn)](val(e.args[0], x, lo, hi), val(e.args[1], x, lo, hi))
            if cn in ("np.logical_and", "np.logical_or") and len(e.args) == 2:
                l_, r_ = ev(e.args[0], x, lo, hi), ev(e.args[1], x, lo, hi)
                return (l_ and r_) if cn == "np.logical_and" else (l_ or r_)
        raise AnalysisError("sum_intervals: membership predicate not understood (%s)" % norm_text(e)[:80])

    def member(x, lo, hi):
        return bool(ev(mask, x, lo, hi))
    # edges fixed as 0 < 2 < 4 < 6; x takes every position relative to them
    bad = []
    try:
        for x in (0, 1, 2, 3, 4):
            cnt = int(member(x, 0, 2)) + int(member(x, 2, 4))
            if cnt != 1:
                bad.append(("first pair", x, cnt))
        for x in (3, 4, 5, 6):          # interior pair (2,4], (4,6]; x in (2, 6]
            cnt = int(member(x, 2, 4)) + int(member(x, 4, 6))
            if cnt != 1:
                bad.append(("interior pair", x, cnt))
    except Tolerance as t:
        ctx.violated(f, ret[0], "re-binning membership uses the approximate comparison %s: a range within the tolerance of an inner "
                     "class border belongs to two classes (or to none), so the transformed matrix does not conserve the number of "
                     "cycles; the tolerance is absolute, the effect depends on the load unit" % t, text="membership tolerance")
        bad = None
    if bad is None:
        pass
    elif not bad:
        ctx.holds(f, ret[0], "every range in [0, max] falls into exactly one of two adjacent bins (first [l,r], others (l,r])",
                  {"mask": norm_text(mask)})
    else:
        ctx.violated(f, ret[0], "re-binning membership is not a partition: %s (position of the range relative to edges 0<2<4<6, "
                     "number of bins containing it)" % bad[:3], text="membership " + norm_text(mask)[:60])
    rb = prog.func(MS + ":MeanstressTransformMatrix._rebin_results")
    uses = []
    for n in ast.walk(rb.node):
        if isinstance(n, ast.Call) and isinstance(n.func, ast.Name) and n.func.id == f.name:
            uses.append(n)
    other = [c for c in calls_in(rb.node) if (call_name(c) or "") in ("pd.cut", "pd.qcut", "np.histogram", "np.digitize",
                                                                     "np.histogram2d", "np.searchsorted", "np.bincount")]
    paths = [n for n in ast.walk(rb.node) if isinstance(n, (ast.FunctionDef, ast.Lambda)) and n is not rb.node and
             any(isinstance(c.func, ast.Name) and c.func.id == f.name for c in calls_in(n))]
    if len(uses) >= 2 and not other:
        ctx.holds(rb, uses[0], "both aggregation paths (with and without additional index levels) use the verified membership "
                  "predicate (%d call sites), no library binning with other edge rules" % len(uses))
    else:
        ctx.violated(rb, other[0] if other else rb.node, "re-binning does not go through the membership predicate on every path "
                     "(%d call sites%s): the paths with and without additional index levels would bin edge values differently"
                     % (len(uses), ", library binning %s" % call_name(other[0]) if other else ""), text="rebin paths")
    g = prog.functions.get(MS + ":MeanstressTransformMatrix._rebin_results.resulting_intervals")
    ls = [c for c in calls_in(g.node, name="np.linspace")] if g else []
    mx = None
    if len(ls) == 1 and isinstance(ls[0].args[1], ast.Name):
        dd = [x for x in g.node.body if isinstance(x, ast.Assign) and isinstance(x.targets[0], ast.Name) and
              x.targets[0].id == ls[0].args[1].id]
        mx = dd[0].value if len(dd) == 1 else None
        gparams = [a_.arg for a_ in g.node.args.args]
        if mx is None and ls[0].args[1].id in gparams:
            # the upper end is a parameter of the helper: what the (single) call site passes
            sites = [c_ for c_ in calls_in(rb.node) if isinstance(c_.func, ast.Name) and c_.func.id == g.node.name]
            i_ = gparams.index(ls[0].args[1].id)
            if len(sites) == 1 and i_ < len(sites[0].args):
                mx = inline_single_defs(rb.node, sites[0].args[i_])
    elif len(ls) == 1:
        mx = ls[0].args[1]                        # written in place
    if len(ls) == 1 and const_value(ls[0].args[0]) == 0 and isinstance(mx, ast.Call) and isinstance(mx.func, ast.Attribute) \
            and mx.func.attr == "max" and isinstance(mx.func.value, ast.Name):
        ctx.holds(g, ls[0], "bins span [0, max range]; the first bin starts at 0 (closed on the left)")
    else:
        ctx.violated(g if g else f, ls[0] if ls else f.node, "re-binning edges do not span [0, max range] starting at 0")


# =========================================================================== variants

MP = "src/pylife/strength/meanstress.py"


def _nested(tree, path):
    parts = path.split(".")
    node = find_func(tree, ".".join(parts[:2])) if len(parts) > 1 else find_func(tree, parts[0])
    for p in parts[2:]:
        node = [n for n in ast.walk(node) if isinstance(n, ast.FunctionDef) and n.name == p][0]
    return node


def variants():
    out = []

    def own_diagram(tree):
        f = find_func(tree, "MeanstressTransformMatrix.fkm_goodman")
        for c in calls_in(f):
            if isinstance(c.func, ast.Attribute) and c.func.attr == "fkm_goodman":
                c.func.attr = "from_dict"
                return True
        return False
    out.append(witness("matrix accessor builds its own diagram", MP, own_diagram, "R-C12-1"))

    def dedup(zipped):
        def f_(tree):
            f = find_func(tree, "HaighDiagram.five_segment")
            done = False
            for comp in [n for n in ast.walk(f) if isinstance(n, ast.ListComp)]:
                for g_ in comp.generators:
                    if zipped and isinstance(g_.iter, ast.Call) and call_name(g_.iter) == "zip":
                        g_.iter.args = [parse_expr(ast.unparse(a_) + ".unique()") for a_ in g_.iter.args]
                        done = True
                    elif not zipped and isinstance(g_.iter, ast.Attribute):
                        g_.iter = parse_expr(ast.unparse(g_.iter) + ".unique()")
                        done = True
            return done
        return f_
    out.append(witness("R12 / R23 de-duplicated independently before they are zipped", MP, dedup(True), "R-C12-2"))
    out.append(twin("single columns de-duplicated before the look-up", MP, dedup(False)))

    def unaligned(tree):
        f = find_func(tree, "MeanstressTransformMatrix._rebin_results")
        for i, st in enumerate(f.body):
            if isinstance(st, ast.Assign) and isinstance(st.value, ast.Call) and isinstance(st.value.func, ast.Attribute) and \
                    st.value.func.attr == "reindex":
                del f.body[i]
                return True
        return False
    out.append(witness("transformed ranges not aligned with the rows of the matrix", MP, unaligned, "R-C12-8"))

    def aligned_like(tree):
        f = find_func(tree, "MeanstressTransformMatrix._rebin_results")
        for st in f.body:
            if isinstance(st, ast.Assign) and isinstance(st.value, ast.Call) and isinstance(st.value.func, ast.Attribute) and \
                    st.value.func.attr == "reindex":
                st.value = parse_expr("ranges.reindex_like(self._obj)")
                return True
        return False
    out.append(twin("alignment through reindex_like", MP, aligned_like))

    def goal_const(tree):
        f = find_func(tree, "MeanstressTransformCollective.five_segment")
        for c in calls_in(f, attr="transform"):
            c.args[1] = ast.Constant(-1.0)
            return True
        return False
    out.append(witness("collective accessor ignores R_goal", MP, goal_const, "R-C12-1"))

    def m2_slot(tree):
        f = find_func(tree, "HaighDiagram.fkm_goodman")
        for c in calls_in(f, attr="get_indexer_for"):
            if const_value(c.args[0].elts[0]) == 2:
                c.args[0].elts[0] = ast.Constant(0)
                return True
        return False
    out.append(witness("M2 written to the (1,inf) slot", MP, m2_slot, "R-C12-2"))

    def iv_order(tree):
        f = find_func(tree, "HaighDiagram.fkm_goodman")
        c = [c for c in calls_in(f) if (call_name(c) or "").endswith("from_tuples")][0]
        e = c.args[0].elts
        e[1], e[2] = e[2], e[1]
        return True
    out.append(witness("interval list reordered, positions not", MP, iv_order, "R-C12-2"))

    def m2_default(tree):
        f = find_func(tree, "HaighDiagram.fkm_goodman")
        for s in ast.walk(f):
            if isinstance(s, ast.Assign) and isinstance(s.targets[0], ast.Subscript) and const_value(s.targets[0].slice) == "M2":
                s.value.right = ast.Constant(2.0)
                return True
        return False
    out.append(witness("default M2 = M/2", MP, m2_default, "R-C12-2"))

    def five_swap(tree):
        f = find_func(tree, "HaighDiagram.five_segment")
        for s in f.body:
            if isinstance(s, ast.Assign) and isinstance(s.targets[0], ast.Subscript) and isinstance(s.targets[0].slice, ast.Name) \
                    and s.targets[0].slice.id == "M1_locs":
                s.value.value.value.attr = "M2"
                return True
        return False
    out.append(witness("five-segment: M1 rows receive M2", MP, five_swap, "R-C12-2"))

    def five_iv(tree):
        f = find_func(tree, "HaighDiagram.five_segment")
        for s in f.body:
            if isinstance(s, ast.Assign) and isinstance(s.targets[0], ast.Name) and s.targets[0].id == "M3_locs":
                for c in calls_in(s.value, name="pd.Interval"):
                    c.args[1] = ast.Constant(2.0)
                    return True
        return False
    out.append(witness("five-segment: M3 located on (R23, 2]", MP, five_iv, "R-C12-2"))

    def shift_formula(tree):
        f = _nested(tree, "_SegmentTransformer.transform_cycles_in_interval.transformed_amplitude")
        br = [s for s in f.body if isinstance(s, ast.If)][0]
        br.orelse[0].value = parse_expr("(1.0 - R_goal) * (amp + M * mean) / (1.0 - R_goal + M * (1.0 - R_goal))")
        return True
    out.append(witness("denominator 1 - R + M(1 - R)", MP, shift_formula, "R-C12-3"))

    def special_formula(tree):
        f = _nested(tree, "_SegmentTransformer.transform_cycles_in_interval.transformed_amplitude")
        br = [s for s in f.body if isinstance(s, ast.If)][0]
        br.body[0].value = parse_expr("(amp + M * mean) / (1.0 + M)")
        return True
    out.append(witness("R=-inf formula with 1 + M", MP, special_formula, "R-C12-3"))

    def mean_rel(tree):
        f = find_func(tree, "HaighDiagram.transform")
        for n in ast.walk(f):
            if isinstance(n, ast.Dict):
                for i, k in enumerate(n.keys):
                    if const_value(k) == "mean":
                        n.values[i] = parse_expr("transfomed_cycles.amplitude * ((1.0 - transfomed_cycles.R) / (1.0 + transfomed_cycles.R)).fillna(-1.0)")
                        return True
        return False
    out.append(witness("result mean from (1-R)/(1+R)", MP, mean_rel, "R-C12-3"))

    def first_open(tree):
        f = _nested(tree, "MeanstressTransformMatrix._rebin_results.sum_intervals")
        for s in f.body:
            if isinstance(s, ast.Assign) and isinstance(s.value, ast.IfExp):
                s.value.body = parse_expr("op.gt")
                return True
        return False
    out.append(witness("first bin (l,r]: zero range dropped", MP, first_open, "R-C12-4"))

    def both_closed(tree):
        f = _nested(tree, "MeanstressTransformMatrix._rebin_results.sum_intervals")
        for s in f.body:
            if isinstance(s, ast.Assign) and isinstance(s.value, ast.IfExp):
                s.value.orelse = parse_expr("op.ge")
                return True
        return False
    out.append(witness("all bins [l,r]: edge values counted twice", MP, both_closed, "R-C12-4"))

    def cut_path(tree):
        f = _nested(tree, "MeanstressTransformMatrix._rebin_results.aggregate_on_projection")
        for st in f.body:
            if isinstance(st, ast.Assign) and isinstance(st.targets[0], ast.Name) and st.targets[0].id == "sums":
                st.value = parse_expr("obj.groupby(pd.cut(ranges.values, itvs), observed=False).sum()")
                return True
        return False
    out.append(witness("one aggregation path bins with pd.cut", MP, cut_path, "R-C12-4"))

    def common_patch(tree):
        f = find_func(tree, "_SegmentTransformer._distance_from_R_goal")
        keep = [st for st in f.body if isinstance(st, ast.FunctionDef)]
        f.body = keep + ast.parse(
            "meanstress = fake_meanstress(self._R_index.mid).fillna(-1.0)\n"
            "meanstress_goal = -1.0 if self._R_goal == -np.inf else fake_meanstress(self._R_goal)\n"
            "return pd.Series(meanstress.values - meanstress_goal, index=self._R_index)\n").body
        return True
    out.append(witness("both unbounded segments placed at -1 by one NaN patch", MP, common_patch, "R-C12-5"))

    def unstable_sort(tree):
        f = find_func(tree, "_SegmentTransformer.segments_left_from_R_goal")
        for c in calls_in(f):
            if isinstance(c.func, ast.Attribute) and c.func.attr == "sort_values":
                c.keywords = [k for k in c.keywords if k.arg != "kind"]
                return True
        return False
    out.append(witness("left walk sorts the distances with the default (unstable) sort", MP, unstable_sort, "R-C12-5"))

    def mergesort(tree):
        f = find_func(tree, "_SegmentTransformer.segments_left_from_R_goal")
        for c in calls_in(f):
            if isinstance(c.func, ast.Attribute) and c.func.attr == "sort_values":
                for k in c.keywords:
                    if k.arg == "kind":
                        k.value = ast.Constant("mergesort")
                        return True
        return False
    out.append(twin("stable sort spelled mergesort", MP, mergesort))

    def sorted_segments(tree):
        f = find_func(tree, "_SegmentTransformer.__init__")
        for st in f.body:
            if isinstance(st, ast.Assign) and is_self_attr(st.targets[0], "_R_index"):
                st.value = parse_expr("R_segments.sort_values()")
                return True
        return False
    out.append(twin("transformer sorts the R segments (their order no longer matters)", MP, sorted_segments))

    def goal_unguarded(tree):
        f = find_func(tree, "_SegmentTransformer._distance_from_R_goal")
        for st in f.body:
            if isinstance(st, ast.Assign) and isinstance(st.value, ast.IfExp):
                st.value = st.value.orelse
                return True
        return False
    out.append(witness("pseudo mean stress of the target computed without the -inf guard", MP, goal_unguarded, "R-C12-6"))

    # twins
    def shift_rewritten(tree):
        f = _nested(tree, "_SegmentTransformer.transform_cycles_in_interval.transformed_amplitude")
        br = [s for s in f.body if isinstance(s, ast.If)][0]
        br.orelse[0].value = parse_expr("(amp + M * mean) / (1.0 + M * (1.0 + R_goal) / (1.0 - R_goal))")
        return True
    out.append(twin("general formula divided through by (1 - R_goal)", MP, shift_rewritten))

    def goodman_locals(tree):
        f = find_func(tree, "HaighDiagram.fkm_goodman")
        for n in ast.walk(f):
            if isinstance(n, ast.Name) and n.id == "R_index":
                n.id = "levels_R"
        return True
    out.append(twin("rename locals in fkm_goodman", MP, goodman_locals))
    return out
