"""C16 — closed-form material laws: algebraic obligations discharged by normal form (level: proof)."""
from __future__ import annotations

import ast
from fractions import Fraction

from ..astutil import (call_name, calls_in, const_value, find_func, is_self_attr, names_in, parse_expr, parse_stmt,
                       replace_node)
from ..frontend import AnalysisError, walk_function
from ..cfg import CFG
from ..dataflow import inline_env
from ..astutil import subst_names
from ..nf import RF, NFUnsupported, derivative, to_nf, _poly_sign
from ..report import norm_text
from ..symexec import MethodNF
from ..witness import witness, twin

LEVEL = "proof"
PROOF_RULES = ("R-C16-1", "R-C16-2", "R-C16-3", "R-C16-4", "R-C16-5", "R-C16-6", "R-C16-7", "R-C16-9")
TRUSTED_BASE = ["/verif/sa/nf.py (rational normal form with symbolic exponents, symbolic derivative)",
                "/verif/sa/symexec.py (syntax-directed translation of straight-line methods, constructor chain inlining)",
                "python ast module",
                "real-number semantics of numpy element-wise arithmetic; E, K, n, 1-nu^2, 1-2nu, 1+nu and the stress argument positive"]
HL = "pylife.materiallaws.hookeslaw:"
LAW_MODULES = ("pylife.materiallaws.hookeslaw", "pylife.materiallaws.rambgood", "pylife.materiallaws.true_stress_strain")
RO = "pylife.materiallaws.rambgood:RambergOsgood"
EXPLANATION = (
    "Proof (by normal-form equality, for all parameter values) of the algebraic clauses of C16. The method bodies are "
    "translated from their syntax trees, constructor attributes inlined through the super().__init__ chain. Obligations: "
    "Hooke 1D/plane stress/plane strain/3D: stress(strain(.)) == id and strain(stress(.)) == id component-wise; e33 of plane "
    "stress == -nu/E (s11+s22); s33 of plane strain == nu (s11+s22); plane strain == 3D law at e33=g13=g23=0; plane stress == "
    "3D inverse at s33=s13=s23=0; G == E/(2(1+nu)), K == E/(3(1-2nu)). Ramberg-Osgood (positive stress, extended by the "
    "parity check): tangential_compliance == d strain / d stress (symbolic derivative with exponent 1/n), tangential_modulus "
    "== 1/compliance, compliance is a sum of positive monomials (strictly increasing strain), strain is odd (parity typing), "
    "delta_strain(D) == 2 strain(D/2), delta_stress == 2 stress(D/2), lower_hysteresis(s_max, s_max) == strain(s_max). "
    "True stress/strain formulas == log(1+e), s(1+e), log(1/(1-Z)), F/(A(1-Z)). R-C16-8 (not a proof obligation, structural): "
    "the Newton inversion stress() is wired to that strain function, that derivative and the sign of the strain; its start "
    "value is the smallest of the stresses at which one term of strain() alone reaches |strain|, for ALL terms (normal-form "
    "check term(x0_i) == |strain|): an upper bound of the root with strain(x0) <= 2|strain|, so the monotone descent on the "
    "convex residual needs a number of steps that does not grow with E/K or 1/n. NOT covered: the iteration count itself and "
    "the termination tolerances of the two Newton inversions (stress, delta_stress).")
EXPLANATION += (' R-C16-8 additionally requires the magnitude returned by RambergOsgood.stress to be the unmodified Newton root. R-C16-10 (not part of the proof rules): no method of the Hooke, Ramberg-Osgood and true-stress modules writes into an argument through any alias (effect analysis incl. out=, comprehensions, helper returns).')
EXPLANATION += (" R-C16-11: every array conversion in the law modules (np.asarray / np.array / astype) is value preserving - no element type, a floating type, or the common type of all components - and the Hooke conversion helper returns np.asarray(component) for each component in order; this discharges the identity treatment of that helper in the symbolic execution.")
EXPLANATION += (" R-C16-12: the residual and every derivative handed to the Newton solver contain no power of the iterate whose exponent can be negative for some 0 < n < 1 (interval arithmetic on the exponent, following the methods they call): such a term is infinite at the zero iterate that zero strain starts from.")
EXPLANATION += (' R-C16-13 (not part of the proof rules; shared rule sa/units.py): in the Ramberg-Osgood module every power whose exponent is not a literal is taken of a quotient (stress / K) or of a strain.')
ASSUMPTIONS = ["E, K, n > 0, -1 < nu < 1/2 (enforced by the constructor), positive stress argument for the derivative identity",
               "scipy.optimize.newton returns a root of func when it converges (not part of any obligation)"]


def run(ctx):
    for r in (_purity, _conversion, _hooke, _ramberg, _newton, _newton_domain, _true, _power_bases):
        ctx.attempt(r)


def _power_bases(ctx):
    """R-C16-13 (shared rule sa/units.py; not a proof rule): in the Ramberg-Osgood module every power with the hardening exponent is
    taken of the dimensionless ratio stress / K (or of a strain).  `K ** (1 / n)` with K in Pa and n = 0.03 is 1e300: the algebraically
    identical single fraction for the tangential modulus returns inf / nan for every stress while the compliance stays correct."""
    from .. import units
    prog = ctx.prog
    if not units.selfcheck():
        raise AnalysisError("dimensionful-power rule: built-in example not matched")
    ctx.rule("R-C16-13", floor=2, what="powers with the hardening exponent are taken of stress / K or of a strain")
    n = 0
    for key, fi in sorted(prog.functions.items()):
        if fi.module.name != "pylife.materiallaws.rambgood" or fi.parent is not None:
            continue
        hits = units.dimensionful_power_bases(fi.node, ("K", "E", "stress", "delta_stress", "max_stress"))
        for node, base, expo in hits:
            n += 1
            ctx.violated(fi, node, "%s raises %s - a stress-valued quantity - to the power %s: with K in Pa and a small hardening exponent the "
                         "power overflows float64; the law is stated in the ratio stress / K" % (fi.qualname, base, expo),
                         text="power of the dimensionful %s in %s" % (base, fi.qualname))
        if not hits and any(isinstance(x, ast.Call) and (call_name(x) or "") in units.POWER_CALLS or isinstance(x, ast.BinOp) and isinstance(x.op, ast.Pow)
                            for x in ast.walk(fi.node)):
            n += 1
            ctx.holds(fi, fi.node, "%s: powers of stress / K or of strains only" % fi.qualname)
    if n < 2:
        raise AnalysisError("fewer than two functions with powers found in the Ramberg-Osgood module")


FLOAT_DTYPES = {"float", "np.float64", "np.double", "np.float_", "'float64'", "'float'", "'f8'", "np.longdouble", "np.float128"}
CONVERTERS = ("np.asarray", "np.array", "np.asanyarray", "np.asfarray", "np.ascontiguousarray")


def _conversion_sites(fn_node):
    """Array conversions with an explicit element type: [(call, dtype expr, ok?)] - ok: a floating type, or the common type of
    all converted values (np.result_type / np.promote_types / np.common_type)."""
    out = []
    for c in ast.walk(fn_node):
        if not isinstance(c, ast.Call):
            continue
        cn = call_name(c) or ""
        dt = None
        if cn in CONVERTERS:
            dt = next((k.value for k in c.keywords if k.arg == "dtype"), c.args[1] if len(c.args) > 1 else None)
            if dt is None:
                out.append((c, None, True))
                continue
        elif isinstance(c.func, ast.Attribute) and c.func.attr == "astype" and c.args:
            dt = c.args[0]
        else:
            continue
        t = norm_text(dt)
        ok = t in FLOAT_DTYPES or (isinstance(dt, ast.Call) and (call_name(dt) or "") in
                                   ("np.result_type", "np.promote_types", "np.common_type", "np.find_common_type")
                                   and any(isinstance(a, ast.Starred) or norm_text(a) in FLOAT_DTYPES for a in dt.args))
        out.append((c, dt, ok))
    return out


def _conversion(ctx):
    """R-C16-11: the array conversion in front of every law keeps the values: np.asarray without an element type, with a
    floating type, or with the common type of all components.  (The symbolic execution of the laws treats the conversion
    helper as the identity; this rule discharges that.)"""
    prog = ctx.prog
    ctx.rule("R-C16-11", floor=5, what="input conversions of the material laws preserve the values (no narrowing element type)")
    ex = ast.parse("def f(*args):\n    dtype = np.asarray(args[0]).dtype\n    return tuple(np.asarray(a, dtype=dtype) for a in args)\n").body[0]
    if [ok for _, _, ok in _conversion_sites(ex)] != [True, False]:
        raise AnalysisError("R-C16-11 built-in example not matched")
    n = 0
    for key, fi in sorted(prog.functions.items()):
        if fi.module.name not in LAW_MODULES or fi.parent is not None:
            continue
        for c, dt, ok in _conversion_sites(fi.node):
            n += 1
            if ok:
                ctx.holds(fi, c, "%s keeps the values" % norm_text(c)[:60])
            else:
                ctx.violated(fi, c, "%s converts to the element type %s, which is not a floating type or the common type of all "
                             "components: when that type is integral (integer stresses, a literal 0 for a vanishing component) "
                             "the other components are truncated before the law is applied" % (norm_text(c)[:60], norm_text(dt)),
                             text="dtype " + norm_text(dt))
    helper = prog.func(HL + "_Hookeslawcore._as_consistant_arrays")
    rets = [x for x in walk_function(helper.node) if isinstance(x, ast.Return) and x.value is not None]
    if len(rets) != 1:
        raise AnalysisError("_as_consistant_arrays: single return expected")
    env = inline_env(CFG(helper.node), rets[0])
    env.pop("__ambiguous__", None)
    full = subst_names(rets[0].value, env)
    shape_ok = False
    if isinstance(full, ast.Call) and call_name(full) in ("tuple", "list") and len(full.args) == 1 and \
            isinstance(full.args[0], (ast.GeneratorExp, ast.ListComp)):
        g = full.args[0]
        if len(g.generators) == 1 and not g.generators[0].ifs and isinstance(g.generators[0].target, ast.Name) and \
                norm_text(g.generators[0].iter) == helper.node.args.vararg.arg and isinstance(g.elt, ast.Call) and \
                (call_name(g.elt) or "") in CONVERTERS and g.elt.args and norm_text(g.elt.args[0]) == g.generators[0].target.id:
            shape_ok = True
    if shape_ok:
        ctx.holds(helper, rets[0], "the helper returns np.asarray(component) for every component, in order")
    else:
        ctx.violated(helper, rets[0], "_as_consistant_arrays does not return the converted components one by one in order: %s"
                     % norm_text(full)[:100], text="helper shape")


def _purity(ctx):
    """R-C16-10: the material laws are functions of their arguments - no method of the Hooke, Ramberg-Osgood and true
    stress/strain modules writes into an argument (item/attribute stores, augmented assignment, out=, inplace=True) through any
    alias (np.asarray views, tuples, comprehensions, helper returns).  A round trip evaluated twice on the same arrays would
    otherwise differ."""
    from ..effects import Effects
    prog = ctx.prog
    ctx.rule("R-C16-10", floor=20, what="no law method writes into its arguments through any alias")
    eff = Effects(prog)
    mods = ("pylife.materiallaws.hookeslaw", "pylife.materiallaws.rambgood", "pylife.materiallaws.true_stress_strain")
    n = 0
    for key, fi in sorted(prog.functions.items()):
        if fi.module.name not in mods or fi.parent is not None:
            continue
        summ = eff.summary(fi)
        if summ is None:
            raise AnalysisError("no effect summary for %s" % key)
        n += 1
        bad = [e for e in summ["effects"] if e.origin[0] in ("param", "elem")]
        if not bad:
            ctx.holds(fi, fi.node, "%s: no write reaches an argument" % fi.name)
        for e in bad:
            node = fi.node
            for st in walk_function(fi.node):
                if isinstance(st, ast.stmt) and getattr(st, "lineno", None) == e.lineno:
                    node = st
                    break
            ctx.violated(fi, node, "%s writes into its argument %s (%s through a %s): the caller's data changes, a second "
                         "evaluation on the same arrays gives another result" % (fi.name, e.origin[1], e.kind, e.mode),
                         text="%s %s" % (e.kind, e.origin[1]))
    if n == 0:
        raise AnalysisError("no law methods found")


def _eq(ctx, fi, node, rule, what, a, b):
    if a == b:
        ctx.holds(fi, node, what, {"nf": repr(a)[:200]}, rule=rule)
    else:
        ctx.violated(fi, node, "%s fails: %r  vs  %r" % (what, a, b), rule=rule, text=what)


def _hooke(ctx):
    prog = ctx.prog
    for r, t in (("R-C16-1", "Hooke 1D inverse"), ("R-C16-2", "plane stress"), ("R-C16-3", "plane strain"),
                 ("R-C16-4", "3D inverse"), ("R-C16-5", "2D laws are restrictions of the 3D law"), ("R-C16-6", "G and K")):
        ctx.rule(r, floor=1, what=t)
    ex = MethodNF(prog)
    S = lambda *names: [RF.sym(n) for n in names]
    try:
        # 1D
        c1 = prog.cls(HL + "HookesLaw1d")
        f = prog.lookup_method(c1, "stress")
        s = RF.sym("s")
        _eq(ctx, f, f.node, "R-C16-1", "1D: stress(strain(s)) == s", ex.call(c1, "stress", [ex.call(c1, "strain", [s])]), s)
        _eq(ctx, f, f.node, "R-C16-1", "1D: strain(stress(e)) == e", ex.call(c1, "strain", [ex.call(c1, "stress", [s])]), s)
        # plane stress
        ps = prog.cls(HL + "HookesLaw2dPlaneStress")
        s11, s22, s12 = S("s11", "s22", "s12")
        e11, e22, e33, g12 = ex.call(ps, "strain", [s11, s22, s12])
        back = ex.call(ps, "stress", [e11, e22, g12])
        fs = prog.lookup_method(ps, "stress")
        fe = prog.lookup_method(ps, "strain")
        for nm, a, b in zip(("s11", "s22", "s12"), back, (s11, s22, s12)):
            _eq(ctx, fs, fs.node, "R-C16-2", "plane stress: stress(strain(.))[%s] == %s" % (nm, nm), a, b)
        E, nu = RF.sym("E"), RF.sym("nu")
        _eq(ctx, fe, fe.node, "R-C16-2", "plane stress: e33 == -nu/E (s11+s22)", e33, -nu / E * (s11 + s22))
        a11, a22, a12 = S("e11", "e22", "g12")
        fwd = ex.call(ps, "stress", [a11, a22, a12])
        rt = ex.call(ps, "strain", list(fwd))
        for nm, a, b in zip(("e11", "e22", "g12"), (rt[0], rt[1], rt[3]), (a11, a22, a12)):
            _eq(ctx, fe, fe.node, "R-C16-2", "plane stress: strain(stress(.))[%s] == %s" % (nm, nm), a, b)
        # plane strain
        pn = prog.cls(HL + "HookesLaw2dPlaneStrain")
        fs = prog.lookup_method(pn, "stress")
        fe = prog.lookup_method(pn, "strain")
        e = ex.call(pn, "strain", [s11, s22, s12])
        if len(e) != 3:
            raise AnalysisError("plane strain .strain does not return three components")
        back = ex.call(pn, "stress", list(e))
        for nm, a, b in zip(("s11", "s22", "s12"), (back[0], back[1], back[3]), (s11, s22, s12)):
            _eq(ctx, fs, fs.node, "R-C16-3", "plane strain: stress(strain(.))[%s] == %s" % (nm, nm), a, b)
        fwd = ex.call(pn, "stress", [a11, a22, a12])
        _eq(ctx, fs, fs.node, "R-C16-3", "plane strain: s33 == nu (s11+s22)", fwd[2], nu * (fwd[0] + fwd[1]))
        rt = ex.call(pn, "strain", [fwd[0], fwd[1], fwd[3]])
        for nm, a, b in zip(("e11", "e22", "g12"), rt, (a11, a22, a12)):
            _eq(ctx, fe, fe.node, "R-C16-3", "plane strain: strain(stress(.))[%s] == %s" % (nm, nm), a, b)
        # 3D
        c3 = prog.cls(HL + "HookesLaw3d")
        f3s = prog.lookup_method(c3, "stress")
        f3e = prog.lookup_method(c3, "strain")
        sv = S("s11", "s22", "s33", "s12", "s13", "s23")
        ev = S("e11", "e22", "e33", "g12", "g13", "g23")
        back = ex.call(c3, "stress", list(ex.call(c3, "strain", sv)))
        for nm, a, b in zip(("s11", "s22", "s33", "s12", "s13", "s23"), back, sv):
            _eq(ctx, f3s, f3s.node, "R-C16-4", "3D: stress(strain(.))[%s] == %s" % (nm, nm), a, b)
        rt = ex.call(c3, "strain", list(ex.call(c3, "stress", ev)))
        for nm, a, b in zip(("e11", "e22", "e33", "g12", "g13", "g23"), rt, ev):
            _eq(ctx, f3e, f3e.node, "R-C16-4", "3D: strain(stress(.))[%s] == %s" % (nm, nm), a, b)
        # restrictions
        zero = RF.const(0)
        full = ex.call(c3, "stress", [a11, a22, zero, a12, zero, zero])
        pl = ex.call(pn, "stress", [a11, a22, a12])
        for nm, a, b in zip(("s11", "s22", "s33", "s12"), pl, (full[0], full[1], full[2], full[3])):
            _eq(ctx, fs, fs.node, "R-C16-5", "plane strain %s == 3D law at e33=g13=g23=0" % nm, a, b)
        full = ex.call(c3, "strain", [s11, s22, zero, s12, zero, zero])
        pl = ex.call(ps, "strain", [s11, s22, s12])
        fe = prog.lookup_method(ps, "strain")
        for nm, a, b in zip(("e11", "e22", "e33", "g12"), pl, (full[0], full[1], full[2], full[3])):
            _eq(ctx, fe, fe.node, "R-C16-5", "plane stress %s == 3D inverse at s33=s13=s23=0" % nm, a, b)
        core = prog.cls(HL + "_Hookeslawcore")
        at = ex.attrs(c3)
        init = prog.lookup_method(core, "__init__")
        _eq(ctx, init, init.node, "R-C16-6", "G == E/(2(1+nu))", at["_G"], E / (RF.const(2) * (RF.const(1) + nu)))
        _eq(ctx, init, init.node, "R-C16-6", "K == E/(3(1-2nu))", at["_K"], E / (RF.const(3) * (RF.const(1) - RF.const(2) * nu)))
        for nm in ("G", "K", "E", "nu"):
            p = prog.lookup_method(core, nm)
            r = [s_ for s_ in p.node.body if isinstance(s_, ast.Return)]
            if r and is_self_attr(r[0].value, "_" + nm):
                ctx.holds(p, r[0], "property %s returns self._%s" % (nm, nm), rule="R-C16-6")
            else:
                ctx.violated(p, r[0] if r else p.node, "property %s does not return self._%s" % (nm, nm), rule="R-C16-6")
    except NFUnsupported as e:
        raise AnalysisError("Hooke's law outside the normal-form fragment: %s" % e)


def _parity(e, x, env):
    """'odd' / 'even' / None of expression e in the variable named x (syntactic parity typing)."""
    if isinstance(e, ast.Constant):
        return "even"
    if isinstance(e, ast.Name):
        if e.id == x:
            return "odd"
        if e.id in env:
            return env[e.id]
        return "even"
    if is_self_attr(e):
        return "even"
    if isinstance(e, ast.UnaryOp):
        return _parity(e.operand, x, env)
    if isinstance(e, ast.BinOp):
        l, r = _parity(e.left, x, env), _parity(e.right, x, env)
        if l is None or r is None:
            return None
        if isinstance(e.op, (ast.Add, ast.Sub)):
            return l if l == r else None
        if isinstance(e.op, (ast.Mult, ast.Div)):
            return "even" if l == r else "odd"
        if isinstance(e.op, ast.Pow):
            return "even" if l == "even" else None
        return None
    if isinstance(e, ast.Call):
        fn = call_name(e) or ""
        if fn in ("np.fabs", "np.abs", "abs"):
            return "even" if _parity(e.args[0], x, env) in ("odd", "even") else None
        if fn == "np.sign":
            return _parity(e.args[0], x, env)
        if fn in ("np.power",):
            return "even" if _parity(e.args[0], x, env) == "even" and _parity(e.args[1], x, env) == "even" else None
        if fn in ("np.asarray", "np.array"):
            return _parity(e.args[0], x, env)
        if fn.startswith("self.") and fn.split(".")[1] in env.get("@methods", {}):
            inner = env["@methods"][fn.split(".")[1]]
            a = e.args[0] if e.args else e.keywords[0].value
            pa = _parity(a, x, env)
            if pa == "odd":
                return inner
            if pa == "even":
                return "even"
        return None
    return None


class ParityDomain:
    pass


def _parity_domain():
    from ..absint import Domain

    class _P(Domain):
        """'odd' / 'even' in the stress argument; None = unknown"""

        def const(self, c):
            return "even"

        def self_attr(self, attr, node):
            return "even"

        def join(self, a, b):
            return a if a == b else None

        def binop(self, op, a, b, node):
            if a is None or b is None:
                return None
            if isinstance(op, (ast.Add, ast.Sub)):
                return a if a == b else None
            if isinstance(op, (ast.Mult, ast.Div)):
                return "even" if a == b else "odd"
            if isinstance(op, ast.Pow):
                if a == "even":
                    return "even"
                k = const_value(node.right) if isinstance(node, ast.BinOp) else None
                return ("odd" if k % 2 else "even") if isinstance(k, int) else None
            return None

        def unaryop(self, op, a, node):
            return a

        def call(self, fn, args, kwargs, node, interp, env):
            if fn in ("np.fabs", "np.abs", "abs", "np.absolute") and args:
                return "even" if args[0] in ("odd", "even") else None
            if fn in ("np.sign", "np.asarray", "np.array", "float", "np.float64", "np.negative") and args:
                return args[0]
            if fn in ("np.power", "np.float_power") and len(args) == 2:
                return "even" if args[0] == "even" and args[1] == "even" else None
            if fn in ("np.sqrt", "np.exp", "np.log", "np.log10", "np.cos", "np.cosh") and args:
                return "even" if args[0] == "even" else None
            return NotImplemented

        def method(self, recv, name, args, kwargs, node):
            return recv if name in ("astype", "copy") else None
    return _P()


def _method_parity(prog, ci, name, known):
    """parity of a method of the law in its stress argument, by abstract interpretation (locals, re-bound parameters,
    helper methods such as _get_abs_sign and the other strain methods are followed)"""
    from ..absint import Interp
    f = prog.lookup_method(ci, name)
    return Interp(prog, _parity_domain()).run(f, ["odd"])


def _ramberg(ctx):
    prog = ctx.prog
    ctx.rule("R-C16-7", floor=8, what="Ramberg-Osgood: derivative, reciprocal, positivity, oddness, Masing doubling, hysteresis closure")
    ci = prog.cls(RO)
    ex = MethodNF(prog)
    s = RF.sym("s")
    try:
        strain = ex.call(ci, "strain", [s])
        comp = ex.call(ci, "tangential_compliance", [s])
        mod = ex.call(ci, "tangential_modulus", [s])
        f = prog.lookup_method(ci, "tangential_compliance")
        _eq(ctx, f, f.node, "R-C16-7", "tangential_compliance == d strain / d stress", comp, derivative(strain, "s"))
        f = prog.lookup_method(ci, "tangential_modulus")
        _eq(ctx, f, f.node, "R-C16-7", "tangential_modulus == 1/compliance", mod * comp, RF.const(1))
        f = prog.lookup_method(ci, "tangential_compliance")
        if comp.den.as_const() is not None and comp.den.as_const() > 0 and _poly_sign(comp.num) == 1 and len(comp.num.terms) >= 2:
            ctx.holds(f, f.node, "compliance is a sum of positive monomials: strain is strictly increasing", rule="R-C16-7")
        else:
            ctx.violated(f, f.node, "compliance %r is not a sum of positive terms" % comp, rule="R-C16-7", text="compliance positivity")
        want = s / RF.sym("E") + (s / RF.sym("K")).pow(RF.const(1) / RF.sym("n"))
        f = prog.lookup_method(ci, "strain")
        _eq(ctx, f, f.node, "R-C16-7", "strain == s/E + (s/K)^(1/n) for s > 0", strain, want)
        d = RF.sym("D")
        f = prog.lookup_method(ci, "delta_strain")
        _eq(ctx, f, f.node, "R-C16-7", "delta_strain(D) == 2 strain(D/2)", ex.call(ci, "delta_strain", [d]),
            RF.const(2) * ex.call(ci, "strain", [d / RF.const(2)]))
        f = prog.lookup_method(ci, "lower_hysteresis")
        m = RF.sym("smax")
        _eq(ctx, f, f.node, "R-C16-7", "lower_hysteresis(s_max, s_max) == strain(s_max)", ex.call(ci, "lower_hysteresis", [m, m]),
            ex.call(ci, "strain", [m]))
    except NFUnsupported as e:
        raise AnalysisError("Ramberg-Osgood outside the normal-form fragment: %s" % e)
    # the closure identity needs the branch to be defined AT the reversal point: the raising guard must be strict
    f = prog.lookup_method(ci, "lower_hysteresis")
    guards = [x for x in f.node.body if isinstance(x, ast.If) and x.body and isinstance(x.body[-1], ast.Raise)]
    for gd in guards:
        cmp_ = [n for n in ast.walk(gd.test) if isinstance(n, ast.Compare) and len(n.ops) == 1]
        ps = [q for q in f.params if q != "self"]
        rel = [c_ for c_ in cmp_ if {norm_text(c_.left), norm_text(c_.comparators[0])} == set(ps[:2])]
        if not rel:
            raise AnalysisError("lower_hysteresis: raising guard does not compare stress with max_stress")
        c_ = rel[0]
        a_is_stress = norm_text(c_.left) == ps[0]
        op = type(c_.ops[0])
        excludes_equal = op in (ast.GtE, ast.LtE, ast.Eq)
        above = (op in (ast.Gt, ast.GtE)) == a_is_stress
        if excludes_equal or not above:
            ctx.violated(f, gd, "lower_hysteresis rejects %s: the branch cannot be evaluated at the reversal point stress == "
                         "max_stress, where it has to meet the cyclic curve (a loop traced from s_max raises)" % norm_text(c_),
                         rule="R-C16-7", text="guard " + norm_text(c_))
        else:
            ctx.holds(f, gd, "lower_hysteresis only rejects stress > max_stress: defined at the reversal point", rule="R-C16-7")
    # delta_stress mirrored (symbolic value; temporaries and keyword/positional call forms do not matter)
    from ..absint import Interp as _I, TermDomain as _T, term_to_nf as _tnf
    f = prog.lookup_method(ci, "delta_stress")
    r = [x for x in f.node.body if isinstance(x, ast.Return)][-1]
    p = f.params[1]
    v = r.value
    tv = _I(prog, _T(), follow=lambda c_: False).run(f, [("p", p)])
    ok = False
    if isinstance(tv, tuple) and len(tv) == 4 and tv[:2] == ("op", "*"):
        two = [z for z in (tv[2], tv[3]) if z in (("c", 2), ("c", 2.0))]
        call_ = [z for z in (tv[2], tv[3]) if isinstance(z, tuple) and z[:1] == ("m",) and z[2] == "stress"]
        if two and call_:
            arg = call_[0][3][0] if call_[0][3] else dict(call_[0][4]).get("strain")
            try:
                ok = arg is not None and _tnf(arg, lambda z: "D" if z == ("p", p) else None) == to_nf(parse_expr("D/2"))
            except NFUnsupported:
                ok = False
    if ok:
        ctx.holds(f, r, "delta_stress(D) == 2 stress(D/2)", rule="R-C16-7")
    else:
        ctx.violated(f, r, "delta_stress is %s, the Masing doubling is 2*stress(delta_strain/2)" % norm_text(v), rule="R-C16-7")
    # oddness by parity typing
    known = {}
    for name in ("elastic_strain", "plastic_strain", "strain"):
        p = _method_parity(prog, ci, name, known)
        known[name] = p
        f = prog.lookup_method(ci, name)
        if p == "odd":
            ctx.holds(f, f.node, "%s is odd in the stress" % name, rule="R-C16-7")
        else:
            ctx.violated(f, f.node, "%s has parity %s; the Ramberg-Osgood strain must be odd in the stress" % (name, p),
                         rule="R-C16-7", text="%s parity" % name)
    f = prog.lookup_method(ci, "tangential_compliance")
    pc = _method_parity(prog, ci, "tangential_compliance", known)
    if pc == "even":
        ctx.holds(f, f.node, "compliance is evaluated on |stress| (even extension of the derivative)", rule="R-C16-7")
    elif pc == "odd":
        ctx.violated(f, f.node, "compliance is odd in the stress, it is not evaluated on |stress|: negative stresses would give a "
                     "wrong derivative", rule="R-C16-7", text="compliance abs")
    else:
        ctx.violated(f, f.node, "compliance is not evaluated on |stress|: negative stresses would give a wrong derivative",
                     rule="R-C16-7", text="compliance abs")
    gs = prog.lookup_method(ci, "_get_abs_sign")
    r = [x_ for x_ in gs.node.body if isinstance(x_, ast.Return)][-1]
    env = {s_.targets[0].id: s_.value for s_ in gs.node.body if isinstance(s_, ast.Assign) and isinstance(s_.targets[0], ast.Name)}
    vals = [env.get(e.id, e) if isinstance(e, ast.Name) else e for e in r.value.elts] if isinstance(r.value, ast.Tuple) else []
    ok = len(vals) == 2 and call_name(vals[0]) in ("np.fabs", "np.abs") and call_name(vals[1]) == "np.sign" and \
        norm_text(vals[0].args[0]) == norm_text(vals[1].args[0]) == [p_ for p_ in gs.params if p_ not in ("self", "cls")][0]
    if ok:
        ctx.holds(gs, r, "_get_abs_sign returns (|x|, sign x)", rule="R-C16-7")
    else:
        ctx.violated(gs, r, "_get_abs_sign does not return (|x|, sign(x))", rule="R-C16-7")


INF = float("inf")


def _exp_interval(e, env):
    """Interval (lo, hi) of an exponent expression for 0 < n < 1; None if not decidable."""
    c = const_value(e)
    if isinstance(c, (int, float)) and not isinstance(c, bool):
        return (float(c), float(c))
    if (is_self_attr(e) and e.attr in ("_n", "n")) or (isinstance(e, ast.Name) and e.id == "n" and "n" not in env):
        return (0.0, 1.0)
    if isinstance(e, ast.Name) and e.id in env:
        return _exp_interval(env[e.id], {k: v for k, v in env.items() if k != e.id})
    if is_self_attr(e) and e.attr in env.get("@props", {}):
        # a (cached) property of the law with a single returned expression: its value
        props = dict(env["@props"])
        expr = props.pop(e.attr)
        return _exp_interval(expr, {"@props": props})
    if isinstance(e, ast.UnaryOp) and isinstance(e.op, (ast.USub, ast.UAdd)):
        a = _exp_interval(e.operand, env)
        if a is None:
            return None
        return (-a[1], -a[0]) if isinstance(e.op, ast.USub) else a
    if isinstance(e, ast.BinOp):
        a, b = _exp_interval(e.left, env), _exp_interval(e.right, env)
        if a is None or b is None:
            return None
        if isinstance(e.op, ast.Add):
            return (a[0] + b[0], a[1] + b[1])
        if isinstance(e.op, ast.Sub):
            return (a[0] - b[1], a[1] - b[0])
        if isinstance(e.op, (ast.Mult, ast.Div)):
            if isinstance(e.op, ast.Div):
                if b[0] < 0 < b[1] or b == (0.0, 0.0):
                    return None
                b = (1.0 / b[1] if b[1] != 0 else -INF, 1.0 / b[0] if b[0] != 0 else INF)
                if b[0] > b[1]:
                    b = (b[1], b[0])

            def mul(x, y):
                return 0.0 if x == 0 or y == 0 else x * y
            ps = [mul(a[0], b[0]), mul(a[0], b[1]), mul(a[1], b[0]), mul(a[1], b[1])]
            return (min(ps), max(ps))
    return None


def _singular_powers(prog, ci, fn_node, arg, depth=0, seen=None):
    """Powers of the iterate with an exponent that can be negative for 0 < n < 1 (infinite at a zero iterate), in the function
    and the methods of the class it calls with the iterate: [(node, exponent text, interval or None)]"""
    seen = seen if seen is not None else set()
    out = []
    env = {s_.targets[0].id: s_.value for s_ in ast.walk(fn_node) if isinstance(s_, ast.Assign) and isinstance(s_.targets[0], ast.Name)}
    props = {}
    for nm_, defs_ in ci.methods.items():
        d_ = defs_[-1]
        decos = {norm_text(x_).split(".")[-1] for x_ in d_.node.decorator_list}
        if decos & {"property", "cached_property"}:
            body_ = [x_ for x_ in d_.node.body if not (isinstance(x_, ast.Expr) and isinstance(x_.value, ast.Constant))]
            if len(body_) == 1 and isinstance(body_[0], ast.Return) and body_[0].value is not None:
                props[nm_] = body_[0].value
    env["@props"] = props
    tainted = {arg}
    changed = True
    while changed:
        changed = False
        for s_ in ast.walk(fn_node):
            if isinstance(s_, ast.Assign) and names_in(s_.value) & tainted:
                for t in s_.targets:
                    for nm in ([t.id] if isinstance(t, ast.Name) else [x.id for x in getattr(t, "elts", []) if isinstance(x, ast.Name)]):
                        if nm not in tainted:
                            tainted.add(nm)
                            changed = True
    for n in ast.walk(fn_node):
        base = expo = None
        if isinstance(n, ast.BinOp) and isinstance(n.op, ast.Pow):
            base, expo = n.left, n.right
        elif isinstance(n, ast.Call) and (call_name(n) or "") in ("np.power", "np.float_power", "pow", "math.pow") and len(n.args) == 2:
            base, expo = n.args
        if base is not None and names_in(base) & tainted:
            iv = _exp_interval(expo, env)
            if iv is None or iv[0] < 0:
                out.append((n, norm_text(expo), iv))
        if isinstance(n, ast.Call) and isinstance(n.func, ast.Attribute) and is_self_attr(n.func) and depth < 3:
            callee = prog.lookup_method(ci, n.func.attr)
            args = list(n.args) + [k.value for k in n.keywords]
            if callee is not None and callee.key not in seen and any(names_in(a) & tainted for a in args):
                seen.add(callee.key)
                ps = [q for q in callee.params if q != "self"]
                if ps:
                    out.extend(_singular_powers(prog, ci, callee.node, ps[0], depth + 1, seen))
    return out


def _newton_domain(ctx):
    """R-C16-12: every callable handed to the Newton solver is finite on the whole iterate domain.  The iterate starts at and may
    stay at 0 (zero strain), and the vectorised solver multiplies by the step, so a term that is infinite at a zero iterate
    (a power of the iterate whose exponent can be negative for some 0 < n < 1) turns the exact answer 0 into NaN."""
    prog = ctx.prog
    ctx.rule("R-C16-12", floor=2, what="callables handed to the Newton solver have no power of the iterate with a possibly negative exponent")
    ci = prog.cls(RO)
    f = prog.lookup_method(ci, "stress")
    if not [c_ for c_ in calls_in(f.node) if (call_name(c_) or "").endswith("optimize.newton")]:
        from ..inline import inlined
        f = inlined(prog, f, skip=("_get_abs_sign",))
    nested = {n.name: n for n in f.node.body if isinstance(n, ast.FunctionDef)}
    c = [c for c in calls_in(f.node) if (call_name(c) or "").endswith("optimize.newton")]
    if len(c) != 1:
        raise AnalysisError("RambergOsgood.stress: newton call not found")
    ex = ast.parse("def g(self, stress):\n    e = 1./self._n\n    return np.power(stress/self._K, e - 2.)\n").body[0]
    exs = _singular_powers(prog, ci, ex, "stress")
    if len(exs) != 1 or exs[0][2] is None or exs[0][2][0] != -1.0:
        raise AnalysisError("R-C16-12 built-in example not matched: %s" % (exs,))
    n = 0
    for k in c[0].keywords:
        if k.arg not in ("func", "fprime", "fprime2"):
            continue
        fn = nested.get(k.value.id) if isinstance(k.value, ast.Name) else (k.value if isinstance(k.value, ast.Lambda) else None)
        if fn is None and is_self_attr(k.value):
            m_ = prog.lookup_method(ci, k.value.attr)       # a bound method of the law handed over directly
            fn = m_.node if m_ is not None else None
        if fn is None:
            raise AnalysisError("newton %s=%s is not a local function" % (k.arg, norm_text(k.value)))
        n += 1
        arg = [a_.arg for a_ in fn.args.args if a_.arg != "self"][0]
        bad = _singular_powers(prog, ci, fn, arg)
        for node, et, iv in bad:
            ctx.violated(f, fn if isinstance(fn, ast.stmt) else c[0], "%s=%s contains %s with exponent %s %s for 0 < n < 1: "
                         "infinite at a zero iterate (zero strain), which the vectorised solver turns into NaN for that element" %
                         (k.arg, norm_text(k.value), norm_text(node)[:60], et,
                          "ranging over (%g, %g)" % iv if iv else "of undecided sign"), text="singular %s" % k.arg)
        if not bad:
            ctx.holds(f, fn if isinstance(fn, ast.stmt) else c[0], "%s=%s: all powers of the iterate have exponents >= 0 for 0 < n < 1"
                      % (k.arg, norm_text(k.value)))
    if n < 2:
        raise AnalysisError("newton call without func / fprime")


def _newton(ctx):
    prog = ctx.prog
    ctx.rule("R-C16-8", floor=5, what="Newton inversion is wired to strain, its derivative, start value and sign")
    ci = prog.cls(RO)
    f = prog.lookup_method(ci, "stress")
    if not [c_ for c_ in calls_in(f.node) if (call_name(c_) or "").endswith("optimize.newton")]:
        from ..inline import inlined
        f = inlined(prog, f, skip=("_get_abs_sign",))       # the solver call may live in an extracted private helper
    nested = {n.name: n for n in f.node.body if isinstance(n, ast.FunctionDef)}
    c = [c for c in calls_in(f.node) if (call_name(c) or "").endswith("optimize.newton")]
    if len(c) != 1:
        raise AnalysisError("RambergOsgood.stress: newton call not found")
    kw = {k.arg: k.value for k in c[0].keywords}
    func = nested.get(kw["func"].id) if isinstance(kw.get("func"), ast.Name) else None
    fpr = nested.get(kw["fprime"].id) if isinstance(kw.get("fprime"), ast.Name) else None
    env = {}
    from ..astutil import inline_single_defs as _isd
    for s in f.node.body:
        # (|x|, sign x) = self.<helper>(x): the helper is recognised by what it returns, not by its name
        if isinstance(s, ast.Assign) and isinstance(s.targets[0], ast.Tuple) and len(s.targets[0].elts) == 2 and \
                isinstance(s.value, ast.Call) and is_self_attr(s.value.func) and all(isinstance(t_, ast.Name) for t_ in s.targets[0].elts):
            h_ = prog.lookup_method(ci, s.value.func.attr)
            rr = [x_ for x_ in h_.node.body if isinstance(x_, ast.Return)] if h_ is not None else []
            rv = _isd(h_.node, rr[-1].value) if rr and rr[-1].value is not None else None
            if isinstance(rv, ast.Tuple) and len(rv.elts) == 2:
                for t_, e_ in zip(s.targets[0].elts, rv.elts):
                    if call_name(e_) in ("np.fabs", "np.abs", "abs"):
                        env[t_.id] = "abs"
                    elif call_name(e_) == "np.sign":
                        env[t_.id] = "sign"
    if "abs" not in env.values() or "sign" not in env.values():
        raise AnalysisError("RambergOsgood.stress: the split of the strain into magnitude and sign was not found")
    ok = func is not None
    if ok:
        r = func.body[-1].value
        ok = isinstance(r, ast.BinOp) and isinstance(r.op, ast.Sub) and isinstance(r.left, ast.Call) and \
            is_self_attr(r.left.func, "strain") and norm_text(r.left.args[0]) == func.args.args[0].arg and \
            isinstance(r.right, ast.Name) and env.get(r.right.id) == "abs"
    if ok:
        ctx.holds(f, func, "residual = strain(stress) - |strain|")
    else:
        ctx.violated(f, func or f.node, "Newton residual is not strain(stress) - |given strain|", text="residual")
    ok = fpr is not None and isinstance(fpr.body[-1].value, ast.Call) and is_self_attr(fpr.body[-1].value.func, "tangential_compliance") \
        and norm_text(fpr.body[-1].value.args[0]) == fpr.args.args[0].arg
    if not ok and is_self_attr(kw.get("fprime"), "tangential_compliance"):
        ok, fpr = True, c[0]                        # the bound method itself is handed to the solver
    if ok:
        ctx.holds(f, fpr, "derivative = tangential_compliance(stress)")
    else:
        ctx.violated(f, fpr or f.node, "Newton derivative is not tangential_compliance(stress)", text="fprime")
    # start value: strain() is a sum of non-negative, increasing terms (R-C16-7), so a stress at which ONE term alone equals the
    # given strain is an upper bound of the root, from which the iteration on the convex residual descends monotonically.  The
    # number of steps is bounded independently of E, K, n only if the start value is the smallest of such bounds over ALL terms
    # (then strain(x0) <= #terms * |strain|); a single bound can be arbitrarily far above the root (E*|strain| for a small
    # hardening exponent), the solver's iteration limit is hit and the array solver returns unconverged entries with a warning.
    x0 = kw.get("x0")
    absname = [k for k, v in env.items() if v == "abs"]
    if x0 is None or not absname:
        raise AnalysisError("RambergOsgood.stress: start value or |strain| not found")
    defs1 = {}
    for s_ in f.node.body:
        if isinstance(s_, ast.Assign) and len(s_.targets) == 1 and isinstance(s_.targets[0], ast.Name):
            defs1.setdefault(s_.targets[0].id, []).append(s_.value)
    x0e = x0
    for _ in range(4):          # follow single-definition locals down to |strain|
        m_ = {nm: vs[0] for nm, vs in defs1.items() if len(vs) == 1 and nm != absname[0] and nm in names_in(x0e)}
        if not m_:
            break
        x0e = subst_names(x0e, m_)
    cands = list(x0e.args) if isinstance(x0e, ast.Call) and (call_name(x0e) or "") in ("np.minimum", "min", "np.fmin") else [x0e]
    sf = prog.lookup_method(ci, "strain")
    from ..astutil import inline_single_defs
    sret = inline_single_defs(sf.node, [s_ for s_ in walk_function(sf.node) if isinstance(s_, ast.Return)][-1].value)
    terms = []

    def flat(e):
        if isinstance(e, ast.BinOp) and isinstance(e.op, ast.Add):
            flat(e.left)
            flat(e.right)
        elif isinstance(e, ast.Call) and is_self_attr(e.func):
            terms.append(e.func.attr)
        else:
            raise AnalysisError("RambergOsgood.strain: term %s is not a method of the law" % norm_text(e))
    flat(sret)
    ex = MethodNF(prog)
    a_sym = RF.sym("a")

    def atom(e):
        if is_self_attr(e) and e.attr in ("_E", "_K", "_n"):
            return e.attr[1:]
        if isinstance(e, ast.Name) and e.id == absname[0]:
            return "a"
        return None
    covered, loose = set(), []
    try:
        for cnd in cands:
            cnf = to_nf(cnd, atom=atom)
            hit = [t for t in terms if ex.call(ci, t, [cnf]) == a_sym]
            if hit:
                covered |= set(hit)
            else:
                loose.append(cnd)
    except NFUnsupported as e_:
        raise AnalysisError("Newton start value outside the fragment: %s" % e_)
    tol_ok = norm_text(kw.get("rtol", ast.Constant(None))) == "rtol" and norm_text(kw.get("tol", ast.Constant(None))) == "tol"
    if loose:
        ctx.violated(f, c[0], "Newton start value %s: %s does not make any single term of strain() equal to the given strain, so it "
                     "is not known to be an upper bound of the root" % (norm_text(x0e), norm_text(loose[0])), text="x0 bound")
    elif set(terms) - covered:
        ctx.violated(f, c[0], "Newton start value %s bounds the root through %s only: without the bound from %s it can lie "
                     "arbitrarily far above the root (small hardening exponent, large strain), the iteration limit of the solver is "
                     "reached and the array solver returns unconverged stresses with only a warning - stress(strain(s)) != s" %
                     (norm_text(x0e), "/".join(sorted(covered)), "/".join(sorted(set(terms) - covered))), text="x0 one-sided")
    elif not tol_ok:
        ctx.violated(f, c[0], "the tolerances are not forwarded to the solver", text="x0/tol")
    else:
        ctx.holds(f, c[0], "start value = smallest of the stresses at which one term of strain() alone (%s) reaches |strain|: upper "
                  "bound with strain(x0) <= %d |strain|; tolerances forwarded" % ("/".join(terms), len(terms)))
    r = [s for s in f.node.body if isinstance(s, ast.Return)][-1]
    v = r.value
    ok = isinstance(v, ast.BinOp) and isinstance(v.op, ast.Mult) and \
        {env.get(n.id) for n in (v.left, v.right) if isinstance(n, ast.Name)} >= {"sign"}
    if ok:
        ctx.holds(f, r, "result = |stress| * sign(strain): odd inverse")
    else:
        ctx.violated(f, r, "result is not multiplied by the sign of the strain", text="sign")
    # the other factor is the solver's result itself: one definition, the newton call
    other = [n for n in (v.left, v.right) if isinstance(n, ast.Name) and env.get(n.id) != "sign"] if isinstance(v, ast.BinOp) else []
    defs = [s for s in walk_function(f.node) if isinstance(s, (ast.Assign, ast.AugAssign)) and other and
            any(isinstance(t, ast.Name) and t.id == other[0].id for t in (s.targets if isinstance(s, ast.Assign) else [s.target]))]
    direct = isinstance(v, ast.BinOp) and any(n is c[0] for n in (v.left, v.right))      # newton(...) * sign written in place
    if direct:
        ctx.holds(f, r, "the returned magnitude is the solver's root, not post-processed")
    elif other and len(defs) == 1 and isinstance(defs[0], ast.Assign) and defs[0].value is c[0]:
        ctx.holds(f, defs[0], "the returned magnitude is the solver's root, not post-processed")
    else:
        ctx.violated(f, defs[-1] if defs else r, "the magnitude returned by stress() is not the unmodified result of the Newton "
                     "solve (%d definitions of %s): values are clipped / replaced after the solve, so stress(strain(s)) != s for "
                     "the affected range" % (len(defs), other[0].id if other else "?"), text="post-processed root")


def _true(ctx):
    prog = ctx.prog
    ctx.rule("R-C16-9", floor=4, what="true stress/strain conversions equal their definitions")
    T = "pylife.materiallaws.true_stress_strain:"
    table = {"true_strain": "np.log(1 + tech_strain)", "true_stress": "tech_stress * (1 + tech_strain)",
             "true_fracture_strain": "np.log(1 / (1 - reduction_area_fracture))",
             "true_fracture_stress": "fracture_force / (initial_cross_section * (1 - reduction_area_fracture))"}
    from ..inline import inlined as _inl
    for name, ref in table.items():
        f = _inl(prog, prog.func(T + name))            # shared sub-expressions may live in private module-level helpers
        r = [s for s in f.node.body if isinstance(s, ast.Return)][-1]
        # evaluate the body in order: locals and re-assigned parameters are substituted by their normal forms
        env = {q: RF.sym(q) for q in f.params}

        def atom(e, env=env):
            if isinstance(e, ast.Name):
                return env.get(e.id)
            return None
        try:
            for st in f.node.body:
                if isinstance(st, ast.Expr) and isinstance(st.value, ast.Constant):
                    continue
                if isinstance(st, ast.Assign) and len(st.targets) == 1 and isinstance(st.targets[0], ast.Name):
                    env[st.targets[0].id] = to_nf(st.value, atom=atom)
                elif isinstance(st, ast.Return):
                    break
                elif isinstance(st, (ast.If, ast.For, ast.While, ast.With, ast.Try)):
                    raise NFUnsupported("control flow in %s" % name)
            a, b = to_nf(r.value, atom=atom), to_nf(parse_expr(ref))
        except NFUnsupported as e:
            raise AnalysisError("%s outside the fragment: %s" % (name, e))
        _eq(ctx, f, r, "R-C16-9", "%s == %s" % (name, ref), a, b)


# =========================================================================== variants

HP = "src/pylife/materiallaws/hookeslaw.py"
RP = "src/pylife/materiallaws/rambgood.py"
TP = "src/pylife/materiallaws/true_stress_strain.py"


def _assign(f, name):
    return [s for s in ast.walk(f) if isinstance(s, ast.Assign) and isinstance(s.targets[0], ast.Name) and s.targets[0].id == name][0]


_HLP = "src/pylife/materiallaws/hookeslaw.py"
_ROP = "src/pylife/materiallaws/rambgood.py"


def variants():
    out = []

    def guard_ge(tree):
        f = find_func(tree, "RambergOsgood.lower_hysteresis")
        for n in ast.walk(f):
            if isinstance(n, ast.Compare) and isinstance(n.ops[0], ast.Gt):
                n.ops = [ast.GtE()]
                return True
        return False
    out.append(witness("lower_hysteresis rejects stress >= max_stress", _ROP, guard_ge, "R-C16-7"))

    def strain_from_stress(tree):
        f = find_func(tree, "true_stress")
        f.body.insert(len(f.body) - 1, parse_stmt("tech_strain = np.asarray(tech_stress)"))
        return True
    out.append(witness("true_stress overwrites the strain argument with the stress", TP, strain_from_stress, "R-C16-9"))

    def asarray_both(tree):
        f = find_func(tree, "true_stress")
        f.body.insert(len(f.body) - 1, parse_stmt("tech_strain = np.asarray(tech_strain)"))
        f.body.insert(len(f.body) - 1, parse_stmt("tech_stress = np.asarray(tech_stress)"))
        return True
    out.append(twin("true_stress converts both arguments with np.asarray", TP, asarray_both))

    def shear_in_place(tree):
        f = find_func(tree, "HookesLaw3d.stress")
        for i, st in enumerate(f.body):
            if isinstance(st, ast.Assign) and isinstance(st.targets[0], ast.Name) and st.targets[0].id == "s12":
                f.body[i] = parse_stmt("s12 = np.multiply(g12, self._G, out=g12)")
                return True
        return False
    out.append(witness("3D shear stress computed in place of the caller's array", _HLP, shear_in_place, "R-C16-10"))

    def aug_param(tree):
        f = find_func(tree, "HookesLaw1d.stress")
        f.body.insert(-1, parse_stmt("%s *= 1.0" % f.args.args[1].arg))
        return True
    out.append(witness("1D law scales its argument in place", _HLP, aug_param, "R-C16-10"))

    def clip_small(tree):
        f = find_func(tree, "RambergOsgood.stress")
        r = [i for i, st in enumerate(f.body) if isinstance(st, ast.Return)][-1]
        f.body.insert(r, parse_stmt("abs_stress = np.where(abs_strain < tol, 0.0, abs_stress)"))
        return True
    out.append(witness("stress below the solver tolerance set to zero", _ROP, clip_small, "R-C16-8"))

    def shear_mult_func(tree):
        f = find_func(tree, "HookesLaw3d.stress")
        for i, st in enumerate(f.body):
            if isinstance(st, ast.Assign) and isinstance(st.targets[0], ast.Name) and st.targets[0].id == "s12":
                f.body[i] = parse_stmt("s12 = np.multiply(self._G, g12)")
                return True
        return False
    out.append(twin("3D shear stress via np.multiply without out=", _HLP, shear_mult_func))

    def factor2(tree):
        f = find_func(tree, "HookesLaw3d.stress")
        _assign(f, "factor2").value = parse_expr("1 + self._nu")
        return True
    out.append(witness("3D: 1 - nu -> 1 + nu", HP, factor2, "R-C16-4"))

    def shear3d(tree):
        f = find_func(tree, "HookesLaw3d.strain")
        _assign(f, "g13").value = parse_expr("s13 / self._E")
        return True
    out.append(witness("3D: g13 = s13/E", HP, shear3d, "R-C16-4"))

    def ps_e33(tree):
        f = find_func(tree, "HookesLaw2dPlaneStress.strain")
        _assign(f, "e33").value = parse_expr("-self._nu / self._E * (s11 - s22)")
        return True
    out.append(witness("plane stress e33 with s11 - s22", HP, ps_e33, "R-C16-2"))

    def ps_factor(tree):
        f = find_func(tree, "HookesLaw2dPlaneStress.stress")
        _assign(f, "factor").value = parse_expr("self._Et / (1 - self._nut)")
        return True
    out.append(witness("plane stress factor E/(1-nu)", HP, ps_factor, "R-C16-2"))

    def pn_nut(tree):
        f = find_func(tree, "HookesLaw2dPlaneStrain.__init__")
        for s in f.body:
            if isinstance(s, ast.Assign) and is_self_attr(s.targets[0], "_nut"):
                s.value = parse_expr("self._nu / (1 + self._nu)")
                return True
        return False
    out.append(witness("plane strain nu' = nu/(1+nu) (self-consistent, but no longer the 3D law)", HP, pn_nut, "R-C16-5"))

    def pn_s33(tree):
        f = find_func(tree, "HookesLaw2dPlaneStrain.stress")
        _assign(f, "s33").value = parse_expr("self.nu * (s11 - s22)")
        return True
    out.append(witness("plane strain s33 with s11 - s22", HP, pn_s33, "R-C16-3"))

    def g_def(tree):
        f = find_func(tree, "_Hookeslawcore.__init__")
        for s in f.body:
            if isinstance(s, ast.Assign) and is_self_attr(s.targets[0], "_K"):
                s.value = parse_expr("E / (3.0 * (1 - nu))")
                return True
        return False
    out.append(witness("K = E/(3(1-nu))", HP, g_def, "R-C16-6"))

    def one_d(tree):
        f = find_func(tree, "HookesLaw1d.strain")
        f.body[-1].value = parse_expr("np.asarray(stress) * self._E")
        return True
    out.append(witness("1D strain = stress*E", HP, one_d, "R-C16-1"))

    def compl_exp(tree):
        f = find_func(tree, "RambergOsgood.tangential_compliance")
        for c in calls_in(f, name="np.power"):
            c.args[1] = parse_expr("1.0 / self._n")
            return True
        return False
    out.append(witness("compliance exponent 1/n (missing -1)", RP, compl_exp, "R-C16-7"))

    def compl_coeff(tree):
        f = find_func(tree, "RambergOsgood.tangential_compliance")
        for n in ast.walk(f):
            if isinstance(n, ast.BinOp) and isinstance(n.op, ast.Mult) and norm_text(n) == "self._n * self._K":
                return replace_node(n, parse_expr("self._K"))
        return False
    out.append(witness("compliance coefficient 1/K", RP, compl_coeff, "R-C16-7"))

    def masing(tree):
        f = find_func(tree, "RambergOsgood.delta_strain")
        f.body[-1].value = parse_expr("2 * self.strain(stress=delta_stress / 3.0)")
        return True
    out.append(witness("2*strain(D/3)", RP, masing, "R-C16-7"))

    def masing_s(tree):
        f = find_func(tree, "RambergOsgood.delta_stress")
        f.body[-1].value = parse_expr("self.stress(strain=delta_strain / 2.0)")
        return True
    out.append(witness("delta_stress without doubling", RP, masing_s, "R-C16-7"))

    def plastic_even(tree):
        f = find_func(tree, "RambergOsgood.plastic_strain")
        f.body[-1].value = parse_expr("np.power(absstress / self._K, 1.0 / self._n)")
        return True
    out.append(witness("plastic strain loses its sign", RP, plastic_even, "R-C16-7"))

    def modulus(tree):
        f = find_func(tree, "RambergOsgood.tangential_modulus")
        f.body[-1].value = parse_expr("self._E / self.tangential_compliance(stress)")
        return True
    out.append(witness("modulus = E/compliance", RP, modulus, "R-C16-7"))

    def lower(tree):
        f = find_func(tree, "RambergOsgood.lower_hysteresis")
        f.body[-1].value = parse_expr("self.strain(max_stress) - self.delta_strain(max_stress + stress)")
        return True
    out.append(witness("lower branch uses s_max + s", RP, lower, "R-C16-7"))

    def newton_fprime(tree):
        f = find_func(tree, "RambergOsgood.stress")
        for n in f.body:
            if isinstance(n, ast.FunctionDef) and n.name == "dresiduum":
                n.body[-1].value = parse_expr("self.tangential_modulus(stress)")
                return True
        return False
    out.append(witness("Newton derivative = tangential modulus", RP, newton_fprime, "R-C16-8"))

    def newton_sign(tree):
        f = find_func(tree, "RambergOsgood.stress")
        f.body[-1].value = ast.Name(id="abs_stress", ctx=ast.Load())
        return True
    out.append(witness("inverse loses the sign", RP, newton_sign, "R-C16-8"))

    def x0_edit(expr):
        def f_(tree):
            f = find_func(tree, "RambergOsgood.stress")
            for st in f.body:
                if isinstance(st, ast.Assign) and isinstance(st.targets[0], ast.Name) and st.targets[0].id == "stress0":
                    st.value = parse_expr(expr)
                    return True
            return False
        return f_
    out.append(witness("start value from the elastic bound only", RP, x0_edit("self._E * abs_strain"), "R-C16-8"))
    out.append(witness("start value from the plastic bound only", RP, x0_edit("self._K * abs_strain ** self._n"), "R-C16-8"))
    out.append(witness("start value not a bound (K instead of E)", RP,
                       x0_edit("np.minimum(self._K * abs_strain, self._K * np.power(abs_strain, self._n))"), "R-C16-8"))
    out.append(twin("start value with the bounds swapped and ** for np.power", RP,
                    x0_edit("np.minimum(abs_strain ** self._n * self._K, abs_strain * self._E)")))

    def true1(tree):
        f = find_func(tree, "true_stress")
        f.body[-1].value = parse_expr("tech_stress * (1.0 - tech_strain)")
        return True
    out.append(witness("true stress with 1 - e", TP, true1, "R-C16-9"))

    def true2(tree):
        f = find_func(tree, "true_fracture_strain")
        f.body[-1].value = parse_expr("np.log(1.0 - reduction_area_fracture)")
        return True
    out.append(witness("fracture strain log(1-Z)", TP, true2, "R-C16-9"))

    # twins
    def regroup(tree):
        f = find_func(tree, "HookesLaw3d.strain")
        _assign(f, "e11").value = parse_expr("s11 / self._E - self._nu * s22 / self._E - self._nu * s33 / self._E")
        return True
    out.append(twin("3D e11 expanded", HP, regroup))

    def compl_alt(tree):
        f = find_func(tree, "RambergOsgood.tangential_compliance")
        f.body[-1].value = parse_expr("1.0 / self._E + np.power(stress / self._K, 1.0 / self._n) / (self._n * stress)")
        return True
    out.append(twin("compliance written as 1/E + (s/K)^(1/n)/(n s)", RP, compl_alt))

    def frac_alt(tree):
        f = find_func(tree, "true_fracture_strain")
        f.body[-1].value = parse_expr("-np.log(1.0 - reduction_area_fracture)")
        return True
    out.append(twin("fracture strain as -log(1-Z)", TP, frac_alt))
    return out
