"""C06 — notch approximation laws: solver wiring and sibling agreement (structural clauses)."""
from __future__ import annotations

import ast

from ..astutil import (call_name, calls_in, const_value, find_func, is_self_attr, names_in, parse_expr, parse_stmt,
                       replace_node)
from ..cfg import CFG
from ..dataflow import inline_env
from ..astutil import subst_names
from ..frontend import AnalysisError, walk_function
from ..report import norm_text
from ..sibling import diff_blocks
from ..witness import witness, twin, repair
from .c16 import _parity

LEVEL = "other"
EN = "pylife.materiallaws.notch_approximation_law:ExtendedNeuber"
SB = "pylife.materiallaws.notch_approximation_law_seegerbeste:SeegerBeste"
EXPLANATION = (
    "Static decision of the wiring behind C06 (the statement itself - a root within tolerance, bounds, monotonicity - is "
    "numerical and not decided). R-C06-1: every public solve method of ExtendedNeuber and SeegerBeste, and the two per-element "
    "retry helpers, reach optimize.newton with the residual whose (unknown, given) parameters match the method's direction and "
    "branch, the given quantity in args, a start value derived from the given quantity and, where present, the derivative of "
    "that same residual. R-C06-2: the public rtol/tol reach the rtol/tol keywords of every solver call incl. the retry path. "
    "R-C06-3: each backward residual is the forward residual with the roles swapped (what makes load(stress(L)) = L possible). "
    "R-C06-4: where full_output is requested the converged flags are read, non-converged entries are retried and a retry "
    "result is written back only under its own converged test. R-C06-5: parity typing - extended Neuber residuals are odd, "
    "Seeger-Beste residuals even under (stress, load) -> (-stress, -load), start values odd: the law is odd. R-C06-6: every "
    "write to E/K/n outside the constructor is followed on every path by a rebuild of the cached Ramberg-Osgood object. "
    "R-C06-10: a position obtained from enumerate() never subscripts an argument as given (label look-up on a Series). "
    "R-C06-7: helpers duplicated across the two law classes are identical, each secondary-branch helper is its primary "
    "sibling under the Masing substitution (strain -> delta_strain, ...), and the two copies of the base class agree.")
EXPLANATION += (" R-C06-8: the fprime handed to Newton equals d func / d unknown in normal form (symbolic differentiation, calls on the cached Ramberg-Osgood object evaluated on that class with the law's E, K, n; positive branch, the negative one follows from parity and the pole guards); every where= mask of a quotient excludes exactly its pole; the Ramberg-Osgood object is built from (E, K, n) in that order.")
EXPLANATION += (" R-C06-9: the forward residuals handed to the solver are defined at zero load (zeroness abstract interpretation over the residual, its helpers and the Ramberg-Osgood object: no division whose divisor vanishes identically when the load is zero).")
ASSUMPTIONS = ["scipy.optimize.newton(func, x0, fprime, args, rtol, tol, full_output) semantics",
               "RambergOsgood.strain/delta_strain are odd (C16)"]

DIRS = {"stress": ("stress", "load"), "load": ("load", "stress"),
        "stress_secondary_branch": ("delta_stress", "delta_load"), "load_secondary_branch": ("delta_load", "delta_stress")}


def run(ctx):
    for r in (_wiring, _inverse, _convergence, _parity_rule, _cache, _siblings, _derivatives, _zero_load, _positions):
        ctx.attempt(r)


def _positional_subscripts_of_params(fn_node, params):
    """P[i] where P is a parameter as given (not converted to an array) and i a position from enumerate(): for a Series
    argument that is a label look-up"""
    pos = set()
    for n_ in ast.walk(fn_node):
        gens = []
        if isinstance(n_, ast.For):
            gens.append((n_.target, n_.iter))
        if isinstance(n_, (ast.ListComp, ast.GeneratorExp, ast.SetComp)):
            gens += [(g_.target, g_.iter) for g_ in n_.generators]
        for tgt, it_ in gens:
            if isinstance(it_, ast.Call) and call_name(it_) == "enumerate" and isinstance(tgt, ast.Tuple) and tgt.elts and \
                    isinstance(tgt.elts[0], ast.Name):
                pos.add(tgt.elts[0].id)
    # lists of positions and the loop variables that run over them
    lists = set()
    for _ in range(2):
        for n_ in ast.walk(fn_node):
            if isinstance(n_, ast.Assign) and isinstance(n_.targets[0], ast.Name) and isinstance(n_.value, (ast.ListComp, ast.GeneratorExp)) \
                    and isinstance(n_.value.elt, ast.Name) and n_.value.elt.id in pos:
                lists.add(n_.targets[0].id)
            if isinstance(n_, ast.For) and isinstance(n_.target, ast.Name) and isinstance(n_.iter, ast.Name) and n_.iter.id in lists:
                pos.add(n_.target.id)
            if isinstance(n_, ast.For) and isinstance(n_.target, ast.Name) and isinstance(n_.iter, (ast.ListComp, ast.GeneratorExp)) and \
                    isinstance(n_.iter.elt, ast.Name) and n_.iter.elt.id in pos:
                pos.add(n_.target.id)              # the list of positions written in place
    rebound = {t_.id for n_ in ast.walk(fn_node) if isinstance(n_, ast.Assign) for t_ in n_.targets if isinstance(t_, ast.Name)}
    out = []
    for n_ in ast.walk(fn_node):
        if isinstance(n_, ast.Subscript) and isinstance(n_.value, ast.Name) and n_.value.id in params and n_.value.id not in rebound \
                and isinstance(n_.slice, ast.Name) and n_.slice.id in pos and isinstance(n_.ctx, ast.Load):
            out.append(n_)
    return out


def _positions(ctx):
    """R-C06-10: the per-element retry addresses the elements by position.  A position may subscript an array (np.asarray of the
    argument, a solver result) but not the argument itself: for a Series - what the binned law passes, labelled 1..N - `x[i]` is
    a label look-up and returns the neighbouring element's value (or raises)."""
    prog = ctx.prog
    ctx.rule("R-C06-10", floor=1, what="positions from enumerate() never subscript a possibly labelled argument directly")
    n = 0
    for ck in (EN, SB):
        ci = prog.cls(ck)
        for name, defs in ci.methods.items():
            fi = defs[-1]
            if not any(isinstance(c_, ast.Call) and call_name(c_) == "enumerate" for c_ in ast.walk(fi.node)):
                continue
            n += 1
            params = [q for q in fi.params if q != "self"]
            bad = _positional_subscripts_of_params(fi.node, params)
            for b_ in bad:
                ctx.violated(fi, b_, "%s.%s subscripts its argument %s with the position %s: for a Series argument (the binned law "
                             "passes one labelled 1..N) that is a label look-up - the retry then solves for a neighbouring element's "
                             "load" % (ci.name, name, b_.value.id, b_.slice.id), text="positional %s" % b_.value.id)
            if not bad:
                ctx.holds(fi, fi.node, "%s.%s: positions subscript arrays only" % (ci.name, name))
    ex = ast.parse("def f(self, res, load, x0):\n    bad = [i for i, ok in enumerate(res[1]) if not ok]\n    la = np.asarray(load)\n"
                   "    for i in bad:\n        a = la[i]\n        b = x0[i]\n        res[0][i] = a\n").body[0]
    if [norm_text(x_) for x_ in _positional_subscripts_of_params(ex, ["res", "load", "x0"])] != ["x0[i]"]:
        raise AnalysisError("R-C06-10 built-in example not matched")
    if n == 0:
        raise AnalysisError("no per-element loop found in the law classes")


RO_ATTR = "_ramberg_osgood_relation"
RO = "pylife.materiallaws.rambgood:RambergOsgood"


def _zero_load(ctx):
    """R-C06-9: zero is an admissible load (and load range): the laws are odd, so the answer there is zero.  The forward
    residuals handed to the solver must be defined at zero load: evaluated with the given load identically zero and the unknown
    stress arbitrary (zeroness domain, following the helper methods and the Ramberg-Osgood object), no division may have a divisor
    that vanishes identically.  Otherwise the residual is NaN, which scipy's array solver reports as converged: the entry comes
    back as NaN without any error (a scalar zero raises instead)."""
    from ..zeroness import Zeroness, Z, ANY
    prog = ctx.prog
    ctx.rule("R-C06-9", floor=4, what="forward residuals are defined at zero load (no divisor vanishing identically there)")
    roc = prog.cls(RO)
    for ck in (EN, SB):
        ci = prog.cls(ck)
        for mname in ("stress", "stress_secondary_branch"):
            f = _solver_method(prog, ci, mname)
            calls = _newton_calls(f)
            if len(calls) != 1:
                raise AnalysisError("%s.%s: expected one solver call" % (ci.name, mname))
            func = _kw(calls[0], "func", 0)
            res = prog.lookup_method(ci, func.attr) if is_self_attr(func) else None
            if res is None:
                raise AnalysisError("%s.%s: residual not found" % (ci.name, mname))
            zn = Zeroness(prog, nonzero_attrs={"_E", "_K", "_n", "_K_p", "E", "K", "n", "K_p"}, attr_classes={RO_ATTR: roc})
            zn.call(ci, res, [ANY, Z])
            seen = set()
            for fi2, node, text in zn.events:
                k = (fi2.key, norm_text(node))
                if k in seen:
                    continue
                seen.add(k)
                ctx.violated(res, res.node, "%s.%s (residual of %s): at zero load %s in %s: the residual is NaN there, the array "
                             "solver reports NaN entries as converged and %s returns NaN for a zero entry of the load array "
                             "(the law is odd: the answer is 0)" % (ci.name, res.name, mname, text, fi2.name, mname),
                             text="singular at zero load")
                break
            if not zn.events:
                ctx.holds(res, res.node, "%s.%s: no divisor vanishes identically at zero load" % (ci.name, res.name))


def _law_nf(prog, ci):
    """Symbolic evaluator for a law class: calls on the cached Ramberg-Osgood object are evaluated on the Ramberg-Osgood
    class with the law's E, K, n (wiring of the constructor arguments is checked by the caller)."""
    from ..symexec import MethodNF
    from ..nf import RF
    roci = prog.cls(RO)
    ro = MethodNF(prog)
    law = None

    def extra(fn, c, tr, ci_):
        f = c.func
        if isinstance(f, ast.Attribute) and is_self_attr(f.value, RO_ATTR):
            args = [tr.tr(a) for a in c.args]
            return ro.call(roci, f.attr, args)
        if fn in ("np.power", "numpy.power") and len(c.args) == 2:
            return tr.tr(c.args[0]).pow(tr.tr(c.args[1]))
        return None
    law = MethodNF(prog, extra_call=extra)
    a = law.attrs(ci)
    init = prog.lookup_method(roci, "__init__")
    rp = [p for p in init.params if p != "self"]
    # the Ramberg-Osgood object sees the law's E, K, n
    ro._attrs[roci.key] = {}
    ro._run_init(roci, init, {rp[0]: a["_E"], rp[1]: a["_K"], rp[2]: a["_n"]}, ro._attrs[roci.key])
    return law


def _derivatives(ctx):
    """R-C06-8: the fprime handed to Newton is the analytic derivative of func with respect to the unknown (normal forms,
    positive branch; the negative side follows from R-C06-5 parity and the pole-guard rule), the cached Ramberg-Osgood
    object is built from (E, K, n) in that order, and every where= mask guards exactly the pole of its quotient."""
    from ..nf import RF, derivative, NFUnsupported
    prog = ctx.prog
    ctx.rule("R-C06-8", floor=12, what="fprime == d func / d unknown; where= masks exclude exactly the pole; Ramberg-Osgood built from (E, K, n)")
    ci = prog.cls(EN)
    base = prog.cls("pylife.materiallaws.notch_approximation_law:NotchApproximationLawBase")
    # constructor wiring of the cached object
    n = 0
    for key, fi in prog.functions.items():
        if not (fi.cls is not None and fi.cls.key in (base.key, ci.key, prog.cls(SB).key)):
            continue
        for st in walk_function(fi.node):
            if isinstance(st, ast.Assign) and any(is_self_attr(t, RO_ATTR) for t in st.targets):
                v = st.value
                ok = isinstance(v, ast.Call) and (call_name(v) or "").endswith("RambergOsgood") and len(v.args) == 3 and \
                    [norm_text(a) for a in v.args] in (["self._E", "self._K", "self._n"], ["E", "K", "n"], ["self.E", "self.K", "self.n"])
                n += 1
                if ok:
                    ctx.holds(fi, st, "%s builds RambergOsgood(%s)" % (fi.name, ", ".join(norm_text(a) for a in v.args)))
                else:
                    ctx.violated(fi, st, "%s: the cached Ramberg-Osgood object is built from %s, expected (E, K, n) of the law"
                                 % (fi.name, norm_text(v)))
    if n == 0:
        raise AnalysisError("no construction of the Ramberg-Osgood object found")
    ex = _law_nf(prog, ci)
    x, y = RF.sym("x"), RF.sym("y")
    for meth in DIRS:
        f = prog.lookup_method(ci, meth)
        for c in _newton_calls(f):
            func, fp = _kw(c, "func", 0), _kw(c, "fprime", 2)
            if fp is None or not (is_self_attr(func) and is_self_attr(fp)):
                continue
            try:
                F = ex.call(ci, func.attr, [x, y])
                G = ex.call(ci, fp.attr, [x, y])
            except NFUnsupported as e:
                raise AnalysisError("%s / %s outside the normal-form fragment: %s" % (func.attr, fp.attr, e))
            want = derivative(F, "x")
            g = prog.lookup_method(ci, fp.attr)
            if G == want:
                ctx.holds(g, g.node, "%s == d %s / d %s (normal forms, positive branch)" % (fp.attr, func.attr,
                                                                                         prog.lookup_method(ci, func.attr).params[1]))
            else:
                ctx.violated(g, g.node, "%s is not the derivative of %s with respect to its unknown: got %r, d/dx gives %r; Newton "
                             "steps are wrong and the iteration stops away from the root" % (fp.attr, func.attr, G, want),
                             text="derivative " + fp.attr)
    # pole guards
    for cls in (ci, prog.cls(SB), base):
        for name, fs in cls.methods.items():
            f = fs[-1]
            for c in calls_in(f.node):
                fn = call_name(c) or ""
                w = next((k.value for k in c.keywords if k.arg == "where"), None)
                if w is None or fn not in ("np.divide", "np.power", "np.true_divide", "np.reciprocal"):
                    continue
                if fn == "np.power":
                    ev = const_value(c.args[1]) if len(c.args) > 1 else None
                    if isinstance(c.args[1], ast.UnaryOp) and isinstance(c.args[1].op, ast.USub):
                        ev = -const_value(c.args[1].operand) if const_value(c.args[1].operand) is not None else None
                    if ev is None or ev >= 0:
                        continue
                    den = c.args[0]
                else:
                    den = c.args[1] if fn != "np.reciprocal" else c.args[0]
                # temporaries: resolve locals that are defined once to their defining expression (two levels)
                ldefs = {}
                for s_ in walk_function(f.node):
                    if isinstance(s_, ast.Assign) and len(s_.targets) == 1 and isinstance(s_.targets[0], ast.Name):
                        ldefs.setdefault(s_.targets[0].id, []).append(s_.value)
                single = {k_: v_[0] for k_, v_ in ldefs.items() if len(v_) == 1 and k_ not in f.params}
                for _ in range(2):
                    den = subst_names(den, single)
                    w = subst_names(w, single)
                if isinstance(den, ast.BinOp) and isinstance(den.op, ast.Pow) and isinstance(const_value(den.right), (int, float)) \
                        and const_value(den.right) > 0:
                    den = den.left          # X**k vanishes exactly where X does
                from ..astutil import oriented
                if isinstance(w, ast.Compare) and len(w.ops) == 1 and const_value(w.left) == 0 and \
                        isinstance(w.ops[0], (ast.NotEq, ast.Eq)):
                    w = ast.Compare(left=w.comparators[0], ops=w.ops, comparators=[w.left])       # 0 != X  ->  X != 0
                exact = isinstance(w, ast.Compare) and len(w.ops) == 1 and isinstance(w.ops[0], ast.NotEq) and \
                    const_value(w.comparators[0]) == 0 and norm_text(w.left) == norm_text(den)
                ow = oriented(w) if isinstance(w, ast.Compare) and len(w.ops) == 1 else None       # X > 0 is written 0 < X
                # frozen exception, confirmed by reading: 1/cos(u) with u = pi/2*(...) confined to [0, pi/2): cos(u) > 0 on the
                # whole admissible domain, so `> 0` excludes only the pole and inadmissible arguments
                cos_ok = ow is not None and isinstance(ow.ops[0], ast.Lt) and const_value(ow.left) == 0 and \
                    norm_text(ow.comparators[0]) == norm_text(den) and isinstance(den, ast.Call) and call_name(den) == "np.cos"
                if exact:
                    ctx.holds(f, c, "%s: quotient by %s is masked exactly at its pole (%s)" % (f.name, norm_text(den), norm_text(w)))
                elif cos_ok:
                    ctx.holds(f, c, "%s: quotient by %s masked with %s (cosine positive on the admissible domain)" %
                              (f.name, norm_text(den), norm_text(w)))
                else:
                    ctx.violated(f, c, "%s: the mask %s of the quotient by %s excludes more than the pole (or not the pole): "
                                 "for the excluded arguments the value is the placeholder from out=, not the quotient, e.g. for "
                                 "negative arguments" % (f.name, norm_text(w), norm_text(den)), text="pole guard " + norm_text(w))


def _newton_calls(fi):
    return [c for c in calls_in(fi.node) if (call_name(c) or "").endswith("optimize.newton")]


def _solver_method(prog, ci, name):
    """the public method `name`; if its solver call lives in an extracted private helper, the method with that helper expanded"""
    f = prog.lookup_method(ci, name)
    if f is not None and not _newton_calls(f):
        from ..inline import inlined
        f2 = inlined(prog, f)
        if _newton_calls(f2):
            return f2
    return f


def _kw(c, name, pos=None):
    for k in c.keywords:
        if k.arg == name:
            return k.value
    if pos is not None and pos < len(c.args):
        return c.args[pos]
    return None


def _derives_from(fi, expr, name, depth=0, exclude=()):
    if name in names_in(expr):
        return True
    if depth > 3:
        return False
    for n in names_in(expr):
        if n in exclude:
            continue
        for s in walk_function(fi.node):
            if isinstance(s, ast.Assign) and any(isinstance(t, ast.Name) and t.id == n for t in s.targets):
                if _derives_from(fi, s.value, name, depth + 1, exclude):
                    return True
    return False


def _wiring(ctx):
    prog = ctx.prog
    ctx.rule("R-C06-1", floor=10, what="solver wiring: residual of the method's branch/direction, given quantity in args, start value, derivative")
    ctx.rule("R-C06-2", floor=10, what="public rtol/tol reach every solver call")
    for ck in (EN, SB):
        ci = prog.cls(ck)
        for mname, (unknown, given) in DIRS.items():
            f = _solver_method(prog, ci, mname)
            if f is None:
                raise AnalysisError("%s.%s missing" % (ci.name, mname))
            calls = _newton_calls(f)
            if len(calls) != 1:
                raise AnalysisError("%s.%s: expected one solver call, found %d" % (ci.name, mname, len(calls)))
            _check_call(ctx, prog, ci, f, calls[0], unknown, given, f.params[1])
        # the strain belonging to a stress is the Ramberg-Osgood strain (primary) / its Masing doubling (secondary)
        for mname, ro, arg in (("strain", "strain", "stress"), ("strain_secondary_branch", "delta_strain", "delta_stress")):
            f = _solver_method(prog, ci, mname)
            r = [s_ for s_ in f.node.body if isinstance(s_, ast.Return)][-1]
            v = r.value
            ok = isinstance(v, ast.Call) and isinstance(v.func, ast.Attribute) and v.func.attr == ro and \
                is_self_attr(v.func.value, "_ramberg_osgood_relation") and len(v.args) == 1 and norm_text(v.args[0]) == arg
            if not ok:
                # on the symbolic value: value-preserving conversions (astype, np.asarray, a private helper that does either)
                # are the identity
                from ..absint import Interp, TermDomain, term_alternatives
                try:
                    tv = Interp(prog, TermDomain(), follow=lambda c_: c_.name.startswith("_")).run(
                        f, [("p", q) for q in f.params if q != "self"])
                    want = ("m", ("self", "_ramberg_osgood_relation"), ro, (("p", arg),), ())
                    alts = term_alternatives(tv)
                    ok = bool(alts) and all(a_ == want for a_ in alts)
                except Exception:
                    ok = False
            if ok:
                ctx.holds(f, r, "%s.%s(%s, ...) = RambergOsgood.%s(%s)" % (ci.name, mname, arg, ro, arg), rule="R-C06-1")
            else:
                ctx.violated(f, r, "%s.%s does not return the Ramberg-Osgood %s of the given stress" % (ci.name, mname, ro),
                             rule="R-C06-1")
        # retry helpers
        for name, defs in ci.methods.items():
            f = defs[-1]
            if name in DIRS or not _newton_calls(f):
                continue
            for c in _newton_calls(f):
                func = _kw(c, "func", 0)
                if isinstance(func, ast.Name) and func.id in f.params:
                    # a generic wrapper around the solver (the residual is its parameter): analysed, expanded, at its call sites
                    sites = [g for n2, d2 in ci.methods.items() for g in [d2[-1]] if g is not f and any(
                        isinstance(cc.func, ast.Attribute) and cc.func.attr == name for cc in calls_in(g.node))]
                    if sites and all(g.name in DIRS or g.name.endswith("not_converged_values") for g in sites):
                        ctx.holds(f, c, "%s wraps the solver for %d caller(s); each is analysed with the wrapper expanded" %
                                  (name, len(sites)), rule="R-C06-1")
                        continue
                    raise AnalysisError("%s: solver wrapper with callers outside the public solve methods" % name)
                res = prog.lookup_method(ci, func.attr) if is_self_attr(func) else None
                if res is None:
                    ctx.violated(f, c, "retry helper solves an unknown residual %s" % norm_text(func), rule="R-C06-1")
                    continue
                unknown, given = [p for p in res.params if p != "self"]
                gparam = [p for p in f.params if p == given]
                if not gparam:
                    ctx.violated(f, c, "retry helper %s has no parameter for the given quantity %r of %s" % (name, given, res.name),
                                 rule="R-C06-1")
                    continue
                _check_call(ctx, prog, ci, f, c, unknown, given, given, retry=True)
                # the helper is called from the public method of the same branch with rtol/tol forwarded
                callers = [(g, cc) for n2, d2 in ci.methods.items() for g in [d2[-1]] for cc in calls_in(g.node)
                           if isinstance(cc.func, ast.Attribute) and is_self_attr(cc.func, name)]
                if not callers:
                    ctx.violated(f, f.node, "retry helper %s is never called" % name, rule="R-C06-1", text="unused " + name)
                for g, cc in callers:
                    want = DIRS.get(g.name)
                    if want and want == (unknown, given):
                        ctx.holds(g, cc, "%s.%s retries with the residual of its own branch (%s)" % (ci.name, g.name, res.name), rule="R-C06-1")
                    else:
                        ctx.violated(g, cc, "%s.%s retries non-converged entries with %s, the residual of another branch" %
                                     (ci.name, g.name, res.name), rule="R-C06-1")
                    names = [norm_text(a) for a in cc.args] + [norm_text(k.value) for k in cc.keywords]
                    if "rtol" in names and "tol" in names:
                        ctx.holds(g, cc, "%s.%s forwards rtol/tol to the retry helper" % (ci.name, g.name), rule="R-C06-2")
                    else:
                        ctx.violated(g, cc, "%s.%s does not forward rtol/tol to the retry helper" % (ci.name, g.name), rule="R-C06-2")


def _check_call(ctx, prog, ci, f, c, unknown, given, given_param, retry=False):
    func = _kw(c, "func", 0)
    res = prog.lookup_method(ci, func.attr) if is_self_attr(func) else None
    where = "%s.%s" % (ci.name, f.name)
    rp = None
    if res is None and isinstance(func, ast.Lambda) and isinstance(func.body, ast.Call) and is_self_attr(func.body.func) and \
            not func.body.keywords and len(func.args.args) == len(func.body.args) == 2 and \
            all(isinstance(a, ast.Name) for a in func.body.args):
        # `lambda load, stress: self._stress_implicit(stress, load)`: the forward residual with the roles swapped at the call site;
        # the lambda's parameters, named by the residual parameters they are bound to, are what the solver varies / is given
        res = prog.lookup_method(ci, func.body.func.attr)
        if res is not None:
            resp = [p for p in res.params if p != "self"]
            bound = {a.id: resp[i] for i, a in enumerate(func.body.args) if i < len(resp)}
            lam = [a.arg for a in func.args.args]
            if set(lam) == set(bound):
                rp = [bound[p] for p in lam]
    if res is None:
        ctx.violated(f, c, "%s: solver residual %s is not a method of the law" % (where, norm_text(func)), rule="R-C06-1")
        return
    if rp is None:
        rp = [p for p in res.params if p != "self"]
    args = _kw(c, "args", 3)
    x0 = _kw(c, "x0", 1)
    problems = []
    if rp != [unknown, given]:
        problems.append("residual %s(%s) does not solve for %s given %s" % (res.name, ", ".join(rp), unknown, given))
    x0names = set(names_in(x0)) - {given_param} if x0 is not None else set()
    x0names |= {n for n in list(x0names) for s_ in walk_function(f.node) if isinstance(s_, ast.Assign) and
                any(isinstance(t, ast.Name) and t.id == n for t in s_.targets) for n in names_in(s_.value) if n.startswith("x0")}
    if not (isinstance(args, (ast.List, ast.Tuple)) and len(args.elts) == 1 and
            _derives_from(f, args.elts[0], given_param, exclude=x0names | {"x0", "x0_array"})):
        problems.append("args=%s does not carry the given quantity %s" % (norm_text(args) if args is not None else None, given_param))
    if x0 is None or not (_derives_from(f, x0, given_param) or (retry and _derives_from(f, x0, "x0"))):
        problems.append("start value %s does not derive from the given quantity" % (norm_text(x0) if x0 is not None else None))
    fp = _kw(c, "fprime", 2)
    if fp is not None:
        d = prog.lookup_method(ci, fp.attr) if is_self_attr(fp) else None
        if d is None or [p for p in d.params if p != "self"] != rp or (res.name.strip("_") not in d.name and not isinstance(func, ast.Lambda)):
            problems.append("derivative %s does not belong to residual %s" % (norm_text(fp), res.name))
    if problems:
        ctx.violated(f, c, "%s: %s" % (where, "; ".join(problems)), rule="R-C06-1")
    else:
        ctx.holds(f, c, "%s: newton(%s, x0 from %s, args=[%s]%s)" % (where, res.name, given_param, given_param,
                                                                       ", fprime=%s" % fp.attr if fp is not None else ""), rule="R-C06-1")
    rt, tl = _kw(c, "rtol"), _kw(c, "tol")
    if isinstance(rt, ast.Name) and rt.id == "rtol" and isinstance(tl, ast.Name) and tl.id == "tol" and \
            "rtol" in f.params and "tol" in f.params:
        ctx.holds(f, c, "%s: rtol=rtol, tol=tol" % where, rule="R-C06-2")
    else:
        ctx.violated(f, c, "%s: solver call uses rtol=%s, tol=%s instead of the requested tolerances" %
                     (where, norm_text(rt) if rt is not None else "default", norm_text(tl) if tl is not None else "default"),
                     rule="R-C06-2")


def _inverse(ctx):
    prog = ctx.prog
    ctx.rule("R-C06-3", floor=4, what="backward residual = forward residual with roles swapped")
    for ck in (EN, SB):
        ci = prog.cls(ck)
        for back, fwd in (("_load_implicit", "_stress_implicit"), ("_load_secondary_implicit", "_stress_secondary_implicit")):
            f = prog.lookup_method(ci, back)
            g = prog.lookup_method(ci, fwd)
            if f is None and g is not None:
                # no wrapper method: the roles are swapped where the solver is called (`func=lambda L, s: self.<fwd>(s, L)`)
                direction = {"_load_implicit": "load", "_load_secondary_implicit": "load_secondary_branch"}[back]
                m_ = prog.lookup_method(ci, direction)
                gp_ = [p for p in g.params if p != "self"]
                lam = [n_ for n_ in ast.walk(m_.node) if isinstance(n_, ast.Lambda) and isinstance(n_.body, ast.Call) and
                       is_self_attr(n_.body.func, fwd)] if m_ is not None else []
                if lam and [a.arg for a in lam[0].args.args] == [norm_text(x) for x in reversed(lam[0].body.args)] and len(gp_) == 2:
                    ctx.holds(m_, lam[0], "%s.%s solves %s with the roles of the two quantities swapped at the call site" % (ci.name, direction, fwd))
                    continue
            if f is None or g is None:
                raise AnalysisError("%s: residual pair %s/%s missing" % (ci.name, back, fwd))
            r = [s for s in f.node.body if isinstance(s, ast.Return)]
            bp = [p for p in f.params if p != "self"]
            gp = [p for p in g.params if p != "self"]
            ok = r and isinstance(r[0].value, ast.Call) and is_self_attr(r[0].value.func, fwd) and \
                [norm_text(a) for a in r[0].value.args] == [bp[1], bp[0]] and bp == [gp[1], gp[0]]
            if ok:
                ctx.holds(f, r[0], "%s.%s(%s, %s) = %s(%s, %s)" % (ci.name, back, bp[0], bp[1], fwd, bp[1], bp[0]))
            else:
                ctx.violated(f, r[0] if r else f.node, "%s.%s is not %s with the roles of the two quantities swapped: the "
                             "backward function would not invert the forward one" % (ci.name, back, fwd))


def _convergence(ctx):
    prog = ctx.prog
    ctx.rule("R-C06-4", floor=4, what="converged flags are read; retry result written back only if it converged")
    ci = prog.cls(SB)
    for name, defs in ci.methods.items():
        f = defs[-1]
        for c in _newton_calls(f):
            fo = _kw(c, "full_output")
            if const_value(fo) is not True:
                continue
            st = c
            while not isinstance(st, ast.stmt):
                st = st._parent
            if isinstance(st, ast.Assign) and isinstance(st.targets[0], ast.Subscript) and isinstance(st.value, ast.Subscript) and \
                    st.value.value is c and const_value(st.value.slice) == 0 and name not in DIRS:
                # <array>[i] = newton(..., full_output=True)[0]: the root is stored, the convergence record never looked at
                ctx.violated(f, st, "%s writes a retry result back without checking that the retry converged" % name)
                continue
            if not (isinstance(st, ast.Assign) and isinstance(st.targets[0], ast.Name)):
                raise AnalysisError("%s.%s: full_output result not bound to a name" % (ci.name, name))
            var = st.targets[0].id
            if name in DIRS:
                tests = [s for s in f.node.body if isinstance(s, ast.If) and any(
                    isinstance(n, ast.Subscript) and isinstance(n.value, ast.Name) and n.value.id == var and const_value(n.slice) == 1
                    for n in ast.walk(s.test))]
                retry = [cc for s in tests for cc in calls_in(s) if isinstance(cc.func, ast.Attribute) and "not_converged" in cc.func.attr]
                ret = [s for s in f.node.body if isinstance(s, ast.Return)][-1]
                ok = tests and retry and isinstance(ret.value, ast.Subscript) and const_value(ret.value.slice) == 0 and \
                    isinstance(ret.value.value, ast.Name) and ret.value.value.id == var
                quant = _retry_quantifier(tests[0].test, var) if ok else None
                if ok and quant == "none-converged":
                    ctx.violated(f, tests[0], "%s retries only when NO entry converged (%s): an array in which some entries failed is returned "
                                 "with their raw, possibly diverged iterates" % (name, norm_text(tests[0].test)[:60]),
                                 text="retry only if nothing converged in " + name)
                elif ok:
                    ctx.holds(f, tests[0], "%s: converged flags inspected, non-converged entries retried, root array returned" % name)
                elif _flags_consumed_otherwise(f, var):
                    # the same consumption written with unpacked locals and an early return when everything converged
                    ctx.holds(f, st, "%s: converged flags inspected (through a local), non-converged entries retried" % name)
                else:
                    ctx.violated(f, st, "%s requests full_output but does not inspect the converged flags and retry" % name)
            else:
                guards = [s for s in walk_function(f.node) if isinstance(s, ast.If) and norm_text(s.test) == "%s[1].converged" % var]
                wb = [s for g in guards for s in g.body if isinstance(s, ast.Assign) and isinstance(s.targets[0], ast.Subscript)]
                allwb = [s for s in walk_function(f.node) if isinstance(s, ast.Assign) and isinstance(s.targets[0], ast.Subscript)
                         and norm_text(s.value) == "%s[0]" % var]
                if guards and wb and len(allwb) == len(wb):
                    ctx.holds(f, guards[0], "%s: retry result written back only under its converged test" % name)
                else:
                    ctx.violated(f, st, "%s writes a retry result back without checking that the retry converged" % name)


def identity_helpers(prog, module):
    """names of the module-level private functions of `module` that return their first argument up to a value-preserving
    conversion (astype, np.asarray, float): decided on the symbolic value"""
    cache = prog.__dict__.setdefault("_identity_helpers", {})
    if module.name in cache:
        return cache[module.name]
    from ..absint import Interp, TermDomain, term_alternatives
    out = set()
    for key, fi in prog.functions.items():
        if fi.module is module and fi.cls is None and fi.parent is None and fi.name.startswith("_") and fi.params:
            try:
                tv = Interp(prog, TermDomain(), follow=lambda c_: False).run(fi, [("p", q) for q in fi.params])
                alts = term_alternatives(tv)
                if alts and all(a_ == ("p", fi.params[0]) for a_ in alts):
                    out.add(fi.name)
            except Exception:
                pass
    cache[module.name] = out
    return out


def strip_identity_conversions(prog, fi, body):
    """the statement list without value-preserving re-bindings of a name:  x = x.astype(float) / x = np.asarray(x) /
    x = _ident(x)  and  `if not isinstance(x, float): <such a re-binding>`"""
    idents = identity_helpers(prog, fi.module)

    def rebinding(st):
        if isinstance(st, ast.Assign) and len(st.targets) == 1 and isinstance(st.targets[0], ast.Name):
            x, v = st.targets[0].id, st.value
            if isinstance(v, ast.Call) and isinstance(v.func, ast.Attribute) and v.func.attr == "astype" and \
                    isinstance(v.func.value, ast.Name) and v.func.value.id == x:
                return True
            if isinstance(v, ast.Call) and isinstance(v.func, ast.Name) and (v.func.id in idents or v.func.id == "float") and \
                    len(v.args) == 1 and isinstance(v.args[0], ast.Name) and v.args[0].id == x:
                return True
            if isinstance(v, ast.Call) and call_name(v) in ("np.asarray", "np.asanyarray") and v.args and \
                    isinstance(v.args[0], ast.Name) and v.args[0].id == x:
                return True
        return False
    out = []
    for st in body:
        if rebinding(st):
            continue
        if isinstance(st, ast.If) and not st.orelse and all(rebinding(x) for x in st.body) and \
                any(isinstance(c_, ast.Call) and call_name(c_) == "isinstance" for c_ in ast.walk(st.test)):
            continue
        out.append(st)
    return out


def _res_parity(prog, ci, name, known, depth=0):
    if name in known:
        return known[name]
    f = prog.lookup_method(ci, name)
    if f is None or depth > 5:
        return None
    params = [p for p in f.params if p != "self"]
    env = {p: "odd" for p in params}
    meths = {}
    env["@methods"] = meths
    res = None

    def par(e):
        # extend the syntactic typing with the idioms of this module
        if isinstance(e, ast.Call):
            fn = call_name(e) or ""
            if fn == "np.divide" and len(e.args) >= 2:
                a, b = par(e.args[0]), par(e.args[1])
                if a is None or b is None:
                    return None
                return "even" if a == b else "odd"
            if fn in ("np.abs", "np.fabs", "abs"):
                a = par(e.args[0])
                return "even" if a in ("odd", "even") else a
            if fn in ("np.log", "np.cos", "np.power", "np.ones_like"):
                a = par(e.args[0])
                return "even" if a == "even" or fn == "np.ones_like" else (None if fn != "np.cos" else "even")
            if isinstance(e.func, ast.Attribute) and e.func.attr == "astype":
                return par(e.func.value)
            if isinstance(e.func, ast.Name) and e.func.id in identity_helpers(prog, f.module) and e.args:
                return par(e.args[0])               # a private conversion helper: the identity
            if isinstance(e.func, ast.Attribute) and isinstance(e.func.value, ast.Attribute) and \
                    is_self_attr(e.func.value, "_ramberg_osgood_relation"):
                a = par(e.args[0]) if e.args else None
                if e.func.attr in ("strain", "delta_strain"):
                    return a
                if e.func.attr == "tangential_compliance":
                    return "even" if a in ("odd", "even") else None
            if isinstance(e.func, ast.Attribute) and is_self_attr(e.func):
                inner = _res_parity(prog, ci, e.func.attr, known, depth + 1)
                args = [par(a) for a in e.args]
                if inner is None or any(a is None for a in args):
                    return None
                if all(a == "even" for a in args):
                    return "even"
                return inner
            return None
        if isinstance(e, ast.Name):
            return env.get(e.id, "even")
        if isinstance(e, ast.Constant) or is_self_attr(e) or (isinstance(e, ast.Attribute) and norm_text(e) == "np.pi"):
            return "even"
        if isinstance(e, ast.UnaryOp):
            return par(e.operand)
        if isinstance(e, ast.BinOp):
            l, r = par(e.left), par(e.right)
            if l is None or r is None:
                return None
            if isinstance(e.op, (ast.Add, ast.Sub)):
                if l == r:
                    return l
                # odd +- even: definitely neither odd nor even
                return "mixed" if {l, r} == {"odd", "even"} else ("mixed" if "mixed" in (l, r) else None)
            if isinstance(e.op, (ast.Mult, ast.Div)):
                if "mixed" in (l, r):
                    return "mixed"
                return "even" if l == r else "odd"
            if isinstance(e.op, ast.Pow):
                c = const_value(e.right)
                if l == "mixed":
                    return "mixed"
                if isinstance(c, int):
                    return "even" if c % 2 == 0 or l == "even" else "odd"
                return "even" if l == "even" else None
        return None
    for s in f.node.body:
        if isinstance(s, ast.Assign) and isinstance(s.targets[0], ast.Name):
            env[s.targets[0].id] = par(s.value)
        elif isinstance(s, ast.If):
            for x in s.body:
                if isinstance(x, ast.Assign) and isinstance(x.targets[0], ast.Name):
                    p = par(x.value)
                    if p != env.get(x.targets[0].id):
                        env[x.targets[0].id] = None
        elif isinstance(s, ast.Return):
            res = par(s.value)
    known[name] = res
    return res


def _parity_rule(ctx):
    prog = ctx.prog
    ctx.rule("R-C06-5", floor=8, what="residual parity under (stress, load) -> (-stress, -load); start value odd")
    for ck in (EN, SB):
        ci = prog.cls(ck)
        known = {}
        for name in ("_stress_implicit", "_stress_secondary_implicit"):
            p = _res_parity(prog, ci, name, known)
            f = prog.lookup_method(ci, name)
            if p in ("odd", "even"):       # either parity makes the root set mirror-symmetric (difference or quotient form)
                ctx.holds(f, f.node, "%s.%s is %s: roots come in mirror pairs" % (ci.name, name, p))
            elif p is None:
                raise AnalysisError("%s.%s: parity not derivable" % (ci.name, name))
            else:
                ctx.violated(f, f.node, "%s.%s is %s under simultaneous negation of stress and load (neither odd nor even): a sign or "
                             "an abs() was dropped and the law is no longer odd" % (ci.name, name, p), text="%s parity %s" % (name, p))
        for mname, (unknown, given) in DIRS.items():
            f = _solver_method(prog, ci, mname)
            c = _newton_calls(f)[0]
            x0 = _kw(c, "x0", 1)
            gp = f.params[1]
            env = {gp: "odd"}
            e = x0
            if isinstance(x0, ast.Name) and x0.id != gp:
                d = [s for s in f.node.body if isinstance(s, ast.Assign) and isinstance(s.targets[0], ast.Name) and s.targets[0].id == x0.id]
                e = d[0].value if d else x0
            p = _parity(e, gp, {})
            if p == "odd":
                ctx.holds(f, c, "%s.%s: start value is odd in the given quantity" % (ci.name, mname))
            else:
                ctx.violated(f, c, "%s.%s: start value %s is not odd in the given quantity" % (ci.name, mname, norm_text(e)))
            # the given quantity keeps its sign on its way to the solver and to the result: a re-binding of the parameter must
            # be an odd function of it (np.asarray, astype, a copy) - after `x = np.abs(x)` the sign is gone for everything below
            f0 = prog.lookup_method(ci, mname) or f
            for st in walk_function(f0.node):
                if isinstance(st, ast.Assign) and any(isinstance(t, ast.Name) and t.id == gp for t in st.targets):
                    pr = _parity(st.value, gp, {})
                    if pr == "odd":
                        ctx.holds(f0, st, "%s.%s: %s keeps the sign of the given quantity" % (ci.name, mname, norm_text(st)[:50]))
                    elif pr == "even":
                        ctx.violated(f0, st, "%s.%s: %s replaces the given quantity by an even function of itself: everything "
                                     "computed from it afterwards - the sign of the result included - no longer knows its sign, the "
                                     "law is not odd" % (ci.name, mname, norm_text(st)[:60]), text="%s given quantity made even" % mname)


def _cache(ctx):
    prog = ctx.prog
    ctx.rule("R-C06-6", floor=2, what="writes to E/K/n outside __init__ are followed by a rebuild of the cached Ramberg-Osgood object")
    bases = [ci for ci in prog.classes.values() if ci.name == "NotchApproximationLawBase"]
    if len(bases) < 1:
        raise AnalysisError("NotchApproximationLawBase not found")
    n = 0
    for ci in bases + prog.subclasses(bases[0].key) + (prog.subclasses(bases[1].key) if len(bases) > 1 else []):
        for name, defs in ci.methods.items():
            for f in defs:
                if f.name == "__init__":
                    continue
                writes = [s for s in walk_function(f.node) if isinstance(s, (ast.Assign, ast.AugAssign)) and
                          any(is_self_attr(t) and t.attr in ("_E", "_K", "_n") for t in (s.targets if isinstance(s, ast.Assign) else [s.target]))]
                if not writes:
                    continue
                cfg = CFG(f.node)
                rebuild = {cfg.node(s) for s in walk_function(f.node) if isinstance(s, ast.Assign) and
                           any(is_self_attr(t, "_ramberg_osgood_relation") for t in s.targets) and
                           isinstance(s.value, ast.Call) and (call_name(s.value) or "").endswith("RambergOsgood")}
                for w in writes:
                    n += 1
                    if rebuild and cfg.must_pass(cfg.exit, rebuild, start=cfg.node(w)):
                        rb = [cfg.stmt[x] for x in rebuild][0]
                        args = [norm_text(a) for a in rb.value.args]
                        if args == ["self._E", "self._K", "self._n"]:
                            ctx.holds(f, w, "%s.%s: %s followed by RambergOsgood(self._E, self._K, self._n)" % (ci.name, f.name, norm_text(w)))
                        else:
                            ctx.violated(f, rb, "%s.%s rebuilds the Ramberg-Osgood object from %s, not from the current E, K, n" %
                                         (ci.name, f.name, args))
                    else:
                        ctx.violated(f, w, "%s.%s changes %s but a path returns without rebuilding the cached Ramberg-Osgood "
                                     "object: strains keep using the old parameter" % (ci.name, f.name, norm_text(w.targets[0] if isinstance(w, ast.Assign) else w.target)))
    # the K setter must reach the rebuilding setter
    for ci in bases:
        ks = [f for f in ci.methods.get("K", []) if f.is_setter()]
        if ks:
            f = ks[-1]
            st = [s for s in f.node.body if isinstance(s, ast.Assign)]
            ok = st and is_self_attr(st[0].targets[0]) and st[0].targets[0].attr in ("K_prime",) and isinstance(st[0].value, ast.Name)
            direct = any(is_self_attr(t, "_K") for s in st for t in s.targets)
            if ok or direct:
                ctx.holds(f, f.node, "%s.K setter goes through the rebuilding setter" % ci.name)
            else:
                ctx.violated(f, f.node, "%s.K setter neither sets _K with a rebuild nor delegates to the rebuilding setter" % ci.name)


def _flags_consumed_otherwise(f, var):
    """`values, converged = r[0], r[1]` (or separate assignments); a test on `converged` that is not of the none-converged form;
    a call of the retry helper that receives the flags; every return yields the root array (values / r[0]) or element 0 of the
    retry helper's result"""
    flag_names, val_names = set(), set()
    for st in walk_function(f.node):
        if isinstance(st, ast.Assign):
            from ..astutil import tuple_assign_pairs
            for t, v in tuple_assign_pairs(st):
                if isinstance(t, ast.Name) and isinstance(v, ast.Subscript) and isinstance(v.value, ast.Name) and v.value.id == var:
                    if const_value(v.slice) == 1:
                        flag_names.add(t.id)
                    elif const_value(v.slice) == 0:
                        val_names.add(t.id)
    if not flag_names:
        return False
    tests = [s_ for s_ in walk_function(f.node) if isinstance(s_, ast.If) and any(isinstance(n_, ast.Name) and n_.id in flag_names for n_ in ast.walk(s_.test))]
    if not tests:
        return False
    for t_ in tests:
        tt = t_.test
        neg = False
        while isinstance(tt, ast.UnaryOp) and isinstance(tt.op, ast.Not):
            tt, neg = tt.operand, not neg
        if isinstance(tt, ast.Call) and ((call_name(tt) or "") in ("np.any", "any") or (isinstance(tt.func, ast.Attribute) and tt.func.attr == "any")) and neg:
            return False                  # `not any(converged)`: retry only if nothing converged
    retry = [c for c in calls_in(f.node) if isinstance(c.func, ast.Attribute) and "not_converged" in c.func.attr and
             any(isinstance(n_, ast.Name) and (n_.id in flag_names or n_.id == var) for a_ in c.args for n_ in ast.walk(a_))]
    if not retry:
        return False
    for r in [s_ for s_ in walk_function(f.node) if isinstance(s_, ast.Return) and s_.value is not None]:
        v = r.value
        if isinstance(v, ast.Name) and v.id in val_names:
            continue
        if isinstance(v, ast.Subscript) and const_value(v.slice) == 0:
            continue
        return False
    return True


def _retry_quantifier(test, var):
    """'some-failed' for tests equivalent to `not all(converged)` (sum(c) < len(c), not np.all(c), (~c).any(), ...),
    'none-converged' for `not any(converged)` forms, None if not recognised (left to the other clauses)"""
    t, neg = test, False
    while isinstance(t, ast.UnaryOp) and isinstance(t.op, ast.Not):
        t, neg = t.operand, not neg

    def flags(e):
        return isinstance(e, ast.Subscript) and isinstance(e.value, ast.Name) and e.value.id == var and const_value(e.slice) == 1
    if isinstance(t, ast.Call):
        cn = call_name(t) or ""
        arg = t.args[0] if t.args else (t.func.value if isinstance(t.func, ast.Attribute) else None)
        inv = isinstance(arg, ast.UnaryOp) and isinstance(arg.op, ast.Invert)
        base = arg.operand if inv else arg
        if base is not None and flags(base):
            kind = "any" if cn in ("np.any", "any") or (isinstance(t.func, ast.Attribute) and t.func.attr == "any") else \
                ("all" if cn in ("np.all", "all") or (isinstance(t.func, ast.Attribute) and t.func.attr == "all") else None)
            if kind == "any" and not inv:
                return "none-converged" if neg else None
            if kind == "all" and not inv and neg:
                return "some-failed"
            if kind == "any" and inv and not neg:
                return "some-failed"
    if isinstance(t, ast.Compare) and len(t.ops) == 1 and isinstance(t.ops[0], (ast.Lt, ast.NotEq)) and not neg:
        return "some-failed"
    return None


def _same_closed_form(prog, a, b):
    """both methods have one return whose value - private helpers inlined, locals replaced by their closed forms (conditional
    re-bindings as conditional expressions), parameters named by position - is the same expression"""
    from ..inline import inlined
    from ..astutil import subst_names

    def closed(fi):
        fi = inlined(prog, fi)
        rets = [r for r in walk_function(fi.node) if isinstance(r, ast.Return) and r.value is not None]
        if len(rets) != 1:
            return None
        try:
            env = inline_env(CFG(fi.node), rets[0])
        except AnalysisError:
            return None
        if env.pop("__ambiguous__", None):
            return None
        e = subst_names(rets[0].value, env)
        ren = {p: ast.Name(id="_p%d" % i, ctx=ast.Load()) for i, p in enumerate(q for q in fi.params if q != "self")}
        return norm_text(subst_names(e, ren))
    ca, cb = closed(a), closed(b)
    return ca is not None and ca == cb


def _siblings(ctx):
    prog = ctx.prog
    ctx.rule("R-C06-7", floor=14, what="duplicated helpers agree across classes; secondary helpers = primary under the Masing substitution")
    en, sb = prog.cls(EN), prog.cls(SB)
    for name in ("_e_star", "_delta_e_star", "_neuber_strain", "_neuber_strain_secondary"):
        a, b = prog.lookup_method(en, name), prog.lookup_method(sb, name)
        if a is None or b is None:
            raise AnalysisError("helper %s missing in one law class" % name)
        d, na, nb = diff_blocks(strip_identity_conversions(prog, a, a.node.body), strip_identity_conversions(prog, b, b.node.body))
        if d and _same_closed_form(prog, a, b):
            d = []                           # one class computes it through an extracted private helper / other temporaries
        if not d and norm_text(a.node.args) == norm_text(b.node.args):
            ctx.holds(b, b.node, "%s identical in ExtendedNeuber and SeegerBeste (%d statements)" % (name, na))
        else:
            tag, ta, sa, tb, sb_ = d[0] if d else ("replace", [norm_text(a.node.args)], None, [norm_text(b.node.args)], None)
            ctx.violated(b, sb_ or b.node, "%s differs between the two law classes: %s  vs  %s" %
                         (name, " ; ".join(ta) or "(nothing)", " ; ".join(tb) or "(nothing)"), text="cross-class " + name)
    # the pairs come from the classes themselves: a private method whose name carries the range marker ("secondary" / "delta")
    # is the secondary-branch sibling of the method with the marker removed
    def primary_of(name):
        for cand in (name.replace("_secondary", "", 1), name.replace("delta_", "", 1)):
            if cand != name:
                yield cand
    pairs = {}
    for ck in (EN, SB):
        ci = prog.cls(ck)
        own = prog.methods_of(ci)
        ps = []
        for s_name in sorted(own):
            if not s_name.startswith("_") or s_name.startswith("__") or s_name.startswith("_d_"):
                continue
            for p_name in primary_of(s_name):
                if p_name in own and p_name.startswith("_"):
                    ps.append((p_name, s_name))
                    break
        pairs[ck] = ps
    if len(pairs[EN]) < 4 or len(pairs[SB]) < 6:
        raise AnalysisError("primary / secondary helper pairs not found (%d in ExtendedNeuber, %d in SeegerBeste)" %
                            (len(pairs[EN]), len(pairs[SB])))
    for ck, ps in pairs.items():
        ci = prog.cls(ck)
        helper_map = {"strain": "delta_strain"}                 # the Ramberg-Osgood relation's own primary / range pair
        helper_map.update(dict(ps))
        for p, s in ps:
            a, b = prog.lookup_method(ci, p), prog.lookup_method(ci, s)
            if a is None or b is None:
                raise AnalysisError("%s: helper pair %s/%s missing" % (ci.name, p, s))
            sub = dict(helper_map)
            if len(a.params) == len(b.params):
                sub.update({x: y for x, y in zip(a.params, b.params) if x != y})
            d, na, nb = diff_blocks(strip_identity_conversions(prog, a, a.node.body), strip_identity_conversions(prog, b, b.node.body), mapping=sub)
            pa = [sub.get(x, x) for x in a.params]
            if not d and pa == b.params:
                ctx.holds(b, b.node, "%s.%s == %s under the Masing substitution" % (ci.name, s, p))
            else:
                tag, ta, sa, tb, sb_ = d[0] if d else ("replace", [str(pa)], None, [str(b.params)], None)
                ctx.violated(b, sb_ or b.node, "%s.%s is not %s under strain->delta_strain etc.: %s  vs  %s" %
                             (ci.name, s, p, " ; ".join(ta) or "(nothing)", " ; ".join(tb) or "(nothing)"), text="%s vs %s" % (s, p))
    bases = [ci for ci in prog.classes.values() if ci.name == "NotchApproximationLawBase"]
    if len(bases) == 2:
        # member by member: what both copies define must agree; a member only one copy has (helpers pulled up into the copy the
        # laws derive from) is not a disagreement
        def members(ci_):
            return {st_.name: st_ for st_ in ci_.node.body if isinstance(st_, (ast.FunctionDef, ast.AsyncFunctionDef))}
        m0, m1 = members(bases[0]), members(bases[1])
        common = sorted(set(m0) & set(m1))
        if not common:
            raise AnalysisError("the two copies of NotchApproximationLawBase share no member")
        bad = None
        for nm in common:
            d, na, nb = diff_blocks(m0[nm].body, m1[nm].body)
            if d or norm_text(m0[nm].args) != norm_text(m1[nm].args) or \
                    [norm_text(x_) for x_ in m0[nm].decorator_list] != [norm_text(x_) for x_ in m1[nm].decorator_list]:
                bad = bad or (nm, d)
        if bad is None:
            ctx.holds(bases[1].key, None, "the two copies of NotchApproximationLawBase agree on their %d common members" % len(common))
        else:
            nm, d = bad
            tag, ta, sa, tb, sb_ = d[0] if d else ("replace", ["signature"], None, ["signature"], None)
            ctx.violated(bases[1].key, None, "the two copies of NotchApproximationLawBase differ in %s: %s  vs  %s" %
                         (nm, " ; ".join(ta) or "(nothing)", " ; ".join(tb) or "(nothing)"), text="base class copies")


# =========================================================================== variants

NP = "src/pylife/materiallaws/notch_approximation_law.py"
SP = "src/pylife/materiallaws/notch_approximation_law_seegerbeste.py"


def variants():
    out = []

    def sb_difference(name, expr):
        def f_(tree):
            f = find_func(tree, "SeegerBeste." + name)
            f.body[-1].value = parse_expr(expr)
            return True
        return f_
    def sb_both(tree):
        return sb_difference("_stress_implicit", "self._ramberg_osgood_relation.strain(stress) - self._middle_term(stress, load) * "
                             "self._neuber_strain(stress, load)")(tree) and \
            sb_difference("_stress_secondary_implicit", "self._ramberg_osgood_relation.delta_strain(delta_stress) - "
                          "self._middle_term_secondary(delta_stress, delta_load) * "
                          "self._neuber_strain_secondary(delta_stress, delta_load)")(tree)
    out.append(repair("both Seeger-Beste residuals as differences (regular at zero load)", SP, sb_both, "R-C06-9"))

    def en_quotient(tree):
        f = find_func(tree, "ExtendedNeuber._stress_implicit")
        f.body[-1].value = parse_expr("self._ramberg_osgood_relation.strain(stress) / self._neuber_strain(stress, load) - 1")
        return True
    out.append(witness("extended Neuber residual as a quotient by the Neuber strain", NP, en_quotient, "R-C06-9"))


    def mask_positive_only(tree):
        f = find_func(tree, "ExtendedNeuber._d_stress_implicit")
        for c in calls_in(f):
            for k in c.keywords:
                if k.arg == "where":
                    k.value.ops = [ast.Gt()]
                    return True
        return False
    out.append(witness("derivative masks the pole term for stress > 0 only", NP, mask_positive_only, "R-C06-8"))

    def elastic_twice(tree):
        f = find_func(tree, "ExtendedNeuber._d_e_star")
        r = [x for x in f.body if isinstance(x, ast.Return)][0]
        r.value = parse_expr("1/(self.K_p * self.E) + " + ast.unparse(r.value))
        return True
    out.append(witness("d e_star counts the elastic compliance twice", NP, elastic_twice, "R-C06-8"))

    def d_sec_half(tree):
        f = find_func(tree, "ExtendedNeuber._d_stress_secondary_implicit")
        for c in calls_in(f):
            if isinstance(c.func, ast.Attribute) and c.func.attr == "tangential_compliance":
                c.args[0] = parse_expr("delta_stress")
                return True
        return False
    out.append(witness("secondary derivative evaluates the compliance at the full range", NP, d_sec_half, "R-C06-8"))

    def ro_args_swapped(tree):
        f = find_func(tree, "NotchApproximationLawBase.__init__")
        for c in calls_in(f):
            if (call_name(c) or "").endswith("RambergOsgood"):
                c.args = [c.args[0], c.args[2], c.args[1]]
                return True
        return False
    out.append(witness("Ramberg-Osgood object built from (E, n, K)", NP, ro_args_swapped, "R-C06-8"))

    def d_e_star_factored(tree):
        f = find_func(tree, "ExtendedNeuber._d_e_star")
        r = [x for x in f.body if isinstance(x, ast.Return)][0]
        r.value = parse_expr("(1/self.K_p) * self._ramberg_osgood_relation.tangential_compliance(load/self.K_p)")
        return True
    out.append(twin("d e_star written as (1/K_p) * compliance", NP, d_e_star_factored))

    def d_stress_div(tree):
        f = find_func(tree, "ExtendedNeuber._d_stress_implicit")
        r = [x for x in f.body if isinstance(x, ast.Return)][0]
        r.value = parse_expr("self._ramberg_osgood_relation.tangential_compliance(stress) + load * self._K_p * e_star "
                             "* np.power(stress, -2, out=np.ones_like(stress), where=stress!=0)")
        return True
    out.append(twin("d stress residual with the sign folded", NP, d_stress_div))

    def wrong_res(tree):
        f = find_func(tree, "ExtendedNeuber.stress_secondary_branch")
        for c in calls_in(f):
            for k in c.keywords:
                if k.arg == "func":
                    k.value = parse_expr("self._stress_implicit")
                    return True
        return False
    out.append(witness("secondary branch solves the primary residual", NP, wrong_res, "R-C06-1"))

    def wrong_fprime(tree):
        f = find_func(tree, "ExtendedNeuber.load")
        for c in calls_in(f):
            for k in c.keywords:
                if k.arg == "fprime":
                    k.value = parse_expr("self._d_stress_implicit")
                    return True
        return False
    out.append(witness("load() uses the derivative of the stress residual", NP, wrong_fprime, "R-C06-1"))

    def args_x0(tree):
        f = find_func(tree, "SeegerBeste.stress")
        for c in calls_in(f):
            for k in c.keywords:
                if k.arg == "args":
                    k.value = parse_expr("[x0]")
                    return True
        return False
    out.append(witness("args carries the start value instead of the load", SP, args_x0, "R-C06-1"))

    def retry_other(tree):
        f = find_func(tree, "SeegerBeste._stress_secondary_fix_not_converged_values")
        for c in calls_in(f):
            for k in c.keywords:
                if k.arg == "func":
                    k.value = parse_expr("self._stress_implicit")
                    return True
        return False
    out.append(witness("secondary retry solves the primary residual", SP, retry_other, "R-C06-1"))

    def no_tol(tree):
        f = find_func(tree, "SeegerBeste._stress_fix_not_converged_values")
        for c in calls_in(f):
            if any(k.arg == "tol" for k in c.keywords):
                c.keywords = [k for k in c.keywords if k.arg != "tol"]
                return True
        return False
    out.append(witness("retry helper calls newton without tol", SP, no_tol, "R-C06-2"))

    def const_tol(tree):
        f = find_func(tree, "ExtendedNeuber.load_secondary_branch")
        for c in calls_in(f):
            for k in c.keywords:
                if k.arg == "rtol":
                    k.value = ast.Constant(1e-4)
                    return True
        return False
    out.append(witness("hard-coded rtol", NP, const_tol, "R-C06-2"))

    def sec_inverse(tree):
        f = find_func(tree, "ExtendedNeuber._load_secondary_implicit")
        f.body[-1].value.func.attr = "_stress_implicit"
        return True
    out.append(witness("_load_secondary_implicit delegates to the primary residual", NP, sec_inverse, "R-C06-3"))

    def not_swapped(tree):
        f = find_func(tree, "SeegerBeste._load_implicit")
        f.body[-1].value.args.reverse()
        return True
    out.append(witness("_load_implicit without swapping roles", SP, not_swapped, "R-C06-3"))

    def no_conv_check(tree):
        f = find_func(tree, "SeegerBeste._stress_fix_not_converged_values")
        for s in ast.walk(f):
            if isinstance(s, ast.For) and isinstance(s.target, ast.Name) and s.target.id == "index_diverged":
                g = [x for x in s.body if isinstance(x, ast.If)][0]
                s.body[s.body.index(g):s.body.index(g) + 1] = g.body
                return True
        return False
    out.append(witness("retry result written back unconditionally", SP, no_conv_check, "R-C06-4"))

    def flags_ignored(tree):
        f = find_func(tree, "SeegerBeste.stress_secondary_branch")
        f.body = [s for s in f.body if not isinstance(s, ast.If)]
        return True
    out.append(witness("converged flags ignored", SP, flags_ignored, "R-C06-4"))

    def parity_break(tree):
        f = find_func(tree, "ExtendedNeuber._stress_implicit")
        f.body[-1].value = parse_expr("self._ramberg_osgood_relation.strain(stress) - np.abs(self._neuber_strain(stress, load))")
        return True
    out.append(witness("abs() around the Neuber strain", NP, parity_break, "R-C06-5"))

    def x0_shift(tree):
        f = find_func(tree, "SeegerBeste.load")
        for s in f.body:
            if isinstance(s, ast.Assign) and isinstance(s.targets[0], ast.Name) and s.targets[0].id == "x0":
                s.value = parse_expr("stress + 1.0")
                return True
        return False
    out.append(witness("start value stress + 1", SP, x0_shift, "R-C06-5"))

    def no_rebuild(tree):
        for n in ast.walk(tree):
            if isinstance(n, ast.FunctionDef) and n.name == "K_prime":
                n.body = [s for s in n.body if not (isinstance(s, ast.Assign) and is_self_attr(s.targets[0], "_ramberg_osgood_relation"))]
                return True
        return False
    out.append(witness("K setter stops rebuilding the Ramberg-Osgood object", NP, no_rebuild, "R-C06-6"))

    def helper_diverges(tree):
        f = find_func(tree, "SeegerBeste._e_star")
        f.body[0].value = parse_expr("load / (self._K_p + 0.0)")
        f.body[0].value = parse_expr("load * self._K_p")
        return True
    out.append(witness("Seeger-Beste _e_star multiplies by K_p", SP, helper_diverges, "R-C06-7"))

    def masing_missing(tree):
        f = find_func(tree, "ExtendedNeuber._delta_e_star")
        f.body[-1].value.func.attr = "strain"
        return True
    out.append(witness("_delta_e_star uses strain instead of delta_strain", NP, masing_missing, "R-C06-7"))

    def u_term(tree):
        f = find_func(tree, "SeegerBeste._u_term_secondary")
        f.body[-1].value = parse_expr("np.pi / 2 * ((factor - 1) / (self._K_p + 1))")
        return True
    out.append(witness("_u_term_secondary with K_p + 1", SP, u_term, "R-C06-7"))

    # twins
    def rename_local(tree):
        f = find_func(tree, "SeegerBeste.stress")
        for n in ast.walk(f):
            if isinstance(n, ast.Name) and n.id == "x0":
                n.id = "start"
            if isinstance(n, ast.keyword) and n.arg == "x0":
                pass
        return True
    out.append(twin("rename start-value local", SP, rename_local))

    def positional_kw(tree):
        f = find_func(tree, "ExtendedNeuber.stress")
        c = [c for c in calls_in(f) if (call_name(c) or "").endswith("newton")][0]
        kws = {k.arg: k for k in c.keywords}
        c.args = [kws["func"].value, kws["x0"].value]
        c.keywords = [k for k in c.keywords if k.arg not in ("func", "x0")]
        return True
    out.append(twin("func and x0 passed positionally", NP, positional_kw))
    return out
