"""C17 — equivalent stresses (structural and algebraic clauses)."""
from __future__ import annotations

import ast
from fractions import Fraction

from ..astutil import (call_name, calls_in, const_value, find_func, is_self_attr, names_in, parse_expr, parse_stmt,
                       replace_node, tuple_assign_pairs, inline_single_defs)
from ..frontend import AnalysisError, walk_function, walk_stmts
from ..nf import RF, to_nf, NFUnsupported
from ..report import norm_text
from ..witness import witness, twin

LEVEL = "other"
EQ = "pylife.stress.equistress"
COMPS = ["s11", "s22", "s33", "s12", "s13", "s23"]
EXPLANATION = (
    "Static decision of structural/algebraic clauses of C17. R-C17-1: every accessor method calls the plain function of the "
    "same name (principals -> eigenval) binding parameter s_ij to column 'S<ij>' (keyword or position), and principals names "
    "the ascending eigenvalue columns min/med/max. R-C17-2: the 3x3 literal in eigenval, followed through .T and eigvalsh's "
    "triangle, places s_ij at (i,j) of the *consumed* triangle and the diagonal (the ignored triangle is not constrained). "
    "R-C17-3: the radicand of mises equals 3/2*tr(dev(S)^2) as a polynomial in the six components - a form that is rotation "
    "invariant by construction and equals 1/2*sum (s_i-s_j)^2. R-C17-4: degree typing shows every equivalent stress is "
    "positively homogeneous of degree 1 and the sign helpers of degree 0. R-C17-5: each signed variant is sign_helper x "
    "unsigned on the same components, and a sign-set domain over {-1,0,+1} shows both helpers map 0 to +1 (scalar and array "
    "branch). R-C17-6: Tresca takes the maximum over all three eigenvalue pairs (= largest minus smallest on every "
    "ordering) and abs_max_principal selects the largest eigenvalue iff w_max + w_min >= 0. Not decided: Mises <= Tresca <= "
    "2/sqrt(3) Mises, eigen-solver accuracy.")
EXPLANATION += (' R-C17-8: nothing derived from the stress columns is cached on the accessor object (memo rule: caching decorators, unreset memo attributes; built-in positive example).')
EXPLANATION += (' R-C17-7: every square root in the equivalent-stress module takes a radicand that is non-negative by its form (sums and products of even powers, x*x, abs, non-negative constants; no differences), so that cancellation cannot round it below zero (hydrostatic states).')
EXPLANATION += (" R-C17-9 (shared state-family rules, sa/statefam.py): no mutable class attribute of the stress accessor classes is changed through an instance (it would be shared by all accessor objects), no value derived from an argument is memoised under a partial key, no memoised object is handed out.")
ASSUMPTIONS = ["np.linalg.eigvalsh returns ascending eigenvalues of the symmetric matrix given by its UPLO triangle (default 'L')",
               "numpy stacks a 3x3 list of arrays as (3,3,N); .T reverses all axes"]



from ..absint import Domain, Interp, Seq


class DegreeDomain(Domain):
    """positive homogeneity degree of a value in the six stress components; "any" for a literal zero / zero buffer (zero is
    homogeneous of every degree); None = unknown"""
    KEEP = {"np.amax", "np.amin", "np.max", "np.min", "np.fabs", "np.abs", "abs", "np.absolute", "np.array", "np.asarray",
            "np.sort", "np.squeeze", "np.transpose", "np.stack", "np.atleast_1d", "np.sum", "np.mean", "np.maximum",
            "np.minimum", "np.where", "np.choose", "np.linalg.eigvalsh", "np.copy", "np.ravel", "np.broadcast_arrays",
            "np.negative", "float", "np.float64", "max", "min", "np.moveaxis", "np.swapaxes", "np.column_stack", "np.vstack"}
    ZERO = {"np.sign", "np.invert", "np.logical_not", "np.logical_and", "np.logical_or", "np.signbit", "np.isnan", "np.shape",
            "np.ndim", "len", "np.ones", "np.ones_like", "bool", "np.isfinite", "np.any", "np.all"}
    ANYV = {"np.zeros", "np.zeros_like", "np.empty", "np.empty_like"}

    def const(self, c):
        if isinstance(c, (int, float)) and not isinstance(c, bool) and c == 0:
            return "any"
        return 0

    def _flat(self, v):
        if isinstance(v, Seq):
            out = "any"
            for x in v:
                out = self.join(out, self._flat(x))
            return out
        return v

    def join(self, a, b):
        if a is None or b is None:
            return None
        if "mixed" in (a, b):
            return "mixed"
        if a == "any":
            return b
        if b == "any":
            return a
        return a if a == b else "mixed"       # two known, different degrees: not homogeneous

    def binop(self, op, a, b, node):
        if a is None or b is None:
            return None
        if "mixed" in (a, b):
            return "mixed"
        if isinstance(op, (ast.Add, ast.Sub)):
            return self.join(a, b)
        if isinstance(op, ast.Mult):
            return "any" if "any" in (a, b) else a + b
        if isinstance(op, ast.Div):
            return "any" if a == "any" else (None if b == "any" else a - b)
        if isinstance(op, ast.Pow):
            c = const_value(node.right) if isinstance(node, ast.BinOp) else None
            if a == "any":
                return "any"
            return a * c if isinstance(c, (int, float)) else None
        if isinstance(op, (ast.BitAnd, ast.BitOr, ast.BitXor)):
            return 0 if a in (0, "any") and b in (0, "any") else None
        return None

    def unaryop(self, op, a, node):
        if isinstance(op, (ast.Not, ast.Invert)):
            return 0 if a in (0, "any") else None
        return a

    def compare(self, node, vals):
        vals = [self._flat(v) for v in vals]
        out = vals[0]
        for v in vals[1:]:
            out = self.join(out, v)
        # comparing quantities of one degree (or with a literal zero) is invariant under positive scaling
        return None if out is None else ("mixed" if out == "mixed" else 0)

    def boolop(self, node, vals):
        return 0 if all(v in (0, "any") for v in vals) else (None if None in vals else "mixed")

    def call(self, fn, args, kwargs, node, interp, env):
        args = [self._flat(a) for a in args]
        if "mixed" in args and (fn in self.KEEP or fn in self.ZERO or fn in ("np.sqrt", "np.power", "pow")):
            return "mixed"
        if fn in self.KEEP and args:
            if fn in ("np.where", "np.choose") and len(args) == 3:
                return self.join(args[1], args[2]) if args[0] in (0, "any") else None
            out = args[0]
            if fn in ("np.maximum", "np.minimum", "max", "min", "np.stack", "np.column_stack", "np.vstack"):
                for a in args[1:]:
                    out = self.join(out, a)
            return out
        if fn in self.ZERO:
            return 0 if all(a is not None for a in args) else None
        if fn in self.ANYV:
            return "any"
        if fn in ("np.sqrt",) and args:
            return None if args[0] is None else ("any" if args[0] == "any" else args[0] / 2)
        if fn in ("np.power", "pow") and len(args) == 2:
            c = const_value(node.args[1])
            return None if args[0] is None or not isinstance(c, (int, float)) else ("any" if args[0] == "any" else args[0] * c)
        if fn in ("np.multiply", "np.dot") and len(args) >= 2:
            return self.binop(ast.Mult(), args[0], args[1], node)
        if fn in ("np.divide",) and len(args) >= 2:
            return self.binop(ast.Div(), args[0], args[1], node)
        if fn in ("np.add", "np.subtract") and len(args) >= 2:
            return self.join(args[0], args[1])
        return NotImplemented

    def method(self, recv, name, args, kwargs, node):
        recv = self._flat(recv)
        if name in ("max", "min", "sum", "mean", "copy", "astype", "reshape", "squeeze", "ravel", "flatten", "transpose", "item",
                    "to_numpy", "clip", "__abs__", "take", "swapaxes"):
            return recv
        if name in ("any", "all"):
            return 0 if recv is not None else None
        return None

    def attribute(self, recv, attr, node):
        recv = self._flat(recv)
        if attr in ("T", "real", "values", "flat"):
            return recv
        if attr in ("shape", "ndim", "size", "dtype"):
            return 0
        return None

    def subscript(self, recv, index, node):
        return self._flat(recv)

    def store(self, old, index, value, node):
        old, value = self._flat(old), self._flat(value)
        return self.join(old, value)


class NFDomain(Domain):
    """rational normal form in the parameters; sqrt kept as a tagged value"""

    def const(self, c):
        if isinstance(c, bool) or not isinstance(c, (int, float)):
            return None
        return RF.const(Fraction(c).limit_denominator(10 ** 12))

    def binop(self, op, a, b, node):
        if not isinstance(a, RF) or not isinstance(b, RF):
            return None
        try:
            if isinstance(op, ast.Add):
                return a + b
            if isinstance(op, ast.Sub):
                return a - b
            if isinstance(op, ast.Mult):
                return a * b
            if isinstance(op, ast.Div):
                return a / b
            if isinstance(op, ast.Pow):
                c = const_value(node.right) if isinstance(node, ast.BinOp) else None
                if isinstance(c, int) and 0 <= c <= 8:
                    out = RF.const(1)
                    for _ in range(c):
                        out = out * a
                    return out
        except (NFUnsupported, ZeroDivisionError):
            return None
        return None

    def unaryop(self, op, a, node):
        if isinstance(a, RF) and isinstance(op, ast.USub):
            return RF.const(0) - a
        return a if isinstance(op, ast.UAdd) else None

    def call(self, fn, args, kwargs, node, interp, env):
        if fn in ("np.array", "np.asarray", "float", "np.float64", "np.atleast_1d") and args:
            return args[0]
        if fn == "np.sqrt" and args and isinstance(args[0], RF):
            return ("sqrt", args[0])
        if fn in ("np.square",) and args and isinstance(args[0], RF):
            return args[0] * args[0]
        if fn in ("np.power", "pow") and len(args) == 2 and isinstance(args[0], RF):
            c = const_value(node.args[1])
            if c == 0.5:
                return ("sqrt", args[0])
            if isinstance(c, int) and 0 <= c <= 8:
                out = RF.const(1)
                for _ in range(c):
                    out = out * args[0]
                return out
        return NotImplemented

    def method(self, recv, name, args, kwargs, node):
        return recv if name in ("astype", "copy") else None


class SignValueDomain(Domain):
    """concrete execution of a sign helper: np.sign(...) yields the injected value v0 in {-1, 0, +1}; `.ndim` is 0 (scalar
    branch) or 1 (array branch); everything else is ordinary integer / boolean arithmetic; None = not modelled"""

    def __init__(self, v0, ndim):
        self.v0, self.ndim = v0, ndim

    def const(self, c):
        return c if isinstance(c, (int, float, bool)) else None

    def truth(self, v):
        return bool(v) if isinstance(v, (int, bool, float)) else None

    def join(self, a, b):
        return a if a == b and type(a) is type(b) else None

    def call(self, fn, args, kwargs, node, interp, env):
        if fn == "np.sign":
            return self.v0
        if fn in ("np.array", "np.asarray", "int", "float", "np.atleast_1d", "np.float64", "np.int64") and args:
            return args[0]
        if fn == "np.where" and len(args) == 3 and isinstance(args[0], (bool, int)):
            return args[1] if args[0] else args[2]
        if fn in ("np.invert", "np.logical_not") and args and isinstance(args[0], bool):
            return not args[0]
        if fn in ("np.amax", "np.amin", "np.max", "np.min", "eigenval"):
            return ("opaque", fn)
        return NotImplemented

    def binop(self, op, a, b, node):
        if isinstance(a, (int, bool, float)) and isinstance(b, (int, bool, float)):
            if isinstance(op, ast.Add):
                return int(a) + int(b) if not isinstance(a, float) and not isinstance(b, float) else a + b
            if isinstance(op, ast.Sub):
                return a - b
            if isinstance(op, ast.Mult):
                return a * b
        return ("opaque", "binop") if isinstance(a, tuple) or isinstance(b, tuple) else None

    def unaryop(self, op, a, node):
        if isinstance(a, (int, bool, float)):
            if isinstance(op, ast.USub):
                return -a
            if isinstance(op, (ast.Not, ast.Invert)) and isinstance(a, bool):
                return not a
        return None

    def compare(self, node, vals):
        if len(vals) == 2 and all(isinstance(v, (int, bool, float)) for v in vals):
            a, b = vals
            return {ast.Eq: a == b, ast.NotEq: a != b, ast.GtE: a >= b, ast.Gt: a > b, ast.Lt: a < b, ast.LtE: a <= b}.get(
                type(node.ops[0]))
        return None

    def attribute(self, recv, attr, node):
        if attr == "ndim":
            return self.ndim
        if attr == "T":
            return recv
        if attr == "shape":
            return ("opaque", "shape")
        return None

    def method(self, recv, name, args, kwargs, node):
        return recv if name in ("astype", "copy", "item") else (("opaque", name) if isinstance(recv, tuple) else None)

    def subscript(self, recv, index, node):
        return recv if isinstance(recv, tuple) else None

    def store(self, old, index, value, node):
        if isinstance(index, bool):
            return value if index else old
        return None


class NonNegDomain(Domain):
    """is a value non-negative in floating point for every real input by the way it is computed?  "NN" = yes (even powers,
    products in which every signed factor occurs an even number of times, abs, non-negative constants, sums / quotients of
    such); ("S", keys) = a product of the signed atoms `keys` (times non-negative factors).  Differences are never "NN"
    (cancellation can round below zero).  Square-root arguments are recorded."""

    def __init__(self):
        self.roots = []            # (node, value of the radicand)
        self._n = 0

    def _atom(self, node=None):
        self._n += 1
        return ("S", (norm_text(node) if node is not None else "?%d" % self._n,))

    def unknown(self):
        return self._atom()

    def const(self, c):
        return "NN" if isinstance(c, (int, float)) and not isinstance(c, bool) and c >= 0 else self._atom()

    def join(self, a, b):
        return "NN" if a == b == "NN" else (a if a == b else self._atom())

    @staticmethod
    def _norm(keys):
        keys = tuple(sorted(keys))
        odd = tuple(k for k in sorted(set(keys)) if keys.count(k) % 2)
        return "NN" if not odd else ("S", odd)

    def binop(self, op, a, b, node):
        if isinstance(op, ast.Pow):
            k = const_value(node.right) if isinstance(node, ast.BinOp) else None
            if isinstance(k, int) and not isinstance(k, bool) and k >= 0 and k % 2 == 0:
                return "NN"
            if a == "NN" and isinstance(k, (int, float)) and k >= 0:
                return "NN"
            if isinstance(k, int) and k > 0 and isinstance(a, tuple):
                return a
            return self._atom(node)
        if isinstance(op, (ast.Mult, ast.Div)):
            ka = () if a == "NN" else (a[1] if isinstance(a, tuple) else None)
            kb = () if b == "NN" else (b[1] if isinstance(b, tuple) else None)
            if ka is None or kb is None:
                return self._atom(node)
            return self._norm(ka + kb)
        if isinstance(op, ast.Add):
            return "NN" if a == b == "NN" else self._atom(node)
        return self._atom(node)

    def unaryop(self, op, a, node):
        return a if isinstance(op, ast.UAdd) else self._atom(node)

    def call(self, fn, args, kwargs, node, interp, env):
        flat = ["NN" if (isinstance(a, Seq) and all(x == "NN" for x in a)) else a for a in args]
        if fn in ("np.sqrt", "math.sqrt") and flat:
            self.roots.append((node, flat[0]))
            return "NN"
        if fn in ("np.power", "pow") and len(flat) == 2 and const_value(node.args[1]) == 0.5:
            self.roots.append((node, flat[0]))
            return "NN"
        if fn in ("np.abs", "abs", "np.fabs", "np.absolute", "np.square"):
            return "NN"
        if fn in ("np.maximum", "max", "np.fmax") and len(flat) == 2:
            if flat[0] == "NN" and flat[1] == "NN":
                return "NN"
            if "NN" in flat:
                # max(<difference>, 0): never negative, but only because the rounding noise of a cancellation is cut off
                return ("CLAMPED", norm_text(node.args[0] if flat[1] == "NN" else node.args[1]))
            return self._atom(node)
        if fn == "np.clip" and flat and flat[0] != "NN" and len(node.args) >= 2 and isinstance(const_value(node.args[1]), (int, float)) \
                and const_value(node.args[1]) >= 0:
            return ("CLAMPED", norm_text(node.args[0]))
        if fn in ("np.sum", "sum", "np.array", "np.asarray", "np.amax", "np.max", "np.amin", "np.min", "float") and flat:
            return flat[0] if flat[0] == "NN" or fn in ("np.array", "np.asarray", "float") else self._atom(node)
        return NotImplemented

    def method(self, recv, name, args, kwargs, node):
        return recv if name in ("astype", "copy", "sum", "max", "min") and recv == "NN" else self._atom(node)

    def subscript(self, recv, index, node):
        return recv if recv == "NN" else self._atom(node)

    def attribute(self, recv, attr, node):
        return recv if attr == "T" and recv == "NN" else self._atom(node)


class EigenDomain(Domain):
    """symbolic values around the ascending eigenvalues W of the stress tensor: the eigenvalues w0 <= w1 <= w2, |w_i - w_j|,
    maxima over such differences, the extreme eigenvalues, the abs-max sign indicator and the abs-max selection"""

    def const(self, c):
        return ("c", c) if isinstance(c, (int, float)) and not isinstance(c, bool) else None

    def join(self, a, b):
        return a if a == b else None

    def call(self, fn, args, kwargs, node, interp, env):
        ax = kwargs.get("axis")
        ax = ax[1] if isinstance(ax, tuple) and ax and ax[0] == "c" else None
        if fn == "eigenval":
            return "W"                       # (N, 3), ascending along the last axis (R-C17-2 + assumption)
        if fn in ("np.fabs", "np.abs", "abs", "np.absolute") and args:
            a = args[0]
            if isinstance(a, tuple) and a and a[0] == "diff":
                return ("absdiff", a[1])
            return None
        if fn in ("np.amax", "np.max", "np.amin", "np.min") and args:
            return self._reduce("max" if fn in ("np.amax", "np.max") else "min", args[0], ax)
        if fn in ("np.array", "np.asarray", "np.stack", "np.vstack") and args:
            return args[0]
        if fn in ("np.zeros", "np.zeros_like", "np.empty", "np.empty_like"):
            return ("buf", ())
        if fn == "np.sign" and args:
            return ("sign", args[0]) if args[0] == "SUM" else None
        if fn in ("np.invert", "np.logical_not") and args:
            return self._neg(args[0])
        if fn == "np.where" and len(args) == 3:
            if self._isbool(args[0]) and args[1] == "MAX" and args[2] == "MIN":
                return self._select(args[0])
            if self._isbool(args[0]) and args[1] == "MIN" and args[2] == "MAX":
                return self._select(self._neg(args[0]))
            if args[0] == ("iszero", ("sign", "SUM")) and args[1] == ("c", 1) and args[2] == ("sign", "SUM"):
                return "SGN1"
            return None
        return NotImplemented

    BOOLS = ("POS", "NEG", "POSSTRICT", "NEGSTRICT", "ALWAYS", "NEVER")

    def _isbool(self, x):
        return x in self.BOOLS

    def _neg(self, x):
        return {"POS": "NEGSTRICT", "NEGSTRICT": "POS", "NEG": "POSSTRICT", "POSSTRICT": "NEG", "ALWAYS": "NEVER",
                "NEVER": "ALWAYS"}.get(x)

    def _select(self, cond):
        """w_max where cond else w_min"""
        return "ABSMAX" if cond == "POS" else ("BADSELECT", cond)

    def _reduce(self, kind, a, ax):
        if a in ("W", "WT"):
            good = (a == "W" and ax in (1, -1)) or (a == "WT" and ax == 0)
            return ("MAX" if kind == "max" else "MIN") if good else None
        if isinstance(a, Seq):
            items = list(a)
        elif isinstance(a, tuple) and a and a[0] == "buf":
            items = [v for _, v in a[1]]
        else:
            return None
        if ax != 0 or not all(isinstance(x, tuple) and x and x[0] == "absdiff" for x in items):
            if all(x in (("w", 0), ("w", 1), ("w", 2)) for x in items) and len(set(items)) == 3 and ax == 0:
                return "MAX" if kind == "max" else "MIN"
            return None
        return (kind + "absdiff", frozenset(x[1] for x in items))

    def method(self, recv, name, args, kwargs, node):
        ax = kwargs.get("axis") or (args[0] if args else None)
        ax = ax[1] if isinstance(ax, tuple) and ax and ax[0] == "c" else None
        if name in ("max", "min"):
            return self._reduce(name, recv, ax)
        if name in ("copy", "astype"):
            return recv
        return None

    def attribute(self, recv, attr, node):
        if attr == "T":
            return {"W": "WT", "WT": "W"}.get(recv)
        if attr == "shape" and recv in ("W", "WT"):
            return ("shape", recv)
        return None

    def subscript(self, recv, index, node):
        if recv == "WT" and index in (0, 1, 2):
            return ("w", index)
        if recv == "W" and isinstance(node, ast.Subscript):
            t = norm_text(node.slice)
            for i in (0, 1, 2):
                if t in ("(..., %d)" % i, "(slice(None, None, None), %d)" % i, "(:, %d)" % i) or \
                        ast.unparse(node.slice) in ("..., %d" % i, ":, %d" % i):
                    return ("w", i)
        if recv == "WT" and index is not None and isinstance(index, int):
            return ("w", index)
        return None

    def store(self, old, index, value, node):
        if isinstance(old, tuple) and old and old[0] == "buf" and isinstance(index, tuple) and index and index[0] == "c":
            return ("buf", tuple(sorted(dict(old[1], **{index[1]: value}).items())) if False else
                    tuple(list(old[1]) + [(index[1], value)]))
        if old == ("sign", "SUM") and index == ("iszero", ("sign", "SUM")) and value == ("c", 1):
            return "SGN1"
        return None

    def binop(self, op, a, b, node):
        w = lambda x: isinstance(x, tuple) and len(x) == 2 and x[0] == "w"
        if isinstance(op, ast.Sub) and w(a) and w(b) and a != b:
            return ("diff", frozenset((a[1], b[1])))
        if isinstance(op, ast.Add) and {a, b} == {"MAX", "MIN"}:
            return "SUM"
        if isinstance(op, ast.Add) and {a, b} == {("sign", "SUM"), ("iszero", ("sign", "SUM"))}:
            return "SGN1"                    # sign + [sign == 0]
        if isinstance(op, ast.Add) and {a, b} == {("w", 0), ("w", 2)}:
            return "SUM"
        if isinstance(op, ast.Mult):
            for x, y in ((a, b), (b, a)):
                if x in ("MAX", "MIN") and self._isbool(y):
                    return ("sel", x, y)
            for x, y in ((a, b), (b, a)):
                if x == "SGN1" and isinstance(y, tuple) and y and y[0] in ("maxabsdiff", "minabsdiff"):
                    return ("signed", x, y)      # sign indicator times an unsigned reduction over eigenvalue differences
        if isinstance(op, ast.Add) and all(isinstance(x, tuple) and x and x[0] == "sel" for x in (a, b)):
            m = {x[1]: x[2] for x in (a, b)}
            if set(m) == {"MAX", "MIN"} and self._neg(m["MAX"]) == m["MIN"]:
                return self._select(m["MAX"])
            return ("BADSELECT", (a, b))
        return None

    def unaryop(self, op, a, node):
        if isinstance(op, (ast.Invert, ast.Not)) and self._isbool(a):
            return self._neg(a)
        return None

    def compare(self, node, vals):
        if len(vals) != 2:
            return None
        a, b = vals
        op = node.ops[0]
        if isinstance(a, tuple) and a and a[0] == "c" and not (isinstance(b, tuple) and b and b[0] == "c"):
            # constant written on the left: turn the comparison round
            flip = {ast.Lt: ast.Gt, ast.LtE: ast.GtE, ast.Gt: ast.Lt, ast.GtE: ast.LtE, ast.Eq: ast.Eq, ast.NotEq: ast.NotEq}.get(type(op))
            if flip is None:
                return None
            a, b, op = b, a, flip()
        if isinstance(op, ast.Eq) and a == ("sign", "SUM") and b == ("c", 0):
            return ("iszero", a)
        if not (isinstance(b, tuple) and b and b[0] == "c"):
            return None
        c = b[1]
        test = {ast.Eq: lambda v: v == c, ast.NotEq: lambda v: v != c, ast.GtE: lambda v: v >= c, ast.Gt: lambda v: v > c,
                ast.Lt: lambda v: v < c, ast.LtE: lambda v: v <= c}.get(type(op))
        if test is None:
            return None
        if a == "SGN1":
            dom = (-1, 1)                 # sign of w_max + w_min with 0 counted as +1
        elif a in (("sign", "SUM"),):
            dom = (-1, 0, 1)
        elif a == "SUM" and c == 0:
            dom = (-1, 0, 1)              # only the sign of the sum matters for a comparison with zero
        else:
            return None
        true = frozenset(v for v in dom if test(v))
        if a == "SGN1":
            return {frozenset((1,)): "POS", frozenset((-1,)): "NEGSTRICT", frozenset(): "NEVER", frozenset((-1, 1)): "ALWAYS"}[true]
        return {frozenset((0, 1)): "POS", frozenset((1,)): "POSSTRICT", frozenset((-1,)): "NEGSTRICT", frozenset((-1, 0)): "NEG",
                frozenset(): "NEVER", frozenset((-1, 0, 1)): "ALWAYS"}.get(true)


def run(ctx):
    for r in (_r1, _r2, _r3, _r4, _r5, _r6, _r7, _r8, _r9, _r10):
        ctx.attempt(r)


_CONVERSIONS = ("np.array", "np.asarray", "np.asanyarray", "np.atleast_1d", "numpy.array", "numpy.asarray")


_FLOAT_NAMES = ("float", "np.float64", "np.double", "np.float_", "np.longdouble", "'float64'", "'float'", "'f8'", "'d'", "np.float128")
_KEEPING = ("int", "np.int64", "np.int32", "np.int16", "np.int8", "np.intp", "np.int_", "'int64'", "'int32'", "'i4'", "'i8'", "None")


def _dtype_unknown(conv):
    """the conversion names an element type this rule cannot classify (neither floating double nor caller's / integer / narrow)"""
    for c in ast.walk(conv):
        if isinstance(c, ast.Call):
            dts = [k.value for k in c.keywords if k.arg == "dtype"]
            if isinstance(c.func, ast.Attribute) and c.func.attr == "astype" and c.args:
                dts.append(c.args[0])
            for dt in dts:
                t = norm_text(dt)
                if t in _FLOAT_NAMES or t in _KEEPING or t.endswith(".dtype"):
                    continue
                if (call_name(dt) or "") in ("np.result_type", "np.promote_types", "np.find_common_type") and \
                        any(norm_text(a) in _FLOAT_NAMES for a in dt.args):
                    return "promoted"
                return "unknown"
    return None


def _converted_component(fi, v):
    """np.array(<component parameter>, ...) / <component parameter>.astype(...) (possibly chained)"""
    while isinstance(v, ast.Call):
        if call_name(v) in _CONVERSIONS and v.args:
            v = v.args[0]
        elif isinstance(v.func, ast.Attribute) and v.func.attr in ("astype", "copy"):
            v = v.func.value
        else:
            return False
    return isinstance(v, ast.Name) and v.id in COMPS and v.id in fi.params


def _elementwise_conversion(prog, fi, v, depth=0):
    """v = (conv(c) for c in (<components>)) / [conv(c) for c in components] / helper(<components>) whose return value is
    such a comprehension over its parameters -> (is floating, function, conversion expression); None when v is something else."""
    from .c08 import _float_normalised
    if isinstance(v, (ast.GeneratorExp, ast.ListComp)) and len(v.generators) == 1 and isinstance(v.generators[0].target, ast.Name) \
            and not v.generators[0].ifs:
        var = v.generators[0].target.id
        e = v.elt
        inner = e
        while isinstance(inner, ast.Call):
            if call_name(inner) in _CONVERSIONS and inner.args:
                inner = inner.args[0]
            elif isinstance(inner.func, ast.Attribute) and inner.func.attr in ("astype", "copy"):
                inner = inner.func.value
            else:
                return None
        if not (isinstance(inner, ast.Name) and inner.id == var):
            return None
        return _float_normalised(prog, fi, e), fi, e
    if isinstance(v, ast.Call) and call_name(v) in ("tuple", "list") and len(v.args) == 1:
        return _elementwise_conversion(prog, fi, v.args[0], depth)
    if isinstance(v, ast.Name):
        defs = [st for st in walk_function(fi.node) if isinstance(st, ast.Assign) and
                any(isinstance(t, ast.Name) and t.id == v.id for t in st.targets)]
        if len(defs) == 1:
            return _elementwise_conversion(prog, fi, defs[0].value, depth)
        return None
    if isinstance(v, ast.Call) and depth < 2:
        keys = [k for k in prog.resolve_call(fi, v) if k in prog.functions]
        if len(keys) == 1:
            callee = prog.functions[keys[0]]
            rets = [r for r in walk_function(callee.node) if isinstance(r, ast.Return) and r.value is not None]
            if len(rets) == 1:
                return _elementwise_conversion(prog, callee, rets[0].value, depth + 1)
    return None


def _unpacked_conversion(prog, fi, st):
    """`s11, s22, ... = <elementwise conversion of the component parameters>`"""
    names = names_in(st.value)
    if not any(x in COMPS and x in fi.params for x in names):
        return None
    got = _elementwise_conversion(prog, fi, st.value)
    if got is None:
        targets = [t.id for t in st.targets[0].elts if isinstance(t, ast.Name)]
        if isinstance(st.value, (ast.Tuple, ast.List)) or not all(t in COMPS and t in fi.params for t in targets):
            return None                         # new names for derived quantities (eigenvalues, extremes): not a conversion
        raise AnalysisError("%s: %r - the components are re-bound together in a form that is not recognised as an "
                            "element-wise conversion" % (fi.qualname, norm_text(st)[:80]))
    return got


def _r10(ctx):
    """R-C17-10: the closed forms do their arithmetic in floating point.  Wherever a plain function of the module adds,
    subtracts, multiplies or raises to a power the components themselves (not eigenvalues, which numpy.linalg returns as floats),
    the operands are the parameters converted with a floating element type.  A conversion that keeps the caller's element type
    lets integer stresses (FE results stored as int32 in Pa) wrap around in the squares / in the trace: mises(50000, 0, ...) in
    int32 is not 50000, and scaling the tensor by a positive factor no longer scales the result - the property for integer input."""
    from .c08 import _float_normalised
    prog = ctx.prog
    ctx.rule("R-C17-10", floor=2, what="component arithmetic of the closed forms is done on float-converted components")
    for k, fi in sorted(prog.functions.items()):
        if fi.module.name != EQ or fi.cls is not None:
            continue
        done = set()
        for n in walk_function(fi.node):
            if not (isinstance(n, ast.BinOp) and isinstance(n.op, (ast.Add, ast.Sub, ast.Mult, ast.Pow))):
                continue
            for side in (n.left, n.right):
                if not isinstance(side, ast.Name) or side.id in done:
                    continue
                defs = [st for st in walk_function(fi.node) if isinstance(st, ast.Assign) and
                        any(isinstance(t, ast.Name) and t.id == side.id for t in st.targets)]
                unpacked = [st for st in walk_function(fi.node) if isinstance(st, ast.Assign) and any(
                    isinstance(t, (ast.Tuple, ast.List)) and any(isinstance(x, ast.Name) and x.id == side.id for x in t.elts)
                    for t in st.targets)]
                if unpacked:
                    if defs or len(unpacked) > 1:
                        raise AnalysisError("%s: component %r is defined in more than one way before its arithmetic" % (fi.qualname, side.id))
                    verdict = _unpacked_conversion(prog, fi, unpacked[0])
                    if verdict is None:
                        continue                # not a conversion of the components
                    for t in unpacked[0].targets[0].elts:
                        done.add(t.id)
                    ok, where, expr = verdict
                    if ok:
                        ctx.holds(fi, unpacked[0], "%s: components converted to a floating element type together (%s)" % (fi.qualname, norm_text(expr)[:60]))
                    else:
                        ctx.violated(where, expr, "%s: %r keeps the caller's element type, and %r is then computed in it: integer "
                                     "components (e.g. int32 stresses in Pa) wrap around, the result is not the equivalent stress and "
                                     "does not scale with the tensor" % (fi.qualname, norm_text(expr), norm_text(n)[:60]))
                    continue
                if not defs and side.id in fi.params and side.id in COMPS:
                    done.add(side.id)
                    ctx.violated(fi, n, "%s: arithmetic %r on the raw component %r - the caller's element type (possibly a narrow "
                                 "integer type) decides whether the closed form overflows" % (fi.qualname, norm_text(n), side.id))
                    continue
                conv = [d for d in defs if _converted_component(fi, d.value)]
                if not conv:
                    continue                    # derived quantity (eigenvalues, signs): outside this rule
                done.add(side.id)
                if len(conv) != len(defs):
                    raise AnalysisError("%s: component %r is defined in more than one way before its arithmetic" % (fi.qualname, side.id))
                kinds = [_dtype_unknown(d.value) for d in conv]
                if "unknown" in kinds:
                    raise AnalysisError("%s: element type of %r not classified" % (fi.qualname, norm_text(conv[kinds.index("unknown")])[:80]))
                if all(k_ == "promoted" or _float_normalised(prog, fi, d.value) for k_, d in zip(kinds, conv)):
                    ctx.holds(fi, conv[0], "%s: %s converted to a floating element type before %r" % (fi.qualname, side.id, norm_text(n)[:50]))
                else:
                    bad = next(d for k_, d in zip(kinds, conv) if k_ != "promoted" and not _float_normalised(prog, fi, d.value))
                    ctx.violated(fi, bad, "%s: %r keeps the caller's element type, and %r is then computed in it: integer "
                                 "components (e.g. int32 stresses in Pa) wrap around, the result is not the equivalent stress and "
                                 "does not scale with the tensor" % (fi.qualname, norm_text(bad), norm_text(n)[:60]))


def _r9(ctx):
    """R-C17-9 (state families, sa/statefam.py): no class-level mutable attribute of the accessor (or its bases) is changed
    through an instance, no partially keyed memo, no memo object handed out - two accessor objects alive at the same time must
    not see each other's tensors."""
    from .. import statefam
    prog = ctx.prog
    classes = [ci for k, ci in sorted(prog.classes.items()) if ci.module.name in (EQ, 'pylife.stress.stresssignal')]
    statefam.apply(ctx, 'R-C17-9', 'no shared class-level state / partial memo in the equistress accessor classes', classes=classes, floor=2)


def _r8(ctx):
    """R-C17-8: the accessor computes every result from the frame as it is now - nothing derived from the stress columns is
    cached on the accessor object (a caching decorator cannot be invalidated when the frame is changed in place; a hand-written
    memo attribute must be reset wherever the data it was computed from changes).  Otherwise a kept accessor returns principal
    stresses of the old tensors while tresca()/mises() use the current ones: row-by-row agreement with the plain functions is lost."""
    from .. import memo
    prog = ctx.prog
    ctx.rule("R-C17-8", floor=1, what="nothing derived from the stress columns is cached on the accessor")
    memo.run_rule(ctx, classes=[prog.cls(EQ + ":StressTensorEquistress")], modules=[EQ], what="stress tensors",
                  external_state=("_obj",))            # the frame belongs to the caller and may be changed in place


def _r1(ctx):
    prog = ctx.prog
    ctx.rule("R-C17-1", floor=60, what="accessor methods delegate to the plain function with s_ij <- column S<ij>")
    ci = prog.cls(EQ + ":StressTensorEquistress")
    n = 0
    from ..inline import inlined
    family = {k for k, f_ in prog.functions.items() if k.startswith(EQ + ":") and f_.cls is None and
              list(f_.params)[:6] == ["s11", "s22", "s33", "s12", "s13", "s23"]}
    for name, defs in ci.methods.items():
        fi = defs[-1]
        target = "eigenval" if name == "principals" else name
        if name.startswith("_"):
            continue
        tf = prog.functions.get(EQ + ":" + target)
        if tf is None:
            ctx.violated(fi, fi.node, "accessor method %s has no plain function %s" % (name, target), text=name)
            continue
        f0 = fi
        fi = inlined(prog, fi)              # the delegation may go through shared private helpers
        # row by row: every pandas object the accessor constructs from array data carries the object's index (a Series with a
        # fresh RangeIndex is aligned by label with the others and mis-pairs rows as soon as the index is not 0..n-1)
        bare = [c for c in calls_in(fi.node) if call_name(c) in ("pd.Series", "pd.DataFrame", "pandas.Series", "pandas.DataFrame")
                and not any(k.arg == "index" and norm_text(k.value) == "self._obj.index" for k in c.keywords)]
        for c in bare:
            ctx.violated(f0, c, "%s builds %s without index=self._obj.index: its rows are re-paired by label with the object's rows"
                         % (name, call_name(c)), text="%s bare %s" % (name, call_name(c)))
        if bare:
            continue
        allc = [(c, set(prog.resolve_call(f0, c)) & family) for c in calls_in(fi.node) if isinstance(c.func, ast.Name)]
        allc = [(c, ks) for c, ks in allc if ks]
        cs = [c for c, ks in allc if tf.key in ks]
        if len(cs) != 1:
            other = [sorted(ks)[0] for c, ks in allc if tf.key not in ks]
            if other and not cs:
                ctx.violated(f0, f0.node, "accessor method %s delegates to %s instead of the plain function %s" %
                             (name, other[0].split(":")[-1], target), text=name)
                continue
            raise AnalysisError("accessor method %s: the call of the plain function %s not found (%d candidates)" %
                                (name, target, len(cs)))
        c = cs[0]
        binding = {}
        for i, a in enumerate(c.args):
            if i < len(tf.params):
                binding[tf.params[i]] = a
        starred = [a_ for a_ in c.args if isinstance(a_, ast.Starred)]
        if len(starred) == 1 and len(c.args) == 1 and not c.keywords:
            # *columns: the columns must have been selected by a literal list of names (then they bind in that order); a
            # selection that keeps the order of the caller's frame (filter(regex/like), all columns, positions) is the culprit
            src = inline_single_defs(fi.node, starred[0].value)
            lists = [x.slice for x in ast.walk(src) if isinstance(x, ast.Subscript) and is_self_attr(x.value, "_obj") and
                     isinstance(x.slice, (ast.List, ast.Tuple)) and all(isinstance(const_value(e_), str) for e_ in x.slice.elts)]
            frame_order = [x for x in ast.walk(src) if (isinstance(x, ast.Call) and isinstance(x.func, ast.Attribute) and
                                                        x.func.attr in ("filter", "select_dtypes", "to_numpy", "iloc") and
                                                        any(is_self_attr(y, "_obj") for y in ast.walk(x.func.value))) or
                           (isinstance(x, ast.Attribute) and x.attr in ("values", "iloc") and is_self_attr(x.value, "_obj"))]
            if len(lists) == 1 and len(lists[0].elts) == len(tf.params):
                for p_, e_ in zip(tf.params, lists[0].elts):
                    binding[p_] = ast.Subscript(value=parse_expr("self._obj"), slice=e_, ctx=ast.Load())
                c = ast.copy_location(ast.Call(func=c.func, args=[], keywords=[]), c)
            elif not lists and frame_order:
                n += 1
                ctx.violated(f0, cs[0], "%s: the stress components handed to %s are the columns of the caller's frame in the order "
                             "the frame has them (%s): with another column order every component is another one" %
                             (name, target, norm_text(src)[:80]), text="%s columns in frame order" % name)
                continue
        if any(k.arg is None for k in c.keywords) or any(isinstance(a_, ast.Starred) for a_ in c.args):
            raise AnalysisError("accessor method %s: the arguments of %s are passed through */** that could not be resolved" % (name, target))
        for k in c.keywords:
            binding[k.arg] = k.value
        for p in tf.params:
            a = binding.get(p)
            col = None
            if a is not None:
                for x in ast.walk(a):
                    if isinstance(x, ast.Subscript) and is_self_attr(x.value, "_obj") and isinstance(const_value(x.slice), str):
                        col = const_value(x.slice)
            want = "S" + p[1:]
            n += 1
            if col == want:
                ctx.holds(fi, c, "%s: %s <- column %s" % (name, p, col))
            else:
                ctx.violated(fi, c, "%s: parameter %s receives column %r, expected %r" % (name, p, col, want),
                             text="%s %s<-%s" % (name, p, col))
        # result wrapping: name / index
        if name == "principals":
            d = [x for x in ast.walk(fi.node) if isinstance(x, ast.Dict) and any(const_value(k_) == "min_principal" for k_ in x.keys if k_ is not None)]
            ok = False
            if d:
                m = {const_value(k): norm_text(v.slice) for k, v in zip(d[0].keys, d[0].values) if isinstance(v, ast.Subscript)}
                ok = m == {"min_principal": "(..., 0)", "med_principal": "(..., 1)", "max_principal": "(..., 2)"}
            if ok:
                ctx.holds(fi, d[0], "principals: ascending eigenvalues named min/med/max")
            elif not d:
                # the columns are not named in a dict display (comprehension over a table of names, ...): no culprit, undecided
                raise AnalysisError("principals: the dict display naming the eigenvalue columns was not found")
            else:
                ctx.violated(fi, d[0] if d else fi.node, "principals does not name the ascending eigenvalue columns "
                             "min_principal/med_principal/max_principal = [...,0]/[...,1]/[...,2]", text="principals columns")
        else:
            r = [s for s in fi.node.body if isinstance(s, ast.Return)]
            idx = None
            if r and isinstance(r[0].value, ast.Call):
                idx = next((k.value for k in r[0].value.keywords if k.arg == "index"), None)
            if idx is not None and norm_text(idx) == "self._obj.index":
                ctx.holds(fi, r[0], "%s: result carries the object's index (row by row)" % name)
            else:
                ctx.violated(fi, r[0] if r else fi.node, "%s: result does not carry the object's index" % name, text=name + " index")


def _r2(ctx):
    prog = ctx.prog
    ctx.rule("R-C17-2", floor=7, what="tensor assembly: consumed triangle and diagonal hold s_ij at (i,j)")
    f = prog.func(EQ + ":eigenval")
    lit = [n for n in ast.walk(f.node) if isinstance(n, ast.List) and len(n.elts) == 3 and
           all(isinstance(r, ast.List) and len(r.elts) == 3 for r in n.elts)]
    if len(lit) != 1:
        raise AnalysisError("eigenval: 3x3 literal not found")
    M = [[norm_text(c) for c in r.elts] for r in lit[0].elts]
    # follow .T and UPLO
    transposed = False
    p = getattr(lit[0], "_parent", None)
    while p is not None and not isinstance(p, ast.stmt):
        if isinstance(p, ast.Attribute) and p.attr == "T":
            transposed = not transposed
        p = getattr(p, "_parent", None)
    ev = [c for c in calls_in(f.node) if (call_name(c) or "").endswith("eigvalsh")]
    if len(ev) != 1:
        raise AnalysisError("eigenval: eigvalsh call not found")
    uplo = next((const_value(k.value) for k in ev[0].keywords if k.arg == "UPLO"), "L")
    arg = ev[0].args[0]
    if isinstance(arg, ast.Attribute) and arg.attr == "T" and not any(x is lit[0] for x in ast.walk(arg)):
        transposed = not transposed            # a named array transposed at the call (a transposition around the literal itself
                                               # was counted on the way up from the literal)
    lower = (uplo == "L")
    # consumed entries of the matrix eigvalsh sees: (i,j) with i>=j if lower ; in terms of the literal: [j][i] if transposed
    for i in range(3):
        for j in range(3):
            consumed = (i >= j) if lower else (i <= j)
            if not consumed:
                continue
            r, c = (j, i) if transposed else (i, j)
            a, b = sorted((i + 1, j + 1))
            want = "s%d%d" % (a, b)
            if M[r][c] == want:
                ctx.holds(f, lit[0], "consumed entry (%d,%d) = literal[%d][%d] = %s" % (i + 1, j + 1, r, c, want))
            else:
                ctx.violated(f, lit[0], "tensor entry (%d,%d) consumed by eigvalsh is %s, expected %s" % (i + 1, j + 1, M[r][c], want),
                             text="entry %d%d=%s" % (i + 1, j + 1, M[r][c]))
    # every result of eigenval comes from the eigen-solver; a short cut around it must test ALL off-diagonal components
    st_ev = ev[0]
    while not isinstance(st_ev, ast.stmt):
        st_ev = st_ev._parent
    shear = [q for q in f.params if len(q) == 3 and q[0] == "s" and q[1] != q[2]]
    for r_ in [x for x in walk_function(f.node) if isinstance(x, ast.Return) and x.value is not None]:
        uses_solver = any(x is ev[0] for x in ast.walk(r_)) or (isinstance(r_.value, ast.Name) and isinstance(st_ev, ast.Assign) and
                                                                   any(isinstance(t, ast.Name) and t.id == r_.value.id for t in st_ev.targets))
        if uses_solver:
            ctx.holds(f, r_, "eigenval returns the eigen-solver's result")
            continue
        par = r_._parent
        tested = set()
        if isinstance(par, ast.If):
            for n_ in ast.walk(par.test):
                if isinstance(n_, ast.Name) and n_.id in shear:
                    tested.add(n_.id)
        if set(shear) <= tested and shear:
            ctx.holds(f, r_, "short cut without the eigen-solver tests all off-diagonal components %s" % sorted(tested))
        else:
            ctx.violated(f, r_, "eigenval returns %s without the eigen-solver although only %s of the off-diagonal components %s "
                         "are tested: a tensor with a non-zero %s is treated as diagonal, principal stresses (Tresca, max/min "
                         "principal) ignore that shear and rotation invariance is lost" %
                         (norm_text(r_.value)[:60], sorted(tested) or "none", shear, "/".join(sorted(set(shear) - tested))),
                         text="shortcut around eigvalsh")


def _mises_reference():
    s = {c: RF.sym(c) for c in COMPS}
    S = [[s["s11"], s["s12"], s["s13"]], [s["s12"], s["s22"], s["s23"]], [s["s13"], s["s23"], s["s33"]]]
    tr = S[0][0] + S[1][1] + S[2][2]
    third = RF.const(Fraction(1, 3))
    tot = RF.const(0)
    for i in range(3):
        for j in range(3):
            d = S[i][j] - (tr * third if i == j else RF.const(0))
            tot = tot + d * d
    return tot * RF.const(Fraction(3, 2))


def _r3(ctx):
    prog = ctx.prog
    ctx.rule("R-C17-3", floor=1, what="mises^2 == 3/2 tr(dev(S)^2)")
    f = prog.func(EQ + ":mises")
    val = Interp(prog, NFDomain()).run(f, [RF.sym(c) for c in f.params])
    if not (isinstance(val, tuple) and len(val) == 2 and val[0] == "sqrt" and isinstance(val[1], RF)):
        raise AnalysisError("mises: the returned value is not recognised as the square root of a polynomial in the components")
    got = val[1]
    if got == _mises_reference():
        ctx.holds(f, f.node, "radicand == 3/2 tr(dev^2) (rotation-invariant form)", {"nf": repr(got)})
    else:
        ctx.violated(f, f.node, "mises radicand %r is not 3/2*tr(dev(S)^2) = %r: the result is no longer the von Mises invariant"
                     % (got, _mises_reference()))


def _manifest_nonneg(e):
    """True if the expression is non-negative in floating point for every real input by its very form: even powers,
    x*x, abs, non-negative constants, sums and products of such.  A difference is never accepted (cancellation can round
    below zero)."""
    if isinstance(e, ast.Constant):
        return isinstance(e.value, (int, float)) and not isinstance(e.value, bool) and e.value >= 0
    if isinstance(e, ast.BinOp):
        if isinstance(e.op, ast.Pow):
            k = const_value(e.right)
            return isinstance(k, int) and not isinstance(k, bool) and k % 2 == 0 and k >= 0
        if isinstance(e.op, ast.Add):
            return _manifest_nonneg(e.left) and _manifest_nonneg(e.right)
        if isinstance(e.op, ast.Mult):
            fac = []

            def flat(x):
                if isinstance(x, ast.BinOp) and isinstance(x.op, ast.Mult):
                    flat(x.left)
                    flat(x.right)
                else:
                    fac.append(x)
            flat(e)
            rest = {}
            for x in fac:
                if not _manifest_nonneg(x):
                    rest[norm_text(x)] = rest.get(norm_text(x), 0) + 1
            return all(k % 2 == 0 for k in rest.values())
        if isinstance(e.op, ast.Div):
            return _manifest_nonneg(e.left) and _manifest_nonneg(e.right)
        return False
    if isinstance(e, ast.Call):
        fn = call_name(e) or ""
        if fn in ("np.abs", "abs", "np.fabs", "np.absolute", "np.square"):
            return True
        if fn in ("np.maximum", "max", "np.fmax") and len(e.args) == 2:
            return any(_manifest_nonneg(a) for a in e.args)
        if fn in ("np.sqrt",) and e.args:
            return True
        if fn in ("np.sum", "sum") and e.args:
            return _manifest_nonneg(e.args[0])
        return False
    if isinstance(e, ast.UnaryOp) and isinstance(e.op, ast.UAdd):
        return _manifest_nonneg(e.operand)
    return False


def _tolerance_scan(ctx, rule):
    """absolute tolerances / rounding applied to stress-valued quantities break the scaling clause"""
    prog = ctx.prog
    n = 0
    for key, fi in sorted(prog.functions.items()):
        if fi.module.name != EQ:
            continue
        for c in calls_in(fi.node):
            fn = call_name(c) or ""
            if fn in ("np.isclose", "np.allclose", "math.isclose", "np.round", "np.around", "round", "np.rint", "np.trunc"):
                st = c
                while not isinstance(st, ast.stmt):
                    st = st._parent
                n += 1
                ctx.violated(fi, st, "%s: %s applies an absolute tolerance / rounding to a stress-valued quantity: the outcome "
                             "changes when the tensor is scaled by a positive factor (e.g. a trace of -130 times 2**-40 is "
                             "treated as zero)" % (fi.name, norm_text(c)), rule=rule, text=norm_text(c))
    return n


def _r7(ctx):
    """Every square root in the equivalent-stress module takes a radicand that is non-negative by the way it is computed (sum
    of squares).  An algebraically non-negative difference of products (s11^2 + ... - s11*s22 - ...) can round below zero - for
    hydrostatic states the exact value is 0 - and then the square root is NaN."""
    prog = ctx.prog
    ctx.rule("R-C17-7", floor=1, what="radicands of square roots are non-negative by form (no cancellation below zero)")
    n = 0
    for key, fi in sorted(prog.functions.items()):
        if fi.module.name != EQ or fi.parent is not None or fi.cls is not None:
            continue
        if not any((call_name(c) or "") in ("np.sqrt", "numpy.sqrt", "math.sqrt", "np.power", "pow") for c in calls_in(fi.node)):
            continue
        dom = NonNegDomain()
        Interp(prog, dom, follow=lambda callee: False).run(fi, [("S", (q,)) for q in fi.params])
        for node, val in dom.roots:
            n += 1
            st = node
            while not isinstance(st, ast.stmt):
                st = st._parent
            if val == "NN":
                ctx.holds(fi, st, "%s: radicand %s is a sum of squares" % (fi.name, norm_text(node.args[0])[:80]))
            elif isinstance(val, tuple) and val[0] == "CLAMPED":
                ctx.violated(fi, st, "%s: the radicand is the clamped value of %s, which is not non-negative by the way it is computed: "
                             "the clamp hides the cancellation, it does not avoid it - where the exact value is small against the "
                             "terms (a large hydrostatic part) the root carries the rounding noise of the terms, the result is no "
                             "longer the invariant and does not agree with the principal-stress form" % (fi.name, val[1][:120]),
                             text="radicand " + fi.name)
            else:
                ctx.violated(fi, st, "%s: the radicand %s is not non-negative by the way it is computed; where it is exactly zero "
                             "(hydrostatic tensors, e.g. mises(0.7, 0.7, 0.7, 0, 0, 0)) rounding can make it negative and the "
                             "result NaN" % (fi.name, norm_text(node.args[0])[:160]), text="radicand " + fi.name)
    if n == 0:
        raise AnalysisError("no square root found in the equivalent-stress module")


def _deg(e, env):
    if isinstance(e, ast.Constant):
        return 0
    if isinstance(e, ast.Name):
        return env.get(e.id)
    if isinstance(e, ast.Subscript):
        return _deg(e.value, env)
    if isinstance(e, ast.Attribute):
        if e.attr == "T":
            return _deg(e.value, env)
        if e.attr in ("shape", "ndim"):
            return 0
        return None
    if isinstance(e, ast.Compare):
        return 0
    if isinstance(e, ast.UnaryOp):
        return _deg(e.operand, env)
    if isinstance(e, ast.BinOp):
        l, r = _deg(e.left, env), _deg(e.right, env)
        if l is None or r is None:
            return None
        if isinstance(e.op, (ast.Add, ast.Sub)):
            return l if l == r else None
        if isinstance(e.op, ast.Mult):
            return l + r
        if isinstance(e.op, ast.Pow):
            c = const_value(e.right)
            return l * c if isinstance(c, (int, float)) else None
        if isinstance(e.op, ast.Div):
            return l - r
        return None
    if isinstance(e, ast.Call):
        fn = call_name(e) or ""
        if fn in ("np.sign", "np.invert", "np.logical_not"):
            return 0
        if fn in ("np.sqrt",):
            d = _deg(e.args[0], env)
            return None if d is None else d / 2
        if fn in ("np.amax", "np.amin", "np.fabs", "np.abs", "np.array", "np.asarray", "np.max", "np.min"):
            return _deg(e.args[0], env)
        if fn in ("np.zeros", "np.zeros_like", "np.empty"):
            return "any"
        if fn in env.get("@funcs", {}):
            return env["@funcs"][fn]
        return None
    return None


def _r4(ctx):
    prog = ctx.prog
    ctx.rule("R-C17-4", floor=12, what="equivalent stresses have degree 1, sign helpers degree 0")
    _tolerance_scan(ctx, "R-C17-4")
    order = ["eigenval", "_sign_trace", "_sign_abs_max_principal", "tresca", "mises", "max_principal", "min_principal",
             "principals", "abs_max_principal", "signed_tresca_trace", "signed_tresca_abs_max_principal",
             "signed_mises_trace", "signed_mises_abs_max_principal"]
    want = {k: 1 for k in order}
    want["_sign_trace"] = 0
    want["_sign_abs_max_principal"] = 0
    dom = DegreeDomain()
    for name in order:
        f = prog.func(EQ + ":" + name)
        d = dom._flat(Interp(prog, dom).run(f, [1] * len(f.params)))
        if d == want[name]:
            ctx.holds(f, f.node, "%s is positively homogeneous of degree %d" % (name, d))
        elif d is None or d == "any":
            raise AnalysisError("%s: homogeneity degree not derivable (an operation outside the degree domain)" % name)
        elif d == "mixed":
            ctx.violated(f, f.node, "%s combines quantities of different homogeneity degrees (e.g. a stress with a pure number): "
                         "it does not scale with the tensor as degree %d" % (name, want[name]), text="%s degree mixed" % name)
        else:
            ctx.violated(f, f.node, "%s has homogeneity degree %s, expected %d: it would not scale with the tensor" %
                         (name, d, want[name]), text="%s degree %s" % (name, d))


def _sign_map(prog, f):
    """Execute the sign helper on each of -1, 0, +1 (the value of its np.sign call) for the scalar and the array branch."""
    results = {}
    for branch, ndim in (("scalar", 0), ("array", 1)):
        res = {}
        for v0 in (-1, 0, 1):
            dom = SignValueDomain(v0, ndim)
            v = Interp(prog, dom).run(f, [("opaque", q) for q in f.params])
            res[v0] = int(v) if isinstance(v, (int, bool)) and not isinstance(v, float) else (int(v) if isinstance(v, float) and v == int(v) else None)
        results[branch] = res
    return results


def _r5(ctx):
    prog = ctx.prog
    ctx.rule("R-C17-5", floor=6, what="signed = sign helper x unsigned on the same components; helpers map 0 to +1")
    pairs = {"signed_tresca_trace": ("_sign_trace", "tresca"), "signed_tresca_abs_max_principal": ("_sign_abs_max_principal", "tresca"),
             "signed_mises_trace": ("_sign_trace", "mises"), "signed_mises_abs_max_principal": ("_sign_abs_max_principal", "mises")}
    for name, (h, u) in pairs.items():
        f = prog.func(EQ + ":" + name)
        r = [s for s in f.node.body if isinstance(s, ast.Return)][-1]
        v = r.value
        ok = isinstance(v, ast.BinOp) and isinstance(v.op, ast.Mult) and isinstance(v.left, ast.Call) and isinstance(v.right, ast.Call)
        if ok:
            calls = {call_name(v.left): v.left, call_name(v.right): v.right}
            ok = set(calls) == {h, u}
            if ok:
                hp = prog.func(EQ + ":" + h).params
                up = prog.func(EQ + ":" + u).params
                ok = [norm_text(a) for a in calls[h].args] == hp and [norm_text(a) for a in calls[u].args] == up and \
                    not calls[h].keywords and not calls[u].keywords
        if not ok and h == "_sign_abs_max_principal" and u == "tresca":
            # the same product written on shared eigenvalues (computed once, handed to private helpers): decided on the values of
            # the eigen domain - the function's value is sign indicator x the reduction tresca() itself evaluates to
            dom = EigenDomain()
            try:
                vf = Interp(prog, dom).run(f, [("p", q) for q in f.params])
                fh, fu = prog.func(EQ + ":" + h), prog.func(EQ + ":" + u)
                vh = Interp(prog, dom).run(fh, [("p", q) for q in fh.params])
                vu = Interp(prog, dom).run(fu, [("p", q) for q in fu.params])
            except Exception:
                vf = vh = vu = None
            if vf is not None and vh is not None and vu is not None and vf == ("signed", vh, vu):
                ctx.holds(f, r, "%s = value of %s x value of %s on the eigenvalues of the same tensor (eigen domain)" % (name, h, u))
                continue
        if ok:
            ctx.holds(f, r, "%s = %s(...) * %s(...) on the same components" % (name, h, u))
        else:
            ctx.violated(f, r, "%s is %s; expected %s(<its components>) * %s(<all components>)" % (name, norm_text(v), h, u))
    want = {-1: -1, 0: 1, 1: 1}
    for h in ("_sign_trace", "_sign_abs_max_principal"):
        f = prog.func(EQ + ":" + h)
        res = _sign_map(prog, f)
        # helpers without a scalar/array split give the same map twice
        for branch, m in res.items():
            if m == want:
                ctx.holds(f, f.node, "%s (%s branch): sign set {-1,0,+1} -> {-1,+1,+1}" % (h, branch))
            elif any(v is None for v in m.values()):
                raise AnalysisError("%s: sign helper uses an idiom the sign-set domain does not model (%s)" % (h, m))
            else:
                ctx.violated(f, f.node, "%s (%s branch) maps signs %s; a zero indicator must give +1" % (h, branch, m),
                             text="%s %s %s" % (h, branch, sorted(m.items())))
    tr = prog.func(EQ + ":_sign_trace")
    sg = [c for c in calls_in(tr.node) if call_name(c) == "np.sign"]
    if len(sg) == 1 and sorted(names_in(sg[0].args[0])) == sorted(tr.params) and \
            to_nf(sg[0].args[0]) == to_nf(parse_expr("+".join(tr.params))):
        ctx.holds(tr, sg[0], "trace sign = sign(s11 + s22 + s33)")
    else:
        ctx.violated(tr, sg[0] if sg else tr.node, "trace sign is not the sign of the sum of the three normal components")


def _r6(ctx):
    prog = ctx.prog
    ctx.rule("R-C17-6", floor=3, what="Tresca over all eigenvalue pairs; abs-max selects w_max iff w_max + w_min >= 0")
    dom = EigenDomain()
    f = prog.func(EQ + ":tresca")
    v = Interp(prog, dom).run(f, [("p", q) for q in f.params])
    allp = frozenset((frozenset((0, 1)), frozenset((0, 2)), frozenset((1, 2))))
    if isinstance(v, tuple) and v and v[0] == "maxabsdiff" and v[1] == allp:
        ctx.holds(f, f.node, "tresca = max over the three eigenvalue pairs |w_i - w_j| = w_max - w_min on every ordering")
    elif isinstance(v, tuple) and v and v[0] in ("maxabsdiff", "minabsdiff"):
        if not v[1]:
            # nothing of the form |w_i - w_j| was recognised among the candidates (table-driven loop, helper): no culprit, undecided
            raise AnalysisError("tresca: the candidates of the reduction were not recognised as eigenvalue differences")
        ctx.violated(f, f.node, "tresca takes the %s over the eigenvalue pairs %s; it must be the maximum over all three pairs" %
                     (v[0][:3], sorted(map(sorted, v[1]))), text="tresca pairs")
    else:
        raise AnalysisError("tresca: value %r not recognised as a reduction over eigenvalue differences" % (v,))
    a = prog.func(EQ + ":abs_max_principal")
    v = Interp(prog, dom).run(a, [("p", q) for q in a.params])
    if v == "ABSMAX":
        ctx.holds(a, a.node, "abs_max_principal = w_max where the sign indicator is >= 0, else w_min")
    elif v in ("MAX", "MIN") or (isinstance(v, tuple) and v and v[0] in ("sel", "BADSELECT")):
        ctx.violated(a, a.node, "abs_max_principal returns %s, not 'w_max where w_max + w_min >= 0, else w_min'" % (v,),
                     text="abs max selection")
    else:
        raise AnalysisError("abs_max_principal: value %r not recognised" % (v,))
    h = prog.func(EQ + ":_sign_abs_max_principal")
    v = Interp(prog, dom).run(h, [("p", q) for q in h.params])
    if v == "SGN1" or v == ("sign", "SUM"):
        ctx.holds(h, h.node, "indicator = sign(w_max + w_min): positive iff the eigenvalue of largest magnitude is positive")
    else:
        raise AnalysisError("_sign_abs_max_principal: value %r not recognised as sign(w_max + w_min)" % (v,))


# =========================================================================== variants

EP = "src/pylife/stress/equistress.py"


def variants():
    out = []

    def _conv_calls(tree, fname):
        f = find_func(tree, fname)
        return [st.value for st in f.body if isinstance(st, ast.Assign) and isinstance(st.value, ast.Call) and
                call_name(st.value) == "np.array" and any(k.arg == "dtype" for k in st.value.keywords)]

    def mises_keeps_dtype(tree):
        cs = _conv_calls(tree, "mises")
        for c in cs:
            c.keywords = [k for k in c.keywords if k.arg != "dtype"]
        return len(cs) == 6
    out.append(witness("mises squares the components in the caller's element type", EP, mises_keeps_dtype, "R-C17-10"))

    def trace_keeps_dtype(tree):
        cs = _conv_calls(tree, "_sign_trace")
        cs[1].keywords = []
        return len(cs) == 3
    out.append(witness("trace summed in the caller's element type", EP, trace_keeps_dtype, "R-C17-10"))

    def mises_int_dtype(tree):
        cs = _conv_calls(tree, "mises")
        for c in cs:
            c.keywords = [ast.keyword(arg="dtype", value=parse_expr("np.int64"))]
        return len(cs) == 6
    out.append(witness("mises converts the components to int64", EP, mises_int_dtype, "R-C17-10"))

    def mises_asarray_float(tree):
        cs = _conv_calls(tree, "mises")
        for c in cs:
            c.func = parse_expr("np.asarray")
            c.keywords = [ast.keyword(arg="dtype", value=parse_expr("float"))]
        return len(cs) == 6
    out.append(twin("mises converts with np.asarray(..., dtype=float)", EP, mises_asarray_float))

    def _mises_unpacked(conv):
        def edit(tree):
            f = find_func(tree, "mises")
            idx = [i for i, st in enumerate(f.body) if isinstance(st, ast.Assign) and isinstance(st.value, ast.Call) and
                   call_name(st.value) == "np.array" and st.value.keywords]
            if len(idx) != 6:
                return False
            f.body[idx[0]] = parse_stmt("s11, s22, s33, s12, s13, s23 = (%s for c in (s11, s22, s33, s12, s13, s23))" % conv)
            for i in reversed(idx[1:]):
                del f.body[i]
            return True
        return edit
    out.append(witness("mises converts all components in one generator without an element type", EP, _mises_unpacked("np.array(c)"), "R-C17-10"))
    out.append(twin("mises converts all components in one generator with dtype=float", EP, _mises_unpacked("np.asarray(c, dtype=float)")))

    def mises_result_type(tree):
        cs = _conv_calls(tree, "mises")
        for c in cs:
            c.keywords = [ast.keyword(arg="dtype", value=parse_expr("np.result_type(%s, np.float64)" % ast.unparse(c.args[0])))]
        return len(cs) == 6
    out.append(twin("mises promotes each component with np.result_type(x, np.float64)", EP, mises_result_type))

    def mises_expanded_clamped(tree):
        f = find_func(tree, "mises")
        i = next(k for k, st in enumerate(f.body) if isinstance(st, ast.Assign) and "np.sqrt" in ast.unparse(st.value))
        f.body[i:i + 1] = [parse_stmt("j2_times_3 = (s11 ** 2 + s22 ** 2 + s33 ** 2 - s11 * s22 - s22 * s33 - s33 * s11 + 3 * (s12 ** 2 + s13 ** 2 + s23 ** 2))"),
                           parse_stmt("%s = np.sqrt(np.maximum(j2_times_3, 0.0))" % f.body[i].targets[0].id)]
        return True
    out.append(witness("mises from the expanded form of 3 J2, negative rounding noise clamped", EP, mises_expanded_clamped, "R-C17-7"))

    def mises_astype(tree):
        f = find_func(tree, "mises")
        n = 0
        for st in f.body:
            if isinstance(st, ast.Assign) and isinstance(st.value, ast.Call) and call_name(st.value) == "np.array" and st.value.keywords:
                st.value = parse_expr("np.asarray(%s).astype(np.float64)" % st.targets[0].id)
                n += 1
        return n == 6
    out.append(twin("mises converts with np.asarray(x).astype(np.float64)", EP, mises_astype))

    def diag_fast_path(tree):
        f = find_func(tree, "eigenval")
        i = 1 if isinstance(f.body[0], ast.Expr) and isinstance(f.body[0].value, ast.Constant) else 0
        f.body.insert(i, parse_stmt("if not np.any(s12) and not np.any(s13) and not np.any(s13):\n"
                                    "    return np.sort(np.array([s11, s22, s33], dtype=float).T, axis=-1)"))
        return True
    out.append(witness("diagonal fast path that forgets s23", EP, diag_fast_path, "R-C17-2"))

    def diag_fast_path_ok(tree):
        f = find_func(tree, "eigenval")
        i = 1 if isinstance(f.body[0], ast.Expr) and isinstance(f.body[0].value, ast.Constant) else 0
        f.body.insert(i, parse_stmt("if not np.any(s12) and not np.any(s13) and not np.any(s23):\n"
                                    "    return np.sort(np.array([s11, s22, s33], dtype=float).T, axis=-1)"))
        return True
    out.append(twin("diagonal fast path that tests all three shear components", EP, diag_fast_path_ok))

    def trace_isclose(tree):
        f = find_func(tree, "_sign_trace")
        for n in ast.walk(f):
            if isinstance(n, ast.Compare) and isinstance(n.ops[0], ast.Eq) and const_value(n.comparators[0]) == 0 and \
                    isinstance(n._parent, ast.If):
                return replace_node(n, parse_expr("np.isclose(s11 + s22 + s33, 0.0)"))
        return False
    out.append(witness("zero trace decided with np.isclose", EP, trace_isclose, "R-C17-4"))

    def mises_expanded(tree):
        f = find_func(tree, "mises")
        for c in calls_in(f):
            if call_name(c) == "np.sqrt":
                c.args[0] = parse_expr("s11 ** 2 + s22 ** 2 + s33 ** 2 - s11 * s22 - s11 * s33 - s22 * s33 "
                                       "+ 3 * (s12 ** 2 + s13 ** 2 + s23 ** 2)")
                return True
        return False
    out.append(witness("Mises radicand in expanded form (can round below zero)", EP, mises_expanded, "R-C17-7"))

    def mises_squares_reordered(tree):
        f = find_func(tree, "mises")
        for c in calls_in(f):
            if call_name(c) == "np.sqrt":
                c.args[0] = parse_expr("((s11 - s22) ** 2 + (s22 - s33) ** 2 + (s33 - s11) ** 2) / 2 "
                                       "+ 3 * s12 * s12 + 3 * s13 ** 2 + 3 * s23 ** 2")
                return True
        return False
    out.append(twin("Mises radicand as another sum of squares", EP, mises_squares_reordered))

    def swap_cols(tree):
        f = find_func(tree, "StressTensorEquistress.mises")
        for n in ast.walk(f):
            if isinstance(n, ast.Constant) and n.value == "S13":
                n.value = "S23"
                return True
        return False
    out.append(witness("accessor mises: s13 <- S23", EP, swap_cols, "R-C17-1"))

    def other_func(tree):
        f = find_func(tree, "StressTensorEquistress.signed_tresca_trace")
        for c in calls_in(f, name="signed_tresca_trace"):
            c.func.id = "signed_tresca_abs_max_principal"
            return True
        return False
    out.append(witness("accessor calls another plain function", EP, other_func, "R-C17-1"))

    def princ_cols(tree):
        f = find_func(tree, "StressTensorEquistress.principals")
        d = [n for n in ast.walk(f) if isinstance(n, ast.Dict)][0]
        d.keys[0], d.keys[2] = d.keys[2], d.keys[0]
        return True
    out.append(witness("principals names min/max swapped", EP, princ_cols, "R-C17-1"))

    def consumed(tree):
        f = find_func(tree, "eigenval")
        lit = [n for n in ast.walk(f) if isinstance(n, ast.List) and len(n.elts) == 3 and isinstance(n.elts[0], ast.List)][0]
        lit.elts[0].elts[2] = ast.Name(id="s23", ctx=ast.Load())
        return True
    out.append(witness("consumed triangle entry (1,3) = s23", EP, consumed, "R-C17-2"))

    def no_T_edit(tree):
        # with .T removed the consumed triangle flips: editing the now-consumed lower triangle must fire
        f = find_func(tree, "eigenval")
        for s in f.body:
            if isinstance(s, ast.Assign) and isinstance(s.value, ast.Attribute) and s.value.attr == "T":
                s.value = s.value.value
                lit = s.value.args[0]
                lit.elts[2].elts[0] = ast.Name(id="s12", ctx=ast.Load())
                return True
        return False
    out.append(witness(".T removed and lower triangle edited", EP, no_T_edit, "R-C17-2"))

    def mises2(tree):
        f = find_func(tree, "mises")
        for n in ast.walk(f):
            if isinstance(n, ast.BinOp) and isinstance(n.op, ast.Mult) and const_value(n.left) == 3:
                n.left = ast.Constant(2)
                return True
        return False
    out.append(witness("3* -> 2* in mises", EP, mises2, "R-C17-3"))

    def mises_term(tree):
        f = find_func(tree, "mises")
        for n in ast.walk(f):
            if isinstance(n, ast.BinOp) and isinstance(n.op, ast.Mult) and norm_text(n) == "s22 * s33":
                n.left = ast.Name(id="s22", ctx=ast.Load())
                n.right = ast.Name(id="s23", ctx=ast.Load())
                return True
            if isinstance(n, ast.BinOp) and isinstance(n.op, ast.Sub) and norm_text(n) == "s22 - s33":
                n.right = ast.Name(id="s23", ctx=ast.Load())
                return True
        return False
    out.append(witness("one normal-stress term of the Mises radicand uses s23 for s33", EP, mises_term, "R-C17-3"))

    def tresca_sq(tree):
        f = find_func(tree, "tresca")
        f.body[-1].value = parse_expr("np.amax(w_diff, axis=0) ** 2")
        return True
    out.append(witness("tresca squared", EP, tresca_sq, "R-C17-4"))

    def sign_scaled(tree):
        f = find_func(tree, "_sign_trace")
        for c in calls_in(f, name="np.sign"):
            return replace_node(c, c.args[0])
        return False
    out.append(witness("sign helper returns the trace itself", EP, sign_scaled, "R-C17-4"))

    def zero_neg(tree):
        f = find_func(tree, "_sign_trace")
        for s in ast.walk(f):
            if isinstance(s, ast.Assign) and isinstance(s.targets[0], ast.Subscript) and const_value(s.value) == 1:
                s.value = parse_expr("-1")
                return True
        return False
    out.append(witness("sgn[sgn==0] = -1", EP, zero_neg, "R-C17-5"))

    def zero_scalar(tree):
        f = find_func(tree, "_sign_trace")
        for s in ast.walk(f):
            if isinstance(s, ast.If) and norm_text(s.test) == "sgn == 0":
                s.body = [ast.Pass()]
                return True
        return False
    out.append(witness("scalar branch keeps sign 0", EP, zero_scalar, "R-C17-5"))

    def zero_absmax(tree):
        f = find_func(tree, "_sign_abs_max_principal")
        for s in f.body:
            if isinstance(s, ast.Assign) and isinstance(s.value, ast.BinOp) and isinstance(s.value.op, ast.Add) and \
                    isinstance(s.targets[0], ast.Name) and s.targets[0].id == "sgn":
                s.value.op = ast.Sub()
                return True
        return False
    out.append(witness("abs-max sign: sgn - zero_bool", EP, zero_absmax, "R-C17-5"))

    def signed_wrong(tree):
        f = find_func(tree, "signed_mises_trace")
        f.body[-1].value.right.func.id = "tresca"
        return True
    out.append(witness("signed_mises_trace multiplies tresca", EP, signed_wrong, "R-C17-5"))

    def tresca_pair(tree):
        f = find_func(tree, "tresca")
        for s in f.body:
            if isinstance(s, ast.Assign) and isinstance(s.targets[0], ast.Subscript) and const_value(s.targets[0].slice) == 1:
                s.value = parse_expr("np.fabs(w[0] - w[1])")
                return True
        return False
    out.append(witness("tresca misses the (0,2) pair", EP, tresca_pair, "R-C17-6"))

    def absmax_strict(tree):
        f = find_func(tree, "abs_max_principal")
        for n in ast.walk(f):
            if isinstance(n, ast.Compare):
                n.ops = [ast.Gt()]
                n.comparators = [ast.Constant(1)]
                return True
        return False
    out.append(witness("abs_max selects w_max only for sign > 1", EP, absmax_strict, "R-C17-6"))

    # twins
    def unused_tri(tree):
        f = find_func(tree, "eigenval")
        lit = [n for n in ast.walk(f) if isinstance(n, ast.List) and len(n.elts) == 3 and isinstance(n.elts[0], ast.List)][0]
        lit.elts[2].elts[0] = ast.Constant(0.0)
        return True
    out.append(twin("ignored triangle entry replaced", EP, unused_tri))

    def mises_pairs(tree):
        f = find_func(tree, "mises")
        sq = [c for c in calls_in(f, name="np.sqrt")][0]
        sq.args[0] = parse_expr("0.5 * ((s11 - s22) ** 2 + (s22 - s33) ** 2 + (s33 - s11) ** 2) + 3 * (s12 ** 2 + s13 ** 2 + s23 ** 2)")
        return True
    out.append(twin("mises written with normal-stress differences", EP, mises_pairs))

    def positional(tree):
        f = find_func(tree, "StressTensorEquistress.tresca")
        c = [c for c in calls_in(f, name="tresca")][0]
        order = {k.arg: k.value for k in c.keywords}
        c.args = [order[p] for p in COMPS]
        c.keywords = []
        return True
    out.append(twin("accessor passes components positionally", EP, positional))
    return out
