"""C17 — equivalent stresses (structural and algebraic clauses)."""
from __future__ import annotations

import ast
from fractions import Fraction

from ..astutil import (call_name, calls_in, const_value, find_func, is_self_attr, names_in, parse_expr, parse_stmt,
                       replace_node, tuple_assign_pairs)
from ..frontend import AnalysisError, walk_function, walk_stmts
from ..nf import RF, to_nf, NFUnsupported
from ..report import norm_text
from ..witness import witness, twin

LEVEL = "other"
EQ = "pylife.stress.equistress"
COMPS = ["s11", "s22", "s33", "s12", "s13", "s23"]
EXPLANATION = (
    "Static decision of structural/algebraic clauses of C17. R-C17-1: every accessor method calls the plain function of the "
    "same name (principals -> eigenval) binding parameter s_ij to column 'S<ij>' (keyword or position), and principals names "
    "the ascending eigenvalue columns min/med/max. R-C17-2: the 3x3 literal in eigenval, followed through .T and eigvalsh's "
    "triangle, places s_ij at (i,j) of the *consumed* triangle and the diagonal (the ignored triangle is not constrained). "
    "R-C17-3: the radicand of mises equals 3/2*tr(dev(S)^2) as a polynomial in the six components - a form that is rotation "
    "invariant by construction and equals 1/2*sum (s_i-s_j)^2. R-C17-4: degree typing shows every equivalent stress is "
    "positively homogeneous of degree 1 and the sign helpers of degree 0. R-C17-5: each signed variant is sign_helper x "
    "unsigned on the same components, and a sign-set domain over {-1,0,+1} shows both helpers map 0 to +1 (scalar and array "
    "branch). R-C17-6: Tresca takes the maximum over all three eigenvalue pairs (= largest minus smallest on every "
    "ordering) and abs_max_principal selects the largest eigenvalue iff w_max + w_min >= 0. Not decided: Mises <= Tresca <= "
    "2/sqrt(3) Mises, eigen-solver accuracy.")
EXPLANATION += (' R-C17-7: every square root in the equivalent-stress module takes a radicand that is non-negative by its form (sums and products of even powers, x*x, abs, non-negative constants; no differences), so that cancellation cannot round it below zero (hydrostatic states).')
ASSUMPTIONS = ["np.linalg.eigvalsh returns ascending eigenvalues of the symmetric matrix given by its UPLO triangle (default 'L')",
               "numpy stacks a 3x3 list of arrays as (3,3,N); .T reverses all axes"]


def run(ctx):
    for r in (_r1, _r2, _r3, _r4, _r5, _r6, _r7):
        ctx.attempt(r)


def _r1(ctx):
    prog = ctx.prog
    ctx.rule("R-C17-1", floor=60, what="accessor methods delegate to the plain function with s_ij <- column S<ij>")
    ci = prog.cls(EQ + ":StressTensorEquistress")
    n = 0
    for name, defs in ci.methods.items():
        fi = defs[-1]
        target = "eigenval" if name == "principals" else name
        if name.startswith("_"):
            continue
        tf = prog.functions.get(EQ + ":" + target)
        if tf is None:
            ctx.violated(fi, fi.node, "accessor method %s has no plain function %s" % (name, target), text=name)
            continue
        cs = [c for c in calls_in(fi.node) if isinstance(c.func, ast.Name) and tf.key in prog.resolve_call(fi, c)]
        if len(cs) != 1:
            ctx.violated(fi, fi.node, "accessor method %s does not call the plain function %s exactly once" % (name, target),
                         text=name)
            continue
        c = cs[0]
        binding = {}
        for i, a in enumerate(c.args):
            if i < len(tf.params):
                binding[tf.params[i]] = a
        for k in c.keywords:
            binding[k.arg] = k.value
        for p in tf.params:
            a = binding.get(p)
            col = None
            if a is not None:
                for x in ast.walk(a):
                    if isinstance(x, ast.Subscript) and is_self_attr(x.value, "_obj") and isinstance(const_value(x.slice), str):
                        col = const_value(x.slice)
            want = "S" + p[1:]
            n += 1
            if col == want:
                ctx.holds(fi, c, "%s: %s <- column %s" % (name, p, col))
            else:
                ctx.violated(fi, c, "%s: parameter %s receives column %r, expected %r" % (name, p, col, want),
                             text="%s %s<-%s" % (name, p, col))
        # result wrapping: name / index
        if name == "principals":
            d = [x for x in ast.walk(fi.node) if isinstance(x, ast.Dict)]
            ok = False
            if d:
                m = {const_value(k): norm_text(v.slice) for k, v in zip(d[0].keys, d[0].values) if isinstance(v, ast.Subscript)}
                ok = m == {"min_principal": "(..., 0)", "med_principal": "(..., 1)", "max_principal": "(..., 2)"}
            if ok:
                ctx.holds(fi, d[0], "principals: ascending eigenvalues named min/med/max")
            else:
                ctx.violated(fi, d[0] if d else fi.node, "principals does not name the ascending eigenvalue columns "
                             "min_principal/med_principal/max_principal = [...,0]/[...,1]/[...,2]", text="principals columns")
        else:
            r = [s for s in fi.node.body if isinstance(s, ast.Return)]
            idx = None
            if r and isinstance(r[0].value, ast.Call):
                idx = next((k.value for k in r[0].value.keywords if k.arg == "index"), None)
            if idx is not None and norm_text(idx) == "self._obj.index":
                ctx.holds(fi, r[0], "%s: result carries the object's index (row by row)" % name)
            else:
                ctx.violated(fi, r[0] if r else fi.node, "%s: result does not carry the object's index" % name, text=name + " index")


def _r2(ctx):
    prog = ctx.prog
    ctx.rule("R-C17-2", floor=7, what="tensor assembly: consumed triangle and diagonal hold s_ij at (i,j)")
    f = prog.func(EQ + ":eigenval")
    lit = [n for n in ast.walk(f.node) if isinstance(n, ast.List) and len(n.elts) == 3 and
           all(isinstance(r, ast.List) and len(r.elts) == 3 for r in n.elts)]
    if len(lit) != 1:
        raise AnalysisError("eigenval: 3x3 literal not found")
    M = [[norm_text(c) for c in r.elts] for r in lit[0].elts]
    # follow .T and UPLO
    transposed = False
    p = getattr(lit[0], "_parent", None)
    while p is not None and not isinstance(p, ast.stmt):
        if isinstance(p, ast.Attribute) and p.attr == "T":
            transposed = not transposed
        p = getattr(p, "_parent", None)
    ev = [c for c in calls_in(f.node) if (call_name(c) or "").endswith("eigvalsh")]
    if len(ev) != 1:
        raise AnalysisError("eigenval: eigvalsh call not found")
    uplo = next((const_value(k.value) for k in ev[0].keywords if k.arg == "UPLO"), "L")
    arg = ev[0].args[0]
    if isinstance(arg, ast.Attribute) and arg.attr == "T":
        transposed = not transposed
    lower = (uplo == "L")
    # consumed entries of the matrix eigvalsh sees: (i,j) with i>=j if lower ; in terms of the literal: [j][i] if transposed
    for i in range(3):
        for j in range(3):
            consumed = (i >= j) if lower else (i <= j)
            if not consumed:
                continue
            r, c = (j, i) if transposed else (i, j)
            a, b = sorted((i + 1, j + 1))
            want = "s%d%d" % (a, b)
            if M[r][c] == want:
                ctx.holds(f, lit[0], "consumed entry (%d,%d) = literal[%d][%d] = %s" % (i + 1, j + 1, r, c, want))
            else:
                ctx.violated(f, lit[0], "tensor entry (%d,%d) consumed by eigvalsh is %s, expected %s" % (i + 1, j + 1, M[r][c], want),
                             text="entry %d%d=%s" % (i + 1, j + 1, M[r][c]))
    # every result of eigenval comes from the eigen-solver; a short cut around it must test ALL off-diagonal components
    st_ev = ev[0]
    while not isinstance(st_ev, ast.stmt):
        st_ev = st_ev._parent
    shear = [q for q in f.params if len(q) == 3 and q[0] == "s" and q[1] != q[2]]
    for r_ in [x for x in walk_function(f.node) if isinstance(x, ast.Return) and x.value is not None]:
        uses_solver = any(x is ev[0] for x in ast.walk(r_)) or (isinstance(r_.value, ast.Name) and isinstance(st_ev, ast.Assign) and
                                                                   any(isinstance(t, ast.Name) and t.id == r_.value.id for t in st_ev.targets))
        if uses_solver:
            ctx.holds(f, r_, "eigenval returns the eigen-solver's result")
            continue
        par = r_._parent
        tested = set()
        if isinstance(par, ast.If):
            for n_ in ast.walk(par.test):
                if isinstance(n_, ast.Name) and n_.id in shear:
                    tested.add(n_.id)
        if set(shear) <= tested and shear:
            ctx.holds(f, r_, "short cut without the eigen-solver tests all off-diagonal components %s" % sorted(tested))
        else:
            ctx.violated(f, r_, "eigenval returns %s without the eigen-solver although only %s of the off-diagonal components %s "
                         "are tested: a tensor with a non-zero %s is treated as diagonal, principal stresses (Tresca, max/min "
                         "principal) ignore that shear and rotation invariance is lost" %
                         (norm_text(r_.value)[:60], sorted(tested) or "none", shear, "/".join(sorted(set(shear) - tested))),
                         text="shortcut around eigvalsh")


def _mises_reference():
    s = {c: RF.sym(c) for c in COMPS}
    S = [[s["s11"], s["s12"], s["s13"]], [s["s12"], s["s22"], s["s23"]], [s["s13"], s["s23"], s["s33"]]]
    tr = S[0][0] + S[1][1] + S[2][2]
    third = RF.const(Fraction(1, 3))
    tot = RF.const(0)
    for i in range(3):
        for j in range(3):
            d = S[i][j] - (tr * third if i == j else RF.const(0))
            tot = tot + d * d
    return tot * RF.const(Fraction(3, 2))


def _r3(ctx):
    prog = ctx.prog
    ctx.rule("R-C17-3", floor=1, what="mises^2 == 3/2 tr(dev(S)^2)")
    f = prog.func(EQ + ":mises")
    sq = [c for c in calls_in(f.node) if call_name(c) in ("np.sqrt", "numpy.sqrt")]
    if len(sq) != 1:
        raise AnalysisError("mises: square root not found")
    try:
        got = to_nf(sq[0].args[0])
    except NFUnsupported as e:
        raise AnalysisError("mises radicand outside the fragment: %s" % e)
    ret = [s for s in f.node.body if isinstance(s, ast.Return)][-1]
    st = sq[0]
    while not isinstance(st, ast.stmt):
        st = st._parent
    returned = isinstance(ret.value, ast.Name) and isinstance(st, ast.Assign) and isinstance(st.targets[0], ast.Name) and \
        st.targets[0].id == ret.value.id or any(x is sq[0] for x in ast.walk(ret))
    if got == _mises_reference() and returned:
        ctx.holds(f, st, "radicand == 3/2 tr(dev^2) (rotation-invariant form)", {"nf": repr(got)})
    else:
        ctx.violated(f, st, "mises radicand %r is not 3/2*tr(dev(S)^2) = %r: the result is no longer the von Mises invariant"
                     % (got, _mises_reference()))


def _manifest_nonneg(e):
    """True if the expression is non-negative in floating point for every real input by its very form: even powers,
    x*x, abs, non-negative constants, sums and products of such.  A difference is never accepted (cancellation can round
    below zero)."""
    if isinstance(e, ast.Constant):
        return isinstance(e.value, (int, float)) and not isinstance(e.value, bool) and e.value >= 0
    if isinstance(e, ast.BinOp):
        if isinstance(e.op, ast.Pow):
            k = const_value(e.right)
            return isinstance(k, int) and not isinstance(k, bool) and k % 2 == 0 and k >= 0
        if isinstance(e.op, ast.Add):
            return _manifest_nonneg(e.left) and _manifest_nonneg(e.right)
        if isinstance(e.op, ast.Mult):
            fac = []

            def flat(x):
                if isinstance(x, ast.BinOp) and isinstance(x.op, ast.Mult):
                    flat(x.left)
                    flat(x.right)
                else:
                    fac.append(x)
            flat(e)
            rest = {}
            for x in fac:
                if not _manifest_nonneg(x):
                    rest[norm_text(x)] = rest.get(norm_text(x), 0) + 1
            return all(k % 2 == 0 for k in rest.values())
        if isinstance(e.op, ast.Div):
            return _manifest_nonneg(e.left) and _manifest_nonneg(e.right)
        return False
    if isinstance(e, ast.Call):
        fn = call_name(e) or ""
        if fn in ("np.abs", "abs", "np.fabs", "np.absolute", "np.square"):
            return True
        if fn in ("np.maximum", "max", "np.fmax") and len(e.args) == 2:
            return any(_manifest_nonneg(a) for a in e.args)
        if fn in ("np.sqrt",) and e.args:
            return True
        if fn in ("np.sum", "sum") and e.args:
            return _manifest_nonneg(e.args[0])
        return False
    if isinstance(e, ast.UnaryOp) and isinstance(e.op, ast.UAdd):
        return _manifest_nonneg(e.operand)
    return False


def _tolerance_scan(ctx, rule):
    """absolute tolerances / rounding applied to stress-valued quantities break the scaling clause"""
    prog = ctx.prog
    n = 0
    for key, fi in sorted(prog.functions.items()):
        if fi.module.name != EQ:
            continue
        for c in calls_in(fi.node):
            fn = call_name(c) or ""
            if fn in ("np.isclose", "np.allclose", "math.isclose", "np.round", "np.around", "round", "np.rint", "np.trunc"):
                st = c
                while not isinstance(st, ast.stmt):
                    st = st._parent
                n += 1
                ctx.violated(fi, st, "%s: %s applies an absolute tolerance / rounding to a stress-valued quantity: the outcome "
                             "changes when the tensor is scaled by a positive factor (e.g. a trace of -130 times 2**-40 is "
                             "treated as zero)" % (fi.name, norm_text(c)), rule=rule, text=norm_text(c))
    return n


def _r7(ctx):
    """Every square root in the equivalent-stress module takes a radicand that is non-negative by its form (sum of squares).
    An algebraically non-negative difference of products (s11^2 + ... - s11*s22 - ...) can round below zero - for hydrostatic
    states the exact value is 0 - and then the square root is NaN."""
    prog = ctx.prog
    ctx.rule("R-C17-7", floor=1, what="radicands of square roots are non-negative by form (no cancellation below zero)")
    n = 0
    for key, fi in sorted(prog.functions.items()):
        if fi.module.name != EQ:
            continue
        for c in calls_in(fi.node):
            if (call_name(c) or "") in ("np.sqrt", "numpy.sqrt", "math.sqrt") and c.args or \
                    ((call_name(c) or "") in ("np.power", "pow") and len(c.args) == 2 and const_value(c.args[1]) == 0.5):
                n += 1
                st = c
                while not isinstance(st, ast.stmt):
                    st = st._parent
                if _manifest_nonneg(c.args[0]):
                    ctx.holds(fi, st, "%s: radicand %s is a sum of squares" % (fi.name, norm_text(c.args[0])[:80]))
                else:
                    ctx.violated(fi, st, "%s: the radicand %s is not non-negative by its form; where it is exactly zero "
                                 "(hydrostatic tensors, e.g. mises(0.7, 0.7, 0.7, 0, 0, 0)) rounding can make it negative and the "
                                 "result NaN" % (fi.name, norm_text(c.args[0])[:160]), text="radicand " + fi.name)
    if n == 0:
        raise AnalysisError("no square root found in the equivalent-stress module")


def _deg(e, env):
    if isinstance(e, ast.Constant):
        return 0
    if isinstance(e, ast.Name):
        return env.get(e.id)
    if isinstance(e, ast.Subscript):
        return _deg(e.value, env)
    if isinstance(e, ast.Attribute):
        if e.attr == "T":
            return _deg(e.value, env)
        if e.attr in ("shape", "ndim"):
            return 0
        return None
    if isinstance(e, ast.Compare):
        return 0
    if isinstance(e, ast.UnaryOp):
        return _deg(e.operand, env)
    if isinstance(e, ast.BinOp):
        l, r = _deg(e.left, env), _deg(e.right, env)
        if l is None or r is None:
            return None
        if isinstance(e.op, (ast.Add, ast.Sub)):
            return l if l == r else None
        if isinstance(e.op, ast.Mult):
            return l + r
        if isinstance(e.op, ast.Pow):
            c = const_value(e.right)
            return l * c if isinstance(c, (int, float)) else None
        if isinstance(e.op, ast.Div):
            return l - r
        return None
    if isinstance(e, ast.Call):
        fn = call_name(e) or ""
        if fn in ("np.sign", "np.invert", "np.logical_not"):
            return 0
        if fn in ("np.sqrt",):
            d = _deg(e.args[0], env)
            return None if d is None else d / 2
        if fn in ("np.amax", "np.amin", "np.fabs", "np.abs", "np.array", "np.asarray", "np.max", "np.min"):
            return _deg(e.args[0], env)
        if fn in ("np.zeros", "np.zeros_like", "np.empty"):
            return "any"
        if fn in env.get("@funcs", {}):
            return env["@funcs"][fn]
        return None
    return None


def _r4(ctx):
    prog = ctx.prog
    ctx.rule("R-C17-4", floor=12, what="equivalent stresses have degree 1, sign helpers degree 0")
    _tolerance_scan(ctx, "R-C17-4")
    m = prog.module(EQ)
    funcs = {}
    order = ["eigenval", "_sign_trace", "_sign_abs_max_principal", "tresca", "mises", "max_principal", "min_principal",
             "principals", "abs_max_principal", "signed_tresca_trace", "signed_tresca_abs_max_principal",
             "signed_mises_trace", "signed_mises_abs_max_principal"]
    want = {k: 1 for k in order}
    want["_sign_trace"] = 0
    want["_sign_abs_max_principal"] = 0
    for name in order:
        f = prog.func(EQ + ":" + name)
        env = {p: 1 for p in f.params}
        env["@funcs"] = dict(funcs)
        if name == "eigenval":
            funcs[name] = 1     # eigenvalues of a matrix whose entries have degree 1 (assumption on eigvalsh)
            ctx.holds(f, f.node, "eigenval: eigenvalues of a matrix of plain components (R-C17-2) have degree 1")
            continue
        ret = []

        def block(body, env):
            for s in body:
                if isinstance(s, ast.Assign):
                    for t, v in tuple_assign_pairs(s):
                        dv = _deg(v, env)
                        if isinstance(t, ast.Name):
                            if dv is None:
                                env[t.id] = None
                            else:
                                env[t.id] = dv
                        elif isinstance(t, ast.Subscript) and isinstance(t.value, ast.Name):
                            cur = env.get(t.value.id)
                            if cur == "any" and dv is not None:
                                env[t.value.id] = dv
                            elif cur != dv and not (cur == 0 and dv == 0):
                                env[t.value.id] = None
                elif isinstance(s, ast.If):
                    e1, e2 = dict(env), dict(env)
                    block(s.body, e1)
                    block(s.orelse, e2)
                    for k in set(e1) | set(e2):
                        if k == "@funcs":
                            continue
                        env[k] = e1.get(k) if e1.get(k) == e2.get(k) else None
                elif isinstance(s, ast.Return) and s.value is not None:
                    ret.append(_deg(s.value, env))
        block(f.node.body, env)
        d = ret[0] if ret and all(r == ret[0] for r in ret) else None
        funcs[name] = d
        if d == want[name]:
            ctx.holds(f, f.node, "%s is positively homogeneous of degree %d" % (name, d))
        else:
            ctx.violated(f, f.node, "%s has homogeneity degree %s, expected %d: it would not scale with the tensor" %
                         (name, d, want[name]), text="%s degree %s" % (name, d))


def _sign_map(prog, f):
    """Execute the sign helper abstractly on each of -1, 0, +1 for the scalar and the array branch."""
    out = {}
    sgn_name = None
    stmts = list(f.node.body)
    results = {}
    for branch in ("scalar", "array"):
        res = {}
        for v0 in (-1, 0, 1):
            env = {}
            val = None

            def ev(e):
                if isinstance(e, ast.Name):
                    return env.get(e.id)
                if isinstance(e, ast.Constant):
                    return e.value
                if isinstance(e, ast.Call):
                    fn = call_name(e)
                    if fn in ("np.sign",):
                        return ("SIGN",)
                    if fn in ("np.array", "np.asarray") and e.args:
                        return ev(e.args[0])
                    return None
                if isinstance(e, ast.Compare) and len(e.ops) == 1:
                    l, r = ev(e.left), ev(e.comparators[0])
                    if isinstance(l, (int, bool)) and isinstance(r, (int, bool)):
                        op = e.ops[0]
                        return {ast.Eq: l == r, ast.NotEq: l != r, ast.GtE: l >= r, ast.Gt: l > r, ast.Lt: l < r,
                                ast.LtE: l <= r}.get(type(op))
                    return None
                if isinstance(e, ast.BinOp) and isinstance(e.op, (ast.Add, ast.Sub, ast.Mult)):
                    l, r = ev(e.left), ev(e.right)
                    if isinstance(l, (int, bool)) and isinstance(r, (int, bool)):
                        if isinstance(e.op, ast.Add):
                            return int(l) + int(r)
                        if isinstance(e.op, ast.Sub):
                            return int(l) - int(r)
                        return int(l) * int(r)
                    return None
                if isinstance(e, ast.UnaryOp) and isinstance(e.op, ast.USub):
                    v = ev(e.operand)
                    return -v if isinstance(v, (int, bool)) else None
                if isinstance(e, ast.Attribute) and e.attr == "ndim":
                    return 0 if branch == "scalar" else 1
                return None

            def run_block(body):
                for s in body:
                    if isinstance(s, ast.Assign) and isinstance(s.targets[0], ast.Name):
                        v = ev(s.value)
                        if v == ("SIGN",):
                            v = v0
                        env[s.targets[0].id] = v
                    elif isinstance(s, ast.Assign) and isinstance(s.targets[0], ast.Subscript) and \
                            isinstance(s.targets[0].value, ast.Name):
                        # x[mask] = c
                        name = s.targets[0].value.id
                        mask = ev(s.targets[0].slice)
                        if mask is True:
                            env[name] = ev(s.value)
                        elif mask is None:
                            env[name] = None
                    elif isinstance(s, ast.If):
                        t = ev(s.test)
                        if t is None:
                            env.clear()
                            return
                        run_block(s.body if t else s.orelse)
                    elif isinstance(s, ast.Return):
                        env["@ret"] = ev(s.value)
                        return
            run_block(stmts)
            res[v0] = env.get("@ret")
        results[branch] = res
    return results


def _r5(ctx):
    prog = ctx.prog
    ctx.rule("R-C17-5", floor=6, what="signed = sign helper x unsigned on the same components; helpers map 0 to +1")
    pairs = {"signed_tresca_trace": ("_sign_trace", "tresca"), "signed_tresca_abs_max_principal": ("_sign_abs_max_principal", "tresca"),
             "signed_mises_trace": ("_sign_trace", "mises"), "signed_mises_abs_max_principal": ("_sign_abs_max_principal", "mises")}
    for name, (h, u) in pairs.items():
        f = prog.func(EQ + ":" + name)
        r = [s for s in f.node.body if isinstance(s, ast.Return)][-1]
        v = r.value
        ok = isinstance(v, ast.BinOp) and isinstance(v.op, ast.Mult) and isinstance(v.left, ast.Call) and isinstance(v.right, ast.Call)
        if ok:
            calls = {call_name(v.left): v.left, call_name(v.right): v.right}
            ok = set(calls) == {h, u}
            if ok:
                hp = prog.func(EQ + ":" + h).params
                up = prog.func(EQ + ":" + u).params
                ok = [norm_text(a) for a in calls[h].args] == hp and [norm_text(a) for a in calls[u].args] == up and \
                    not calls[h].keywords and not calls[u].keywords
        if ok:
            ctx.holds(f, r, "%s = %s(...) * %s(...) on the same components" % (name, h, u))
        else:
            ctx.violated(f, r, "%s is %s; expected %s(<its components>) * %s(<all components>)" % (name, norm_text(v), h, u))
    want = {-1: -1, 0: 1, 1: 1}
    for h in ("_sign_trace", "_sign_abs_max_principal"):
        f = prog.func(EQ + ":" + h)
        res = _sign_map(prog, f)
        # helpers without a scalar/array split give the same map twice
        for branch, m in res.items():
            if m == want:
                ctx.holds(f, f.node, "%s (%s branch): sign set {-1,0,+1} -> {-1,+1,+1}" % (h, branch))
            elif any(v is None for v in m.values()):
                raise AnalysisError("%s: sign helper uses an idiom the sign-set domain does not model (%s)" % (h, m))
            else:
                ctx.violated(f, f.node, "%s (%s branch) maps signs %s; a zero indicator must give +1" % (h, branch, m),
                             text="%s %s %s" % (h, branch, sorted(m.items())))
    tr = prog.func(EQ + ":_sign_trace")
    sg = [c for c in calls_in(tr.node) if call_name(c) == "np.sign"]
    if len(sg) == 1 and sorted(names_in(sg[0].args[0])) == sorted(tr.params) and \
            to_nf(sg[0].args[0]) == to_nf(parse_expr("+".join(tr.params))):
        ctx.holds(tr, sg[0], "trace sign = sign(s11 + s22 + s33)")
    else:
        ctx.violated(tr, sg[0] if sg else tr.node, "trace sign is not the sign of the sum of the three normal components")


def _r6(ctx):
    prog = ctx.prog
    ctx.rule("R-C17-6", floor=3, what="Tresca over all eigenvalue pairs; abs-max selects w_max iff w_max + w_min >= 0")
    f = prog.func(EQ + ":tresca")
    pairs = set()
    for s in f.node.body:
        if isinstance(s, ast.Assign) and isinstance(s.targets[0], ast.Subscript) and isinstance(s.value, ast.Call) and \
                call_name(s.value) in ("np.fabs", "np.abs", "abs"):
            a = s.value.args[0]
            if isinstance(a, ast.BinOp) and isinstance(a.op, ast.Sub) and isinstance(a.left, ast.Subscript) and \
                    isinstance(a.right, ast.Subscript):
                pairs.add(frozenset((const_value(a.left.slice), const_value(a.right.slice))))
    r = [s for s in f.node.body if isinstance(s, ast.Return)][-1]
    red = isinstance(r.value, ast.Call) and call_name(r.value) in ("np.amax", "np.max") and \
        next((const_value(k.value) for k in r.value.keywords if k.arg == "axis"), None) == 0
    if pairs == {frozenset((0, 1)), frozenset((0, 2)), frozenset((1, 2))} and red:
        ctx.holds(f, r, "tresca = max over the three eigenvalue pairs |w_i - w_j| = w_max - w_min on every ordering")
    else:
        ctx.violated(f, r, "tresca takes %s over pairs %s; it must be the maximum over all three eigenvalue pairs" %
                     (norm_text(r.value), sorted(map(sorted, pairs))))
    a = prog.func(EQ + ":abs_max_principal")
    env = {}
    for s in a.node.body:
        if isinstance(s, ast.Assign) and isinstance(s.targets[0], ast.Name):
            env[s.targets[0].id] = s.value
    r = [s for s in a.node.body if isinstance(s, ast.Return)][-1]
    try:
        wmax = [k for k, v in env.items() if isinstance(v, ast.Call) and call_name(v) == "np.amax"][0]
        wmin = [k for k, v in env.items() if isinstance(v, ast.Call) and call_name(v) == "np.amin"][0]
        b = [k for k, v in env.items() if isinstance(v, ast.Call) and call_name(v) == "np.array" and
             isinstance(v.args[0], ast.Compare)][0]
        cmp_ = env[b].args[0]
        sign_src = env[cmp_.left.id]
        ok = isinstance(cmp_.ops[0], ast.GtE) and const_value(cmp_.comparators[0]) == 0 and \
            call_name(sign_src) == "_sign_abs_max_principal" and \
            norm_text(r.value) in ("%s * %s + %s * np.invert(%s)" % (wmax, b, wmin, b),)
    except (IndexError, KeyError, AttributeError):
        ok = False
    if ok:
        ctx.holds(a, r, "abs_max_principal = w_max where sign >= 0 else w_min")
    else:
        ctx.violated(a, r, "abs_max_principal is not 'w_max where the sign indicator is >= 0, else w_min'")
    h = prog.func(EQ + ":_sign_abs_max_principal")
    sg = [c for c in calls_in(h.node) if call_name(c) == "np.sign"]
    env = {s.targets[0].id: s.value for s in h.node.body if isinstance(s, ast.Assign) and isinstance(s.targets[0], ast.Name)}
    ok = False
    if len(sg) == 1 and isinstance(sg[0].args[0], ast.BinOp) and isinstance(sg[0].args[0].op, ast.Add):
        l, r_ = sg[0].args[0].left, sg[0].args[0].right
        fl = {call_name(env.get(x.id)) for x in (l, r_) if isinstance(x, ast.Name) and isinstance(env.get(x.id), ast.Call)}
        ok = fl == {"np.amax", "np.amin"}
    if ok:
        ctx.holds(h, sg[0], "indicator = sign(w_max + w_min): positive iff the eigenvalue of largest magnitude is positive")
    else:
        ctx.violated(h, sg[0] if sg else h.node, "abs-max sign indicator is not sign(w_max + w_min)")


# =========================================================================== variants

EP = "src/pylife/stress/equistress.py"


def variants():
    out = []

    def diag_fast_path(tree):
        f = find_func(tree, "eigenval")
        i = 1 if isinstance(f.body[0], ast.Expr) and isinstance(f.body[0].value, ast.Constant) else 0
        f.body.insert(i, parse_stmt("if not np.any(s12) and not np.any(s13) and not np.any(s13):\n"
                                    "    return np.sort(np.array([s11, s22, s33], dtype=float).T, axis=-1)"))
        return True
    out.append(witness("diagonal fast path that forgets s23", EP, diag_fast_path, "R-C17-2"))

    def diag_fast_path_ok(tree):
        f = find_func(tree, "eigenval")
        i = 1 if isinstance(f.body[0], ast.Expr) and isinstance(f.body[0].value, ast.Constant) else 0
        f.body.insert(i, parse_stmt("if not np.any(s12) and not np.any(s13) and not np.any(s23):\n"
                                    "    return np.sort(np.array([s11, s22, s33], dtype=float).T, axis=-1)"))
        return True
    out.append(twin("diagonal fast path that tests all three shear components", EP, diag_fast_path_ok))

    def trace_isclose(tree):
        f = find_func(tree, "_sign_trace")
        for n in ast.walk(f):
            if isinstance(n, ast.Compare) and isinstance(n.ops[0], ast.Eq) and const_value(n.comparators[0]) == 0 and \
                    isinstance(n._parent, ast.If):
                return replace_node(n, parse_expr("np.isclose(s11 + s22 + s33, 0.0)"))
        return False
    out.append(witness("zero trace decided with np.isclose", EP, trace_isclose, "R-C17-4"))

    def mises_expanded(tree):
        f = find_func(tree, "mises")
        for c in calls_in(f):
            if call_name(c) == "np.sqrt":
                c.args[0] = parse_expr("s11 ** 2 + s22 ** 2 + s33 ** 2 - s11 * s22 - s11 * s33 - s22 * s33 "
                                       "+ 3 * (s12 ** 2 + s13 ** 2 + s23 ** 2)")
                return True
        return False
    out.append(witness("Mises radicand in expanded form (can round below zero)", EP, mises_expanded, "R-C17-7"))

    def mises_squares_reordered(tree):
        f = find_func(tree, "mises")
        for c in calls_in(f):
            if call_name(c) == "np.sqrt":
                c.args[0] = parse_expr("((s11 - s22) ** 2 + (s22 - s33) ** 2 + (s33 - s11) ** 2) / 2 "
                                       "+ 3 * s12 * s12 + 3 * s13 ** 2 + 3 * s23 ** 2")
                return True
        return False
    out.append(twin("Mises radicand as another sum of squares", EP, mises_squares_reordered))

    def swap_cols(tree):
        f = find_func(tree, "StressTensorEquistress.mises")
        for n in ast.walk(f):
            if isinstance(n, ast.Constant) and n.value == "S13":
                n.value = "S23"
                return True
        return False
    out.append(witness("accessor mises: s13 <- S23", EP, swap_cols, "R-C17-1"))

    def other_func(tree):
        f = find_func(tree, "StressTensorEquistress.signed_tresca_trace")
        for c in calls_in(f, name="signed_tresca_trace"):
            c.func.id = "signed_tresca_abs_max_principal"
            return True
        return False
    out.append(witness("accessor calls another plain function", EP, other_func, "R-C17-1"))

    def princ_cols(tree):
        f = find_func(tree, "StressTensorEquistress.principals")
        d = [n for n in ast.walk(f) if isinstance(n, ast.Dict)][0]
        d.keys[0], d.keys[2] = d.keys[2], d.keys[0]
        return True
    out.append(witness("principals names min/max swapped", EP, princ_cols, "R-C17-1"))

    def consumed(tree):
        f = find_func(tree, "eigenval")
        lit = [n for n in ast.walk(f) if isinstance(n, ast.List) and len(n.elts) == 3 and isinstance(n.elts[0], ast.List)][0]
        lit.elts[0].elts[2] = ast.Name(id="s23", ctx=ast.Load())
        return True
    out.append(witness("consumed triangle entry (1,3) = s23", EP, consumed, "R-C17-2"))

    def no_T_edit(tree):
        # with .T removed the consumed triangle flips: editing the now-consumed lower triangle must fire
        f = find_func(tree, "eigenval")
        for s in f.body:
            if isinstance(s, ast.Assign) and isinstance(s.value, ast.Attribute) and s.value.attr == "T":
                s.value = s.value.value
                lit = s.value.args[0]
                lit.elts[2].elts[0] = ast.Name(id="s12", ctx=ast.Load())
                return True
        return False
    out.append(witness(".T removed and lower triangle edited", EP, no_T_edit, "R-C17-2"))

    def mises2(tree):
        f = find_func(tree, "mises")
        for n in ast.walk(f):
            if isinstance(n, ast.BinOp) and isinstance(n.op, ast.Mult) and const_value(n.left) == 3:
                n.left = ast.Constant(2)
                return True
        return False
    out.append(witness("3* -> 2* in mises", EP, mises2, "R-C17-3"))

    def mises_term(tree):
        f = find_func(tree, "mises")
        for n in ast.walk(f):
            if isinstance(n, ast.BinOp) and isinstance(n.op, ast.Mult) and norm_text(n) == "s22 * s33":
                n.left = ast.Name(id="s22", ctx=ast.Load())
                n.right = ast.Name(id="s23", ctx=ast.Load())
                return True
            if isinstance(n, ast.BinOp) and isinstance(n.op, ast.Sub) and norm_text(n) == "s22 - s33":
                n.right = ast.Name(id="s23", ctx=ast.Load())
                return True
        return False
    out.append(witness("one normal-stress term of the Mises radicand uses s23 for s33", EP, mises_term, "R-C17-3"))

    def tresca_sq(tree):
        f = find_func(tree, "tresca")
        f.body[-1].value = parse_expr("np.amax(w_diff, axis=0) ** 2")
        return True
    out.append(witness("tresca squared", EP, tresca_sq, "R-C17-4"))

    def sign_scaled(tree):
        f = find_func(tree, "_sign_trace")
        for c in calls_in(f, name="np.sign"):
            return replace_node(c, c.args[0])
        return False
    out.append(witness("sign helper returns the trace itself", EP, sign_scaled, "R-C17-4"))

    def zero_neg(tree):
        f = find_func(tree, "_sign_trace")
        for s in ast.walk(f):
            if isinstance(s, ast.Assign) and isinstance(s.targets[0], ast.Subscript) and const_value(s.value) == 1:
                s.value = parse_expr("-1")
                return True
        return False
    out.append(witness("sgn[sgn==0] = -1", EP, zero_neg, "R-C17-5"))

    def zero_scalar(tree):
        f = find_func(tree, "_sign_trace")
        for s in ast.walk(f):
            if isinstance(s, ast.If) and norm_text(s.test) == "sgn == 0":
                s.body = [ast.Pass()]
                return True
        return False
    out.append(witness("scalar branch keeps sign 0", EP, zero_scalar, "R-C17-5"))

    def zero_absmax(tree):
        f = find_func(tree, "_sign_abs_max_principal")
        for s in f.body:
            if isinstance(s, ast.Assign) and isinstance(s.value, ast.BinOp) and isinstance(s.value.op, ast.Add) and \
                    isinstance(s.targets[0], ast.Name) and s.targets[0].id == "sgn":
                s.value.op = ast.Sub()
                return True
        return False
    out.append(witness("abs-max sign: sgn - zero_bool", EP, zero_absmax, "R-C17-5"))

    def signed_wrong(tree):
        f = find_func(tree, "signed_mises_trace")
        f.body[-1].value.right.func.id = "tresca"
        return True
    out.append(witness("signed_mises_trace multiplies tresca", EP, signed_wrong, "R-C17-5"))

    def tresca_pair(tree):
        f = find_func(tree, "tresca")
        for s in f.body:
            if isinstance(s, ast.Assign) and isinstance(s.targets[0], ast.Subscript) and const_value(s.targets[0].slice) == 1:
                s.value = parse_expr("np.fabs(w[0] - w[1])")
                return True
        return False
    out.append(witness("tresca misses the (0,2) pair", EP, tresca_pair, "R-C17-6"))

    def absmax_strict(tree):
        f = find_func(tree, "abs_max_principal")
        for n in ast.walk(f):
            if isinstance(n, ast.Compare):
                n.ops = [ast.Gt()]
                n.comparators = [ast.Constant(1)]
                return True
        return False
    out.append(witness("abs_max selects w_max only for sign > 1", EP, absmax_strict, "R-C17-6"))

    # twins
    def unused_tri(tree):
        f = find_func(tree, "eigenval")
        lit = [n for n in ast.walk(f) if isinstance(n, ast.List) and len(n.elts) == 3 and isinstance(n.elts[0], ast.List)][0]
        lit.elts[2].elts[0] = ast.Constant(0.0)
        return True
    out.append(twin("ignored triangle entry replaced", EP, unused_tri))

    def mises_pairs(tree):
        f = find_func(tree, "mises")
        sq = [c for c in calls_in(f, name="np.sqrt")][0]
        sq.args[0] = parse_expr("0.5 * ((s11 - s22) ** 2 + (s22 - s33) ** 2 + (s33 - s11) ** 2) + 3 * (s12 ** 2 + s13 ** 2 + s23 ** 2)")
        return True
    out.append(twin("mises written with normal-stress differences", EP, mises_pairs))

    def positional(tree):
        f = find_func(tree, "StressTensorEquistress.tresca")
        c = [c for c in calls_in(f, name="tresca")][0]
        order = {k.arg: k.value for k in c.keywords}
        c.args = [order[p] for p in COMPS]
        c.keywords = []
        return True
    out.append(twin("accessor passes components positionally", EP, positional))
    return out
