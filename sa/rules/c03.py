"""C03 — symmetries of the rainflow result (structural clauses).

R-C03-1 equivariance typing of every data-dependent branch, R-C03-2 NaN
discipline in find_turns, R-C03-3 labelled inputs are never addressed by integer
label.  Not decided: insensitivity to inserted non-reversal samples.
"""
from __future__ import annotations

import ast

from ..astutil import (assigned_targets, call_name, calls_in, const_value, find_func, is_self_attr, names_in, parse_expr,
                       parse_stmt, replace_node, tuple_assign_pairs)
from ..cfg import CFG
from ..frontend import AnalysisError, walk_function, walk_stmts
from ..report import norm_text
from ..witness import witness, twin
from .c02 import kernels, Kernel

LEVEL = "other"
GEN = "pylife.stress.rainflow.general"
EXPLANATION = (
    "Static decision of the symmetry structure behind C03. R-C03-1: every branch condition and comparison in find_turns, "
    "the two Cython kernels and FKMDetector.process is typed in an equivariance lattice (sample S, difference D, |D|, |S|, "
    "D*D, index I, literal 0); a comparison is accepted only if it is invariant under the group the property names - "
    "positive affine maps and negation for the three-/four-point path (|D| vs |D|, D*D vs 0, D ==/!= 0, index vs index), "
    "negation only for the FKM detector (additionally |S| vs |S|). The three-point front guards compare raw samples and are "
    "accepted only as a mirror pair (> / highest and < / lowest are images of each other, every other use of the two indices "
    "is symmetric, argmax/argmin feed the matching kernel parameters). Values stored into cycle outputs must be covariant "
    "(plain samples). R-C03-2: in find_turns a warning is passed on every path that drops samples, the NaN mask is taken "
    "from the original samples, turn values are read from the cleaned samples before the index correction, and the "
    "correction post-dominates the creation of the index array. R-C03-3: a possibly labelled input (pandas Series) is never "
    "addressed with a scalar integer subscript (label based) before array normalisation; branches that no caller can "
    "enable (constant propagation over the complete caller set) are pruned. Not decided: insensitivity to inserted "
    "non-reversal samples (depends on values and on the kept tail).")
EXPLANATION += (' R-C03-4: the carried sample tail is an unfiltered suffix of the analysed samples cut at the last turning point (shared with R-C01-2: its length is the position offset of the next chunk), and no detector re-orders or selects the incoming samples by index label (sort_index, sort_values, reindex, .loc).')
EXPLANATION += (' R-C03-5 (shared with R-C02-8): reversal tests use the signs of the first differences; a product of two raw differences compared with zero underflows for differences below about 1e-162 (type DD of the typing pass; GG = product of two np.sign values is exact). Sign tests that occur as a mirror-complete boolean combination are accepted (evaluated over all sign patterns and their mirror images).')
ASSUMPTIONS = [
    "numpy element-wise arithmetic on floats transforms like real arithmetic under x -> a*x+b, a>0 and x -> -x",
    "slicing a pandas Series with integer slice bounds is positional; a scalar integer subscript is label based",
]

ABSF = ("fabs", "abs", "np.abs", "np.fabs", "numpy.abs", "np.absolute")


class Typer:
    def __init__(self, sample_names=(), index_names=()):
        self.env = {}
        for n in sample_names:
            self.env[n] = "S"
        for n in index_names:
            self.env[n] = "I"
        self.attr = {}
        self.funcs = {}

    def t(self, e):
        if isinstance(e, ast.Constant):
            if isinstance(e.value, bool):
                return "I"
            if isinstance(e.value, (int, float)):
                return "Z" if e.value == 0 else "C"
            return None
        if isinstance(e, ast.Name):
            return self.env.get(e.id)
        if is_self_attr(e):
            return self.attr.get(e.attr)
        if isinstance(e, ast.Subscript):
            b = self.t(e.value)
            return b
        if isinstance(e, ast.Attribute):
            if e.attr in ("size", "shape", "ndim"):
                return "I"
            return None
        if isinstance(e, ast.UnaryOp):
            if isinstance(e.op, ast.Invert) or isinstance(e.op, ast.Not):
                return "I"
            if isinstance(e.op, ast.USub):
                return self.t(e.operand)
            return None
        if isinstance(e, ast.BinOp):
            l, r = self.t(e.left), self.t(e.right)
            if isinstance(e.op, ast.Sub):
                if l == "S" and r == "S":
                    return "D"
                if l == "D" and r == "D":
                    return "D"
                if l in ("I", "C", "Z") and r in ("I", "C", "Z"):
                    return "I"
                return None
            if isinstance(e.op, ast.Add):
                if l in ("I", "C", "Z") and r in ("I", "C", "Z"):
                    return "I"
                if (l, r) in (("D", "D"),):
                    return "D"
                if (l, r) in (("A", "A"),):
                    return "A"
                return None
            if isinstance(e.op, ast.Mult):
                if l == "D" and r == "D":
                    return "DD"
                if l == "G" and r == "G":
                    return "GG"             # product of two signs: -1, 0, +1 exactly
                if l in ("I", "C") and r in ("I", "C"):
                    return "I"
                return None
            if isinstance(e.op, ast.FloorDiv) and l in ("I", "C") and r in ("I", "C"):
                return "I"
            if isinstance(e.op, (ast.BitOr, ast.BitAnd, ast.BitXor)) and l in ("I", "C") and r in ("I", "C"):
                return "I"                  # element-wise and / or of masks (same as np.logical_or / np.logical_and)
            return None
        if isinstance(e, ast.Compare):
            return "I"
        if isinstance(e, ast.BoolOp):
            return "I"
        if isinstance(e, ast.IfExp):
            a, b = self.t(e.body), self.t(e.orelse)
            return a if a == b else None
        if isinstance(e, ast.Tuple):
            return None
        if isinstance(e, ast.Call):
            fn = call_name(e) or ""
            args = [self.t(a) for a in e.args]
            if fn in self.funcs:
                return self.funcs[fn]
            if fn in ("np.isclose", "np.allclose", "numpy.isclose", "math.isclose"):
                return "I"
            if fn in ABSF and len(args) == 1:
                return {"D": "A", "S": "AS", "A": "A", "AS": "AS", "I": "I", "V": "V"}.get(args[0])
            if fn in ("np.diff", "numpy.diff") and args:
                return {"S": "D", "I": "I"}.get(args[0])
            if fn in ("np.sign", "numpy.sign") and len(args) == 1 and args[0] == "D":
                return "G"                  # sign of a difference: antisymmetric under negation, invariant under a > 0, exact
            if fn in ("np.where", "np.nonzero", "np.flatnonzero", "np.argmax", "np.argmin", "len", "np.arange",
                      "np.zeros_like", "np.logical_or", "np.logical_and", "np.logical_not", "pd.isna", "np.isnan",
                      "np.empty", "np.zeros", "np.cumsum", "np.searchsorted", "range"):
                return "I"
            if fn in ("np.array", "np.asarray") and args:
                return args[0]
            if fn in ("max", "_max", "min", "np.maximum", "np.minimum") and len(args) == 2:
                known = [a for a in args if a is not None]
                if known and all(a == known[0] for a in known):
                    # the larger of two signed quantities becomes minus the smaller under negation: not covariant
                    return "V" if known[0] in ("S", "D", "V") else known[0]
                if "V" in known:
                    return "V"
                return None
            if isinstance(e.func, ast.Attribute) and e.func.attr in ("any", "all", "sum", "astype", "copy"):
                b = self.t(e.func.value)
                return "I" if e.func.attr in ("any", "all") else b
            return None
        return None

    def assign(self, s):
        if isinstance(s, ast.Assign):
            for t, v in tuple_assign_pairs(s):
                if isinstance(t, ast.Name):
                    ty = self.t(v)
                    if ty is not None:
                        self.env[t.id] = ty
                elif is_self_attr(t):
                    ty = self.t(v)
                    if ty is not None:
                        self.attr[t.attr] = ty
        elif isinstance(s, ast.AugAssign) and isinstance(s.target, ast.Name):
            pass
        elif isinstance(s, (ast.For,)) and isinstance(s.target, ast.Name):
            ty = self.t(s.iter)
            if ty is not None:
                self.env[s.target.id] = ty


FULL_OK = {("A", "A"), ("DD", "Z"), ("I", "I"), ("I", "Z"), ("Z", "I"), ("Z", "DD"), ("I", "C"), ("C", "I"), ("GG", "Z"), ("Z", "GG")}
NEG_EXTRA = {("AS", "AS")}


TOLERANCE_FUNCS = ("np.isclose", "np.allclose", "numpy.isclose", "math.isclose", "np.round", "np.around", "round", "np.rint",
                   "np.floor", "np.ceil", "np.trunc", "int", "np.fix", "np.sign")
SAMPLE_TYPES = ("S", "D", "A", "AS", "DD", "V")       # (G, GG - signs - are exact and scale free: not listed)


def classify(l, r, op, group):
    pair = (l, r)
    if "V" in pair:
        return "variant"
    if pair in FULL_OK:
        return "invariant"
    if pair in (("D", "Z"), ("Z", "D"), ("G", "Z"), ("Z", "G")):
        return "invariant" if isinstance(op, (ast.Eq, ast.NotEq)) else "antisymmetric"
    if pair in (("G", "G"), ("D", "D")) and isinstance(op, (ast.Eq, ast.NotEq)):
        return "invariant"
    if pair == ("G", "G"):
        return "antisymmetric"
    if pair == ("S", "S"):
        return "antisymmetric" if not isinstance(op, (ast.Eq, ast.NotEq)) else "invariant"
    if group == "negation" and pair in NEG_EXTRA:
        return "invariant"
    if l is None or r is None:
        return "unknown"
    return "variant"


def comparisons(body):
    out = []
    for s in walk_stmts(body):
        tests = []
        if isinstance(s, (ast.If, ast.While)):
            tests.append(s.test)
        elif isinstance(s, (ast.Assign, ast.Expr, ast.Return, ast.AugAssign)):
            v = s.value
            if v is not None:
                tests.append(v)
            for tg in assigned_targets(s):
                if isinstance(tg, ast.Subscript):
                    tests.append(tg.slice)
        for t in tests:
            for n in ast.walk(t):
                if isinstance(n, ast.Compare) and len(n.ops) == 1 and \
                        not isinstance(n.ops[0], (ast.Is, ast.IsNot, ast.In, ast.NotIn)):
                    out.append((s, n))
    return out


def run(ctx):
    ctx.attempt(_r1_typing)
    ctx.attempt(_r2_nan)
    ctx.attempt(_r3_labels)
    ctx.attempt(_r4_positions)
    ctx.attempt(lambda c: sign_tests_exact(c, "R-C03-5"))


def _r4_positions(ctx):
    """Reported indices are positions in the original signal: (a) the carried sample tail is a suffix of the analysed samples,
    cut at the last turning point, with nothing removed from it (its length is the position offset of the next chunk) -
    analysis shared with R-C01-2; (b) a labelled input (pandas Series) is taken positionally: it is never re-ordered or
    selected by label (sort_index, sort_values, reindex, .loc) before it is turned into an array."""
    prog = ctx.prog
    ctx.rule("R-C03-4", floor=5, what="sample tail is an unfiltered suffix (offsets stay positions); labelled input is never re-ordered by label")
    from .c01 import _r2_new_turns_core
    _r2_new_turns_core(ctx, prog)
    dets = prog.subclasses(GEN + ":AbstractDetector")
    helper = prog.func(GEN + ":AbstractDetector._new_turns")
    # (the FKM-nonlinear detector takes (load_step, node_id)-indexed series whose labels carry meaning; it is not in C03's scope)
    fns = [ci.methods["process"][-1] for ci in dets if "process" in ci.methods and ci.name != "FKMNonlinearDetector"] + [helper]
    for fi in fns:
        chunk = [q for q in fi.params if q != "self"][0]
        names = {chunk}
        bad = None
        for st in walk_function(fi.node):
            for c in calls_in(st) if isinstance(st, ast.stmt) else []:
                if isinstance(c.func, ast.Attribute) and c.func.attr in ("sort_index", "sort_values", "reindex", "sample") and \
                        isinstance(c.func.value, ast.Name) and c.func.value.id in names:
                    bad = (st, c)
            for n in ast.walk(st):
                if isinstance(n, ast.Subscript) and isinstance(n.value, ast.Attribute) and n.value.attr == "loc" and \
                        isinstance(n.value.value, ast.Name) and n.value.value.id in names:
                    bad = (st, n)
            if isinstance(st, ast.Assign) and isinstance(st.targets[0], ast.Name) and isinstance(st.value, ast.Name) and st.value.id in names:
                names.add(st.targets[0].id)
        if bad:
            ctx.violated(fi, bad[0], "%s: %s re-orders / selects the incoming samples by their index labels: a Series is to be treated "
                         "exactly like its value array, whatever its index" % (fi.cls.name + "." + fi.name if fi.cls else fi.name,
                                                                              norm_text(bad[1])), text="label order " + norm_text(bad[1])[:60])
        else:
            ctx.holds(fi, fi.node, "%s: incoming samples are not re-ordered or selected by label" %
                      (fi.cls.name + "." + fi.name if fi.cls else fi.name))



def _type_function(ctx, fi, body, typer, group, what, skip=()):
    n = 0
    for _ in range(2):
        for s in walk_stmts(body):
            typer.assign(s)
    anti = []
    unknown = None
    # decisions taken by library predicates instead of comparison operators
    for s in walk_stmts(body):
        if isinstance(s, (ast.FunctionDef, ast.ClassDef)):
            continue
        for c in calls_in(s):
            fn = call_name(c) or ""
            at = [typer.t(a) for a in c.args]
            if fn in TOLERANCE_FUNCS and fn != "np.sign" and group == "affine" and any(a in SAMPLE_TYPES for a in at):
                ctx.violated(fi, s, "%s: %s applies an absolute tolerance / rounding to signal data (%s); the decision changes when "
                             "the signal is scaled, so turning points are lost or invented for small-valued signals" %
                             (what, norm_text(c), ", ".join(str(a) for a in at)), text=norm_text(c))
            elif fn in ("np.where", "np.logical_or", "np.logical_and", "np.logical_not", "np.flatnonzero", "np.nonzero"):
                bad = [a for a, t_ in zip(c.args, at) if t_ != "I"]
                if bad:
                    unknown = unknown or "%s: mask %s passed to %s is not built from typed comparisons" % (
                        fi.key, norm_text(bad[0]), fn)
    for s, c in comparisons(body):
        l, r = typer.t(c.left), typer.t(c.comparators[0])
        k = classify(l, r, c.ops[0], group)
        if k == "invariant":
            if "DD" in (l, r):
                if not hasattr(ctx, "raw_products"):
                    ctx.raw_products = []
                ctx.raw_products.append((fi, s, c, what))
            if (l, r) not in (("I", "I"), ("I", "Z"), ("Z", "I"), ("I", "C"), ("C", "I")):
                n += 1
                ctx.holds(fi, s, "%s: %s compares %s with %s: invariant under %s" % (what, norm_text(c), l, r, group))
        elif k == "antisymmetric":
            anti.append((s, c))
        elif k == "unknown":
            if any(c is x for x in skip):
                continue
            unknown = unknown or "%s: cannot type comparison %s (%s vs %s)" % (fi.key, norm_text(c), l, r)
        else:
            ctx.violated(fi, s, "%s: comparison %s relates %s with %s; that is not invariant under %s of the signal, so the "
                         "detected cycles would change with the transformation" %
                         (what, norm_text(c), l, r, "positive affine maps and negation" if group == "affine" else "negation"))
    # sign-dependent comparisons that occur as a mirror-complete combination ((a > 0) & (b < 0)) | ((a < 0) & (b > 0)) are
    # invariant as a whole: decided by evaluating the boolean expression over all sign patterns of its operands and their mirror
    if anti:
        by_stmt = {}
        for s_, c_ in anti:
            by_stmt.setdefault(id(s_), (s_, []))[1].append(c_)
        anti = []
        for s_, cs in by_stmt.values():
            root = getattr(s_, "test", None) if isinstance(s_, (ast.If, ast.While)) else getattr(s_, "value", None)
            if root is not None and len(cs) > 1 and _negation_invariant(root, cs, typer):
                n += 1
                ctx.holds(fi, s_, "%s: %s is a mirror-complete combination of sign tests: invariant under negation" %
                          (what, norm_text(root)[:80]))
            else:
                anti.extend((s_, c_) for c_ in cs)
    if unknown:
        raise AnalysisError(unknown)
    return anti, n


def _negation_invariant(root, comps, typer):
    """root: boolean expression over comparisons `x <op> 0` (x a difference / sign / sample-pair) combined with & | ~ and or
    not np.logical_*; True if its value is the same for every pattern of signs of the operands and for the mirrored pattern"""
    import itertools
    ops = {}
    for c in comps:
        l, r = c.left, c.comparators[0]
        lt, rt = typer.t(l), typer.t(r)
        if rt == "Z":
            ops[id(c)] = (norm_text(l), type(c.ops[0]), False)
        elif lt == "Z":
            ops[id(c)] = (norm_text(r), type(c.ops[0]), True)
        else:
            return False
    names = sorted({v[0] for v in ops.values()})
    if len(names) > 4:
        return False

    def cmp(op, a, b):
        return {ast.Lt: a < b, ast.LtE: a <= b, ast.Gt: a > b, ast.GtE: a >= b, ast.Eq: a == b, ast.NotEq: a != b}[op]

    def ev(e, val):
        if isinstance(e, ast.Compare) and id(e) in ops:
            nm, op, flipped = ops[id(e)]
            return cmp(op, 0, val[nm]) if flipped else cmp(op, val[nm], 0)
        if isinstance(e, ast.BinOp) and isinstance(e.op, (ast.BitAnd, ast.BitOr)):
            a, b = ev(e.left, val), ev(e.right, val)
            return None if a is None or b is None else ((a and b) if isinstance(e.op, ast.BitAnd) else (a or b))
        if isinstance(e, ast.BoolOp):
            vs = [ev(x, val) for x in e.values]
            return None if any(v is None for v in vs) else (all(vs) if isinstance(e.op, ast.And) else any(vs))
        if isinstance(e, ast.UnaryOp) and isinstance(e.op, (ast.Invert, ast.Not)):
            a = ev(e.operand, val)
            return None if a is None else not a
        if isinstance(e, ast.Call) and call_name(e) in ("np.logical_and", "np.logical_or") and len(e.args) == 2:
            a, b = ev(e.args[0], val), ev(e.args[1], val)
            return None if a is None or b is None else ((a and b) if call_name(e).endswith("and") else (a or b))
        if isinstance(e, ast.Call) and call_name(e) == "np.logical_not" and len(e.args) == 1:
            a = ev(e.args[0], val)
            return None if a is None else not a
        if isinstance(e, ast.Call) and call_name(e) in ("np.array", "np.asarray") and e.args:
            return ev(e.args[0], val)
        return None
    # the outermost boolean sub-expression that contains all the comparisons (the statement may use the mask further)
    want = {id(c) for c in comps}
    zero = {k: 0 for k in names}
    cands = [x for x in ast.walk(root) if want <= {id(y) for y in ast.walk(x)} and ev(x, zero) is not None]
    if not cands:
        return False
    root = cands[0]
    for pattern in itertools.product((-1, 0, 1), repeat=len(names)):
        val = dict(zip(names, pattern))
        a = ev(root, val)
        b = ev(root, {k: -v for k, v in val.items()})
        if a is None or b is None or a != b:
            return False
    return True


MIRROR = {ast.Gt: ast.Lt, ast.Lt: ast.Gt, ast.GtE: ast.LtE, ast.LtE: ast.GtE}


def _r1_typing(ctx):
    prog = ctx.prog
    ctx.rule("R-C03-1", floor=12, what="every data-dependent comparison is invariant under the property's group; outputs covariant; front guards are a mirror pair")
    type_find_turns(ctx)
    _r1_rest(ctx)


def sign_tests_exact(ctx, rule):
    """A reversal is a change of the SIGN of the first differences.  Deciding it with `d1 * d2 < 0` is exact only in real
    arithmetic: the product of two differences below ~1e-162 underflows to (minus) zero and the reversal disappears (and for
    integer samples the product can overflow).  The property holds for every finite signal and every positive scale, so the
    test has to be made on the signs (np.sign(d1) * np.sign(d2) < 0, or two comparisons).  Evaluated on the typed comparisons
    of find_turns and its helpers (type DD = product of two raw differences, GG = product of two signs)."""
    ctx.rule(rule, floor=1, what="reversal tests use the signs of the differences, not the sign of their product (underflow)")
    class _Quiet:                       # the typing pass again, recording nothing but the raw products
        prog = ctx.prog

        def __init__(self):
            self.raw_products = []

        def holds(self, *a, **k):
            pass

        def violated(self, *a, **k):
            pass
    q = _Quiet()
    type_find_turns(q)
    try:
        _r1_rest(q)                     # the compiled kernels and the FKM loop are typed with the same lattice
    except AnalysisError:
        pass                            # (what cannot be typed is R-C03-1's business)
    seen = set()
    n = 0
    for fi, s, c, what in q.raw_products:
        if id(c) in seen:
            continue
        seen.add(id(c))
        n += 1
        ctx.violated(fi, s, "%s: %s decides a reversal by the sign of a product of two differences; for differences below about "
                     "1e-162 the product underflows to zero and the turning point is lost (all turning points of a signal scaled "
                     "by 1e-165 are)" % (what, norm_text(c)), text="raw product " + norm_text(c))
    ft = ctx.prog.func(GEN + ":find_turns")
    if not n:
        ctx.holds(ft, ft.node, "find_turns and its helpers compare no product of raw differences with zero (find_turns, its helpers, the kernels)")


def type_find_turns(ctx):
    """find_turns (incl. nested helpers): shared with C02 (R-C02-4)."""
    prog = ctx.prog
    ft = prog.func(GEN + ":find_turns")
    ty = Typer(sample_names=("samples",))
    bodies = list(ft.node.body)
    nested = [n for n in ft.node.body if isinstance(n, ast.FunctionDef)]
    # private module-level helpers find_turns calls (closures moved out of the function) are typed like the closures
    outer = {}
    for c_ in calls_in(ft.node):
        for k_ in prog.resolve_call(ft, c_):
            h_ = prog.functions.get(k_)
            if h_ is not None and h_.module is ft.module and h_.cls is None and h_.parent is None and h_.name.startswith("_") and \
                    isinstance(h_.node, ast.FunctionDef):
                outer[h_.name] = h_
    nested = nested + [h_.node for h_ in outer.values()]
    # a first pass over the body gives the types of the arguments the helpers are called with
    pre = Typer(sample_names=("samples",))
    for _ in range(2):
        for s_ in walk_stmts([x_ for x_ in ft.node.body if not isinstance(x_, ast.FunctionDef)]):
            pre.assign(s_)
    for nf in nested:
        rets = [s_ for s_ in walk_stmts(nf.body) if isinstance(s_, ast.Return) and s_.value is not None]
        t2 = Typer(sample_names=("samples",))
        if "index" in [a.arg for a in nf.args.args]:
            t2.env["index"] = "I"
            t2.env["nans"] = "I"
        for c_ in calls_in(ft.node):
            if isinstance(c_.func, ast.Name) and c_.func.id == nf.name:
                for a_, v_ in zip(nf.args.args, c_.args):
                    tv = pre.t(v_)
                    if tv is not None and a_.arg not in t2.env:
                        t2.env[a_.arg] = tv
        if "diffs" in [a.arg for a in nf.args.args] and "diffs" not in t2.env:
            t2.env["diffs"] = "D"                  # (call site not typed: the name says what it is)
        fi_n = prog.functions.get(ft.key + "." + nf.name) or outer.get(nf.name)
        anti, n = _type_function(ctx, fi_n or ft, nf.body, t2, "affine", "find_turns." + nf.name)
        rt = {t2.t(r_.value) for r_ in rets if not isinstance(r_.value, ast.Tuple)}
        if len(rt) == 1 and None not in rt:
            ty.funcs[nf.name] = rt.pop()
        for s, c in anti:
            ctx.violated(fi_n or ft, s, "find_turns.%s: comparison %s is sign dependent (not invariant under negation)"
                         % (nf.name, norm_text(c)))
    for st in ft.node.body:
        if isinstance(st, ast.Assign) and isinstance(st.targets[0], ast.Tuple) and isinstance(st.value, ast.Call) and \
                isinstance(st.value.func, ast.Name) and st.value.func.id in [nf.name for nf in nested] and \
                len(st.targets[0].elts) == 2 and isinstance(st.targets[0].elts[1], ast.Name):
            ty.env[st.targets[0].elts[1].id] = "I"      # the NaN mask
    anti, n = _type_function(ctx, ft, [s for s in ft.node.body if not isinstance(s, ast.FunctionDef)], ty, "affine",
                             "find_turns")
    for s, c in anti:
        ctx.violated(ft, s, "find_turns: comparison %s is sign dependent" % norm_text(c))
    # returned values covariant
    ret = [s for s in ft.node.body if isinstance(s, ast.Return)][-1]
    if isinstance(ret.value, ast.Tuple) and len(ret.value.elts) == 2 and ty.t(ret.value.elts[1]) == "S" and \
            ty.t(ret.value.elts[0]) == "I":
        ctx.holds(ft, ret, "find_turns returns (index: I, values: S): covariant")
    else:
        ctx.violated(ft, ret, "find_turns returns %s typed (%s, %s); expected (index, plain sample values)" %
                     (norm_text(ret.value), ty.t(ret.value.elts[0]) if isinstance(ret.value, ast.Tuple) else None,
                      ty.t(ret.value.elts[1]) if isinstance(ret.value, ast.Tuple) else None))



def _r1_rest(ctx):
    prog = ctx.prog
    # ---- kernels
    for k in kernels(prog):
        ty = Typer(sample_names=(k.turns,), index_names=(k.turns_index, k.sp, k.counter, k.rec, "len_turns",
                                                            k.stack, *[p for p in k.fi.params[2:]]))
        for a, b in k.alias.items():
            if b == k.stack:
                ty.env[a] = "I"
        anti, n = _type_function(ctx, k.fi, k.loop.body, ty, "affine", k.fi.name)
        from .c02 import narrow_declarations
        for nm_, ty_ in narrow_declarations(k):
            ctx.violated(k.fi, k.fi.node, "%s: the local %s is declared `cdef %s`: turning-point values are rounded to single precision "
                         "before they are compared, so the closing decisions change when the signal is shifted by a constant or "
                         "scaled (the 7 significant digits kept depend on the level)" % (k.fi.name, nm_.split(".")[-1], ty_),
                         text="narrow declaration %s" % nm_.split(".")[-1])
        # outputs covariant
        for s in walk_stmts(k.loop.body):
            if isinstance(s, ast.Assign) and isinstance(s.targets[0], ast.Subscript) and isinstance(s.targets[0].value, ast.Name) \
                    and k.canon(s.targets[0].value.id) in (k.out_from, k.out_to):
                tv = ty.t(s.value)
                if tv == "S":
                    ctx.holds(k.fi, s, "%s: stored cycle value %s is a plain sample (covariant)" % (k.fi.name, norm_text(s.value)))
                else:
                    ctx.violated(k.fi, s, "%s: stored cycle value %s has type %s; only plain samples transform with the signal"
                                 % (k.fi.name, norm_text(s.value), tv))
        if anti:
            _mirror_pair(ctx, prog, k, anti)
    # _max helper really is max
    mx = prog.functions.get("pylife.stress.rainflow.extension:_max")
    if mx is not None:
        r = [s for s in walk_stmts(mx.node.body) if isinstance(s, ast.Return)]
        ok = False
        a, b = mx.params[0], mx.params[1]
        body = mx.node.body
        # one decision, in any of its spellings: `return X if T else Y`, `if T: return X` + `return Y`, or the builtin
        t = x_ = y_ = None
        if len(body) == 1 and isinstance(body[0], ast.Return) and isinstance(body[0].value, ast.IfExp):
            t, x_, y_ = body[0].value.test, body[0].value.body, body[0].value.orelse
        elif len(body) == 2 and isinstance(body[0], ast.If) and not body[0].orelse and len(body[0].body) == 1 and \
                isinstance(body[0].body[0], ast.Return) and isinstance(body[1], ast.Return):
            t, x_, y_ = body[0].test, body[0].body[0].value, body[1].value
        elif len(body) == 1 and isinstance(body[0], ast.Return) and isinstance(body[0].value, ast.Call) and \
                call_name(body[0].value) in ("max", "fmax") and sorted(norm_text(q) for q in body[0].value.args) == sorted([a, b]):
            ok = True
        if t is not None and isinstance(t, ast.Compare) and len(t.ops) == 1 and isinstance(t.left, ast.Name) and \
                isinstance(t.comparators[0], ast.Name) and isinstance(x_, ast.Name) and isinstance(y_, ast.Name):
            big, small = (t.left.id, t.comparators[0].id) if isinstance(t.ops[0], (ast.Gt, ast.GtE)) else \
                (t.comparators[0].id, t.left.id) if isinstance(t.ops[0], (ast.Lt, ast.LtE)) else (None, None)
            ok = big is not None and x_.id == big and y_.id == small and {big, small} == {a, b}
        if ok:
            ctx.holds(mx, r[0], "_max returns the larger argument (symmetric in its arguments)")
        else:
            ctx.violated(mx, r[0] if r else mx.node, "_max does not return the larger of its two arguments")

    # ---- FKM detector: negation only
    fk = prog.func("pylife.stress.rainflow.fkm:FKMDetector.process")
    ty = Typer()
    for st in walk_stmts(fk.node.body):
        if isinstance(st, ast.Assign) and isinstance(st.targets[0], ast.Tuple) and isinstance(st.value, ast.Call) and \
                isinstance(st.value.func, ast.Attribute) and st.value.func.attr == "_new_turns" and len(st.targets[0].elts) == 2:
            a, b = st.targets[0].elts
            if isinstance(a, ast.Name) and isinstance(b, ast.Name):
                ty.env[a.id] = "I"     # global turn indices
                ty.env[b.id] = "S"     # turning point values
    ty.attr["_residuals"] = "S"
    ty.attr["_ir"] = "I"
    loop = [s for s in fk.node.body if isinstance(s, ast.For)][0]
    for _ in range(2):
        for s in walk_stmts(fk.node.body):
            ty.assign(s)
    anti, n = _type_function(ctx, fk, fk.node.body, ty, "negation", "FKMDetector.process")
    for s, c in anti:
        ctx.violated(fk, s, "FKMDetector.process: comparison %s is sign dependent (not invariant under negation)" % norm_text(c))
    for c in calls_in(loop):
        if isinstance(c.func, ast.Attribute) and c.func.attr == "append" and isinstance(c.func.value, ast.Name) and \
                c.func.value.id in ("from_vals", "to_vals"):
            tv = ty.t(c.args[0])
            if tv == "S":
                ctx.holds(fk, c, "FKM records plain samples (covariant)")
            else:
                ctx.violated(fk, c, "FKM records %s of type %s; only plain samples transform with the signal" %
                             (norm_text(c.args[0]), tv), text=norm_text(c))


class _Quiet:
    def __init__(self, ctx):
        self.prog = ctx.prog
        self.findings = []

    def holds(self, *a, **k):
        pass

    def violated(self, *a, **k):
        pass


def front_extremes(ctx):
    """Three-point front handling only (shared with C02, R-C02-5): the front guards are a mirror pair and the caller feeds
    the first occurrence of the maximum / minimum (np.argmax / np.argmin) of the carried residual."""
    prog = ctx.prog
    n = 0
    for k in kernels(prog):
        ty = Typer(sample_names=(k.turns,), index_names=(k.turns_index, k.sp, k.counter, k.rec, "len_turns",
                                                            k.stack, *[p for p in k.fi.params[2:]]))
        for a, b in k.alias.items():
            if b == k.stack:
                ty.env[a] = "I"
        anti, _ = _type_function(_Quiet(ctx), k.fi, k.loop.body, ty, "affine", k.fi.name)
        if anti:
            _mirror_pair(ctx, prog, k, anti)
            n += 1
    if n == 0:
        raise AnalysisError("no kernel with front guards found")


def _mirror_pair(ctx, prog, k, anti):
    # the antisymmetric comparisons must form one if/elif mirror pair
    stmts = []
    for s, c in anti:
        if isinstance(s, ast.If) and s.test is c:
            stmts.append(s)
        else:
            ctx.violated(k.fi, s, "%s: comparison of raw sample values %s outside a mirrored front guard" %
                         (k.fi.name, norm_text(c)))
    if len(stmts) != 2:
        for s in stmts:
            ctx.violated(k.fi, s, "%s: raw-value comparison %s has no mirror partner" % (k.fi.name, norm_text(s.test)))
        return
    a, b = stmts
    na = [t.id for x in a.body for t in assigned_targets(x) if isinstance(t, ast.Name)]
    nb = [t.id for x in b.body for t in assigned_targets(x) if isinstance(t, ast.Name)]
    if len(na) != 1 or len(nb) != 1 or na[0] == nb[0]:
        raise AnalysisError("%s: front guard bodies not of the form extreme = front" % k.fi.key)
    hi, lo = na[0], nb[0]

    def mirror(node):
        import copy
        from ..astutil import clone
        n = clone(node)
        for x in ast.walk(n):
            if isinstance(x, ast.Name) and x.id in (hi, lo):
                x.id = lo if x.id == hi else hi
            if isinstance(x, ast.Compare):
                x.ops = [MIRROR.get(type(o), type(o))() for o in x.ops]
        return n
    from ..astutil import oriented
    ta = norm_text(oriented(mirror(a.test))) + " : " + "; ".join(norm_text(mirror(x)) for x in a.body)
    tb = norm_text(oriented(b.test)) + " : " + "; ".join(norm_text(x) for x in b.body)
    if ta != tb:
        ctx.violated(k.fi, b, "%s: the two front guards are not mirror images (%s  vs  %s): negating the signal would not "
                     "mirror the result" % (k.fi.name, ta, tb))
        return
    chained = b in a.orelse or a in b.orelse
    # other uses of hi / lo must be symmetric
    bad = None
    for n in ast.walk(k.loop):
        if isinstance(n, ast.Name) and n.id in (hi, lo) and isinstance(n.ctx, ast.Load):
            p = n
            inside_pair = False
            while p is not None and p is not k.loop:
                if p is a.test or p is b.test:
                    inside_pair = True
                p = getattr(p, "_parent", None)
            if inside_pair:
                continue
            par = getattr(n, "_parent", None)
            if isinstance(par, ast.Call) and call_name(par) in ("_max", "max", "min") and \
                    {x.id for x in par.args if isinstance(x, ast.Name)} == {hi, lo}:
                continue
            # start >= lo and start >= hi: two conjuncts of one conjunction that are each other's image under hi <-> lo
            conj = par
            while conj is not None and not (isinstance(conj, ast.BoolOp) and isinstance(conj.op, ast.And)):
                conj = getattr(conj, "_parent", None) if not isinstance(conj, ast.stmt) else None
            if conj is not None:
                texts = {norm_text(oriented(v_)) for v_ in conj.values if any(isinstance(x_, ast.Name) and x_.id in (hi, lo)
                                                                               for x_ in ast.walk(v_))}
                swapped = {t_.replace(hi, "\0").replace(lo, hi).replace("\0", lo) for t_ in texts}
                if texts == swapped:
                    continue
            bad = n
    if bad is not None:
        ctx.violated(k.fi, bad._parent if hasattr(bad, "_parent") else k.loop, "%s: front extreme %s is used asymmetrically "
                     "outside the mirrored guards" % (k.fi.name, bad.id), text="asymmetric use of %s" % bad.id)
        return
    ctx.holds(k.fi, a, "%s: front guards (%s / %s) are a mirror pair; all other uses are symmetric" % (k.fi.name, hi, lo))
    # caller feeds argmax to the '>' role and argmin to the '<' role
    # the extreme whose guard fires when the new value EXCEEDS turns[extreme] tracks the maximum (orientation-free)
    ot = oriented(a.test)                              # L < R
    in_small = hi in {x.id for x in ast.walk(ot.left) if isinstance(x, ast.Name)}
    in_big = hi in {x.id for x in ast.walk(ot.comparators[0]) if isinstance(x, ast.Name)}
    if in_small == in_big:
        raise AnalysisError("%s: front guard %s not understood" % (k.fi.key, norm_text(a.test)))
    gt_role = hi if in_small else lo
    lt_role = lo if gt_role == hi else hi
    params = k.fi.params
    callers = 0
    for key, fi in prog.functions.items():
        for c in calls_in(fi.node):
            if call_name(c) == k.fi.name and fi.module.name != k.fi.module.name:
                callers += 1
                env = {}
                for s in walk_function(fi.node):
                    if isinstance(s, ast.Assign) and isinstance(s.targets[0], ast.Name):
                        env[s.targets[0].id] = s.value
                def src(e):
                    return env.get(e.id, e) if isinstance(e, ast.Name) else e
                ag, al = src(c.args[params.index(gt_role)]), src(c.args[params.index(lt_role)])
                ok = isinstance(ag, ast.Call) and call_name(ag) == "np.argmax" and isinstance(al, ast.Call) and \
                    call_name(al) == "np.argmin" and norm_text(ag.args[0]) == norm_text(al.args[0])
                if ok:
                    ctx.holds(fi, c, "%s receives argmax for the '>' guard and argmin for the '<' guard of the same array"
                              % k.fi.name)
                else:
                    ctx.violated(fi, c, "%s: parameter %s (guarded with >) receives %s and %s (guarded with <) receives %s; "
                                 "they must be argmax/argmin of the same array" %
                                 (k.fi.name, gt_role, norm_text(ag), lt_role, norm_text(al)))
    if callers == 0:
        raise AnalysisError("no caller of %s found" % k.fi.name)


# ----------------------------------------------------------------------------- R-C03-2

def _r2_nan(ctx):
    """find_turns with its helpers expanded (closures, early returns) is read as straight-line code with a few `if`s; every path
    through those `if`s is followed with the branch conditions remembered (a flag that holds the value of an earlier test, a name
    that is None on one arm), so that 'the index is corrected on every path that dropped samples' can be decided although the
    two things sit in different `if`s."""
    prog = ctx.prog
    ctx.rule("R-C03-2", floor=4, what="NaN removal warns; mask from original samples; values before correction; correction on every path that drops samples")
    from ..inline import inlined
    ft0 = prog.func(GEN + ":find_turns")
    ft = inlined(prog, ft0, depth=2)
    p0 = ft0.params[0]
    ISNA = ("pd.isna", "np.isnan", "pd.isnull", "pd.isnull", "np.isnat")
    body = [s_ for s_ in ft.node.body if not isinstance(s_, (ast.FunctionDef, ast.ClassDef))]
    top = [s_ for s_ in walk_stmts(body)]
    masks = [s_ for s_ in top if isinstance(s_, ast.Assign) and len(s_.targets) == 1 and isinstance(s_.targets[0], ast.Name) and
             isinstance(s_.value, ast.Call) and call_name(s_.value) in ISNA]
    if len(masks) != 1:
        raise AnalysisError("find_turns: the statement computing the NaN mask was not found (%d candidates)" % len(masks))
    mask = masks[0]
    mname = mask.targets[0].id
    rets = [s_ for s_ in body if isinstance(s_, ast.Return)]
    if len(rets) != 1 or not isinstance(rets[0].value, ast.Tuple) or len(rets[0].value.elts) != 2 or \
            not isinstance(rets[0].value.elts[0], ast.Name):
        raise AnalysisError("find_turns: return (index, values) not found")
    idx_name = rets[0].value.elts[0].id
    v_elt = rets[0].value.elts[1]
    if isinstance(v_elt, ast.Name):
        val_name = v_elt.id
    elif isinstance(v_elt, ast.Subscript) and isinstance(v_elt.slice, ast.Name) and v_elt.slice.id == idx_name:
        val_name = None                       # the values are read in the return statement itself
    else:
        raise AnalysisError("find_turns: return (index, values) not found")

    def is_not_mask(e, names, env=None):
        if isinstance(e, ast.Name) and env and isinstance(env.get(e.id), ast.AST) and not isinstance(env[e.id], ast.Name):
            return is_not_mask(env[e.id], names)
        if isinstance(e, ast.UnaryOp) and isinstance(e.op, (ast.Invert, ast.Not)):
            return isinstance(e.operand, ast.Name) and e.operand.id in names
        if isinstance(e, ast.Call) and call_name(e) in ("np.logical_not", "np.invert") and len(e.args) == 1:
            return isinstance(e.args[0], ast.Name) and e.args[0].id in names
        return False

    def classify(st, mask_names, sample_names, env):
        """event kinds of a simple statement"""
        ev = []
        if isinstance(st, ast.Expr) and isinstance(st.value, ast.Call) and call_name(st.value) in ("warnings.warn", "warn"):
            ev.append("warn")
        if isinstance(st, ast.Assign):
            for t_, v_ in tuple_assign_pairs(st):
                if isinstance(v_, ast.Subscript) and isinstance(v_.value, ast.Name) and v_.value.id in sample_names and \
                        is_not_mask(v_.slice, mask_names, env):
                    ev.append("filter")
                if isinstance(t_, ast.Name) and t_.id == idx_name:
                    ev.append("index")
                if isinstance(t_, ast.Name) and t_.id == val_name and isinstance(v_, ast.Subscript) and \
                        isinstance(v_.slice, ast.Name) and v_.slice.id == idx_name:
                    ev.append("values")
        if isinstance(st, (ast.For, ast.While)) and any(isinstance(x_, ast.AugAssign) and isinstance(x_.target, ast.Subscript) and
                                                          isinstance(x_.target.value, ast.Name) and x_.target.value.id == idx_name
                                                          for x_ in walk_stmts(st.body)):
            ev.append("correct")
        if isinstance(st, ast.AugAssign) and isinstance(st.target, ast.Name) and st.target.id == idx_name:
            ev.append("index")
        return ev

    paths = []

    def truth(test, env, taken):
        """True / False / None of a branch condition on the current path"""
        txt = norm_text(test)
        if txt in taken:
            return taken[txt]
        if isinstance(test, ast.UnaryOp) and isinstance(test.op, ast.Not):
            v = truth(test.operand, env, taken)
            return None if v is None else not v
        if isinstance(test, ast.Name) and test.id in env:
            d = env[test.id]
            if d is None:
                return None
            if isinstance(d, ast.Constant):
                return bool(d.value)
            return truth(d, env, taken)
        if isinstance(test, ast.Compare) and len(test.ops) == 1 and isinstance(test.ops[0], (ast.Is, ast.IsNot)) and \
                const_value(test.comparators[0]) is None and isinstance(test.comparators[0], ast.Constant) and \
                isinstance(test.left, ast.Name) and test.left.id in env and env[test.left.id] is not None:
            d = env[test.left.id]
            for _ in range(4):
                if isinstance(d, ast.Name) and d.id in env and env[d.id] is not None:
                    d = env[d.id]
            is_none = isinstance(d, ast.Constant) and d.value is None
            if not is_none and isinstance(d, ast.Name):
                return None
            return is_none if isinstance(test.ops[0], ast.Is) else not is_none
        return None

    def walk(stmts, env, taken, events, k):
        if len(paths) > 256:
            raise AnalysisError("find_turns: too many paths")
        for i, st in enumerate(stmts):
            if isinstance(st, ast.If):
                t = truth(st.test, env, taken)
                rest = stmts[i + 1:]
                for arm, val in ((st.body, True), (st.orelse, False)):
                    if t is not None and t != val:
                        continue
                    tk = dict(taken)
                    tk[norm_text(st.test)] = val
                    walk(list(arm) + list(rest), dict(env), tk, list(events), k)
                return
            if isinstance(st, ast.Return):
                if val_name is None:
                    events = events + [("values", st)]
                paths.append(events + [("return", st)])
                return
            if isinstance(st, ast.Raise):
                return
            mask_names = {n_ for n_, d_ in env.items() if n_ == mname or (isinstance(d_, ast.Name) and d_.id == mname)}
            sample_names = {p0} | {n_ for n_, d_ in env.items() if isinstance(d_, ast.Name) and d_.id == p0}
            for e_ in classify(st, mask_names | {mname}, sample_names, env):
                events.append((e_, st))
            if isinstance(st, ast.Assign):
                for t_, v_ in tuple_assign_pairs(st):
                    if isinstance(t_, ast.Name):
                        env[t_.id] = v_
                        for key_ in [k_ for k_ in taken if t_.id in names_in(parse_expr(k_))]:
                            del taken[key_]
            elif isinstance(st, (ast.AugAssign, ast.For, ast.While, ast.With, ast.Try)):
                for n_ in ast.walk(st):
                    if isinstance(n_, ast.Name) and isinstance(n_.ctx, ast.Store):
                        env[n_.id] = None
        paths.append(events + [("end", None)])

    walk(body, {}, {}, [], 0)
    if not paths:
        raise AnalysisError("find_turns: no path to the return found")
    fpaths = [p_ for p_ in paths if any(e_ == "filter" for e_, _ in p_)]
    if not fpaths:
        raise AnalysisError("find_turns: the statement dropping the NaN samples was not found")
    # (1) warn on every path that drops samples
    fst = {id(st): st for p_ in fpaths for e_, st in p_ if e_ == "filter"}
    for st in fst.values():
        mine = [p_ for p_ in fpaths if any(s_ is st for _, s_ in p_)]
        if all(any(e_ == "warn" for e_, _ in p_) for p_ in mine):
            ctx.holds(ft0, st, "every path that drops samples passes warnings.warn (%d path(s))" % len(mine))
        else:
            ctx.violated(ft0, st, "samples are dropped on a path that does not warn")
    # (2) mask from the original samples
    arg = mask.value.args[0] if mask.value.args else None
    pre_defs = [s_ for s_ in top if s_.lineno < mask.lineno and isinstance(s_, ast.Assign) and
                any(isinstance(t_, ast.Name) and t_.id == p0 for t_, _ in tuple_assign_pairs(s_)) and
                not (mask in walk_stmts([s_]))]
    cfg = CFG(ft.node)
    redefined = [s_ for s_ in top if isinstance(s_, ast.Assign) and s_ is not mask and
                 any(isinstance(t_, ast.Name) and t_.id == p0 for t_, _ in tuple_assign_pairs(s_)) and
                 cfg.node(s_) is not None and cfg.node(mask) in cfg.reachable(cfg.node(s_))]
    if isinstance(arg, ast.Name) and arg.id == p0 and not redefined:
        ctx.holds(ft0, mask, "NaN mask computed on the original samples")
    else:
        ctx.violated(ft0, mask, "NaN mask is not computed on the original (uncleaned) samples")
    if not any(any(e_ == "correct" for e_, _ in p_) for p_ in paths):
        return _r2_lookup_idiom(ctx, prog, ft0, rets[0])
    # (3) on every path that dropped samples: index created, values read with it, then corrected
    bad = None
    for p_ in fpaths:
        kinds = [e_ for e_, _ in p_]
        if "index" not in kinds:
            raise AnalysisError("find_turns: creation of the index array not found on a path")
        i_idx = max(i_ for i_, e_ in enumerate(kinds) if e_ == "index")
        if "correct" not in kinds[i_idx:]:
            bad = bad or ("skip", p_)
        elif "values" in kinds and kinds.index("values") > kinds.index("correct", i_idx):
            bad = bad or ("late", p_)
        elif "values" not in kinds:
            raise AnalysisError("find_turns: statement reading the turn values not found")
    cst = next(st for p_ in paths for e_, st in p_ if e_ == "correct")
    if bad and bad[0] == "skip":
        ctx.violated(ft0, cst, "a path that drops NaN samples reaches the return without the NaN index correction after the index "
                     "array was created")
    else:
        ctx.holds(ft0, cst, "index correction lies on every path that dropped samples, behind the creation of the index (%d path(s))"
                  % len(fpaths))
    vst = next((st for p_ in paths for e_, st in p_ if e_ == "values"), None)
    if bad and bad[0] == "late":
        ctx.violated(ft0, vst, "turn values are read after the index was shifted to original positions: they address the "
                     "cleaned array with indices of the original one")
    elif not bad:
        ctx.holds(ft0, vst, "turn values are read with the uncorrected index (positions in the cleaned samples)")
    # the correction loop: for pos in ascending positions of the mask: idx[idx >= pos] += 1
    env = {}
    for s_ in top:
        if isinstance(s_, ast.Assign):
            for t_, v_ in tuple_assign_pairs(s_):
                if isinstance(t_, ast.Name):
                    env.setdefault(t_.id, []).append(v_)

    def resolve(e, depth=0):
        if isinstance(e, ast.Name) and e.id != mname and depth < 5:
            ds = [d_ for d_ in env.get(e.id, []) if not (isinstance(d_, ast.Constant) and d_.value is None)]
            if len(ds) == 1:
                return resolve(ds[0], depth + 1)
        return e
    it = resolve(cst.iter) if isinstance(cst, ast.For) else None
    src = None
    if isinstance(it, ast.Subscript) and const_value(it.slice) == 0 and isinstance(it.value, ast.Call) and \
            call_name(it.value) in ("np.where", "np.nonzero") and len(it.value.args) == 1:
        src = resolve(it.value.args[0])
    elif isinstance(it, ast.Call) and call_name(it) == "np.flatnonzero" and len(it.args) == 1:
        src = resolve(it.args[0])
    if isinstance(src, ast.Name) and src.id == mname:
        ctx.holds(ft0, cst, "correction iterates over the ascending positions of the NaN mask of the cleaning step")
    elif src is not None:
        ctx.violated(ft0, cst, "correction is not given the NaN mask of the cleaning step")
    else:
        raise AnalysisError("find_turns: the positions the index correction iterates over were not recognised")
    aug = [x_ for x_ in walk_stmts(cst.body) if isinstance(x_, ast.AugAssign)]
    ok = False
    if len(aug) == 1 and isinstance(aug[0].target, ast.Subscript) and isinstance(aug[0].op, ast.Add) and \
            const_value(aug[0].value) == 1 and isinstance(cst.target, ast.Name):
        m = aug[0].target.slice
        ok = isinstance(m, ast.Compare) and len(m.ops) == 1 and (
            (isinstance(m.ops[0], ast.GtE) and isinstance(m.left, ast.Name) and m.left.id == idx_name and
             isinstance(m.comparators[0], ast.Name) and m.comparators[0].id == cst.target.id) or
            (isinstance(m.ops[0], ast.LtE) and isinstance(m.comparators[0], ast.Name) and m.comparators[0].id == idx_name and
             isinstance(m.left, ast.Name) and m.left.id == cst.target.id))
    if ok:
        ctx.holds(ft0, aug[0], "indices >= NaN position are shifted by one, NaN positions processed in ascending order")
    elif len(aug) == 1:
        ctx.violated(ft0, aug[0], "index correction is not 'index[index >= nan_pos] += 1'")
    else:
        raise AnalysisError("find_turns: the shifting statement of the index correction was not recognised")


def _r2_lookup_idiom(ctx, prog, ft, ret):
    """Second accepted idiom of the index correction: the indices found in the cleaned samples are looked up in the positions
    of the kept samples, index_out = positions_of_kept[index], positions_of_kept = flatnonzero(~isna(samples)).  Decided on the
    symbolic value find_turns returns.  A returned index that is just the index into the cleaned samples is a violation; any
    other shape is undecided."""
    from ..absint import Interp, TermDomain, Seq, term_walk, term_alternatives
    t = Interp(prog, TermDomain()).run(ft, [("p", q) for q in ft.params])
    alts = [a for a in term_alternatives(t) if isinstance(a, Seq) and len(a) == 2]
    if not alts:
        raise AnalysisError("find_turns: returned (index, values) pair not recognised")
    idx_out, vals = alts[0]
    val_alts = term_alternatives(vals)
    raw = None
    for v in val_alts:
        if isinstance(v, tuple) and len(v) == 3 and v[0] == "at":
            raw = v[2]                      # the index the turn values are read with (positions in the cleaned samples)
    if raw is None:
        raise AnalysisError("find_turns: the statement reading the turn values was not recognised")

    def positions_of_kept(z):
        for a in term_alternatives(z):
            m = None
            if isinstance(a, tuple) and a[0] == "call" and a[1] in ("np.flatnonzero",) and a[2]:
                m = a[2][0]
            elif isinstance(a, tuple) and a[0] == "at" and a[2] == ("c", 0) and isinstance(a[1], tuple) and a[1][0] == "call" and \
                    a[1][1] in ("np.where", "np.nonzero") and a[1][2]:
                m = a[1][2][0]
            if m is not None and isinstance(m, tuple) and m[0] == "u" and m[1] in ("invert", "not") and \
                    isinstance(m[2], tuple) and m[2][0] == "call" and m[2][1] in ("pd.isna", "np.isnan", "pd.isnull") and \
                    m[2][2] == (("p", ft.params[0]),):
                return True
        return False
    mapped = [a for a in term_alternatives(idx_out) if isinstance(a, tuple) and len(a) == 3 and a[0] == "at" and a[2] == raw]
    if mapped and all(positions_of_kept(a[1]) for a in mapped):
        ctx.holds(ft, ret, "index correction by look-up: returned index = positions of the kept samples [index in the cleaned samples]")
        ctx.holds(ft, ret, "the look-up table is flatnonzero(~isna(original samples))")
        ctx.holds(ft, ret, "turn values are read with the uncorrected index (positions in the cleaned samples)")
        return
    if all(a == raw for a in term_alternatives(idx_out)):
        ctx.violated(ft, ret, "turn indices are returned without the NaN index correction", text="missing correction")
        return
    raise AnalysisError("find_turns: the NaN index correction uses an idiom that is not in the accepted table "
                        "(in-place shift per NaN / look-up in the positions of the kept samples)")


# ----------------------------------------------------------------------------- R-C03-3

def _r3_labels(ctx):
    prog = ctx.prog
    ctx.rule("R-C03-3", floor=4, what="possibly labelled input is not addressed by scalar integer label before array normalisation")
    dets = prog.subclasses(GEN + ":AbstractDetector")
    helper = prog.func(GEN + ":AbstractDetector._new_turns")
    # constant propagation over the complete caller set of the private helper
    hparams = [p for p in helper.params if p != "self"]
    defaults = dict(zip(hparams[-len(helper.node.args.defaults):], helper.node.args.defaults)) if helper.node.args.defaults else {}
    callers = []
    for key, fi in prog.functions.items():
        for c in calls_in(fi.node):
            if isinstance(c.func, ast.Attribute) and c.func.attr == helper.name and helper.key in prog.resolve_call(fi, c):
                callers.append((fi, c))
    if not callers:
        raise AnalysisError("no callers of _new_turns")
    always_default = {}
    for p in hparams:
        vals = set()
        for fi, c in callers:
            i = hparams.index(p)
            a = c.args[i] if i < len(c.args) else next((k.value for k in c.keywords if k.arg == p), None)
            if a is None:
                vals.add(("default", const_value(defaults.get(p))))
            else:
                cv = const_value(a)
                if cv is None and isinstance(a, ast.Name):
                    # forwarded parameter of a function without callers that pass it
                    fparams = fi.params
                    if a.id in fparams:
                        inner_callers = [1 for k2, f2 in prog.functions.items() for c2 in calls_in(f2.node)
                                         if isinstance(c2.func, ast.Attribute) and c2.func.attr == fi.name]
                        if not inner_callers:
                            dflt = dict(zip(fparams[-len(fi.node.args.defaults):], fi.node.args.defaults)).get(a.id)
                            vals.add(("default", const_value(dflt)))
                            continue
                    vals.add(("dynamic", norm_text(a)))
                else:
                    vals.add(("const", cv))
        always_default[p] = vals

    def infeasible(test, params_vals, fi=None, depth=0):
        # `if p:` where every caller leaves p at a falsy constant - also when p is re-assigned falsy values only, through
        # locals defined from such a parameter (`flag = p and <anything>`) and through `and` / `or`
        if isinstance(test, ast.Constant):
            return not test.value
        if isinstance(test, ast.BoolOp) and depth < 4:
            parts = [infeasible(v, params_vals, fi, depth + 1) for v in test.values]
            return any(parts) if isinstance(test.op, ast.And) else all(parts)
        if isinstance(test, ast.Name) and depth < 4:
            defs = []
            if fi is not None:
                for s_ in walk_stmts(fi.node.body):
                    if isinstance(s_, ast.Assign) and any(isinstance(t_, ast.Name) and t_.id == test.id for t_ in s_.targets):
                        defs.append(s_.value)
                    elif isinstance(s_, (ast.AugAssign, ast.For, ast.With)) and any(
                            isinstance(n_, ast.Name) and n_.id == test.id and isinstance(n_.ctx, ast.Store) for n_ in ast.walk(s_)):
                        return False
            if test.id in params_vals:
                vs = params_vals[test.id]
                if not all(k in ("default", "const") and not v for k, v in vs):
                    return False
                return all(infeasible(d_, params_vals, fi, depth + 1) for d_ in defs)
            if defs and (fi is None or test.id not in fi.params):
                return all(infeasible(d_, params_vals, fi, depth + 1) for d_ in defs)
        return False

    def int_addressed(fi2):
        """Parameters of an in-package function that are subscripted with something that is neither a slice nor a boolean
        mask: for a pandas Series such an access is label based."""
        masks = set()
        for s_ in walk_stmts(fi2.node.body):
            if isinstance(s_, ast.Assign):
                for t_, v_ in tuple_assign_pairs(s_):
                    if isinstance(t_, ast.Name) and (isinstance(v_, (ast.Compare,)) or (isinstance(v_, ast.Call) and
                                                     (call_name(v_) or "") in ("pd.isna", "np.isnan", "pd.isnull"))):
                        masks.add(t_.id)
        out = set()
        for n_ in ast.walk(fi2.node):
            if isinstance(n_, ast.Subscript) and isinstance(n_.value, ast.Name) and n_.value.id in fi2.params and \
                    isinstance(n_.ctx, ast.Load):
                sl = n_.slice
                if isinstance(sl, ast.Slice) or (isinstance(sl, ast.Tuple) and all(isinstance(e, ast.Slice) for e in sl.elts)):
                    continue
                if isinstance(sl, ast.Compare) or (isinstance(sl, ast.UnaryOp) and isinstance(sl.op, ast.Invert)) or \
                        (isinstance(sl, ast.Name) and sl.id in masks):
                    continue
                out.add(n_.value.id)
        return out

    def scan(fi, body, labelled, pv, what):
        """Forward scan; ``labelled`` (names that may still hold the caller's labelled object) is updated in place; the
        two arms of a branch are joined by union."""
        for s in body:
            if isinstance(s, ast.If):
                if infeasible(s.test, pv, fi):
                    ctx.holds(fi, s, "%s: branch `if %s` pruned: no caller can enable it" % (what, norm_text(s.test)))
                    scan(fi, s.orelse, labelled, pv, what)
                    continue
                a, b = set(labelled), set(labelled)
                scan(fi, s.body, a, pv, what)
                scan(fi, s.orelse, b, pv, what)
                labelled.clear()
                labelled.update(a | b)
                continue
            if isinstance(s, (ast.For, ast.While, ast.With, ast.Try)):
                for sub in ("body", "orelse", "finalbody"):
                    a = set(labelled)
                    scan(fi, getattr(s, sub, []) or [], a, pv, what)
                    labelled.update(a)
                continue
            for n in ast.walk(s):
                if isinstance(n, ast.Subscript) and isinstance(n.value, ast.Name) and n.value.id in labelled and \
                        isinstance(n.ctx, ast.Load):
                    c = const_value(n.slice)
                    if isinstance(c, int) and not isinstance(c, bool):
                        ctx.violated(fi, s, "%s: %s addresses a possibly labelled input by integer label; convert with "
                                     "np.asarray first" % (what, norm_text(n)))
                if isinstance(n, ast.Call):
                    for key in prog.resolve_call(fi, n):
                        callee = prog.functions.get(key)
                        if callee is None or callee.key == helper.key:
                            continue
                        ps = [q for q in callee.params if q != "self"]
                        need = int_addressed(callee)
                        for i, a_ in enumerate(n.args):
                            if isinstance(a_, ast.Name) and a_.id in labelled and i < len(ps) and ps[i] in need:
                                ctx.violated(fi, s, "%s: %s hands a possibly labelled input (pandas Series) to %s, which addresses "
                                             "its parameter %s by integer position arrays; for a Series that access is label "
                                             "based. Convert with np.asarray / np.concatenate on every path first" %
                                             (what, norm_text(n), callee.name, ps[i]), text="labelled into " + callee.name)
            if isinstance(s, ast.Assign):
                for t in s.targets:
                    if isinstance(t, ast.Name):
                        v = s.value
                        norm = isinstance(v, ast.Call) and (call_name(v) in ("np.asarray", "np.array", "np.asanyarray",
                                                                             "np.concatenate", "np.atleast_1d") or
                                                            (isinstance(v.func, ast.Attribute) and v.func.attr in
                                                             ("to_numpy", "flatten", "ravel")))
                        if norm:
                            labelled.discard(t.id)
                        elif isinstance(v, ast.Name) and v.id in labelled:
                            labelled.add(t.id)
                        elif isinstance(v, ast.IfExp) and any(isinstance(x, ast.Name) and x.id in labelled for x in (v.body, v.orelse)):
                            labelled.add(t.id)
                        elif isinstance(v, ast.Subscript) and isinstance(v.value, ast.Name) and v.value.id in labelled:
                            labelled.add(t.id)
                        elif t.id in labelled:
                            labelled.discard(t.id)
    n = 0
    for ci in dets:
        p = ci.methods.get("process")
        if not p:
            continue
        fi = p[-1]
        chunk = [q for q in fi.params if q != "self"][0]
        before = len(ctx.findings)
        scan(fi, fi.node.body, {chunk}, {}, ci.name + ".process")
        if len(ctx.findings) == before:
            ctx.holds(fi, fi.node, "%s.process: no integer-label access to the incoming samples" % ci.name)
        n += 1
    before = len(ctx.findings)
    scan(helper, helper.node.body, {hparams[0]}, always_default, "_new_turns")
    if len(ctx.findings) == before:
        ctx.holds(helper, helper.node, "_new_turns: no reachable integer-label access to the incoming samples",
                  {"callers": len(callers), "param values": {k: sorted(map(str, v)) for k, v in always_default.items()}})


# =========================================================================== variants

PYX = "src/pylife/stress/rainflow/extension.pyx"
GP = "src/pylife/stress/rainflow/general.py"
FK = "src/pylife/stress/rainflow/fkm.py"
TP = "src/pylife/stress/rainflow/threepoint.py"
FP = "src/pylife/stress/rainflow/fourpoint.py"


def variants():
    out = []

    def raw_product(tree):
        f = find_func(tree, "find_turns")
        for st in f.body:
            if isinstance(st, ast.Assign) and isinstance(st.value, ast.Call) and call_name(st.value) == "np.sign" and \
                    isinstance(st.targets[0], ast.Name) and st.targets[0].id == "diffs":
                st.value = st.value.args[0]
                return True
        return False
    out.append(witness("reversal test on the product of the raw differences (underflow)", "src/pylife/stress/rainflow/general.py",
                       raw_product, "R-C03-5"))

    def two_comparisons(tree):
        f = find_func(tree, "find_turns")
        for st in f.body:
            if isinstance(st, ast.Assign) and isinstance(st.targets[0], ast.Name) and st.targets[0].id == "peak_turns":
                st.value = parse_expr("((diffs[:-1] > 0) & (diffs[1:] < 0)) | ((diffs[:-1] < 0) & (diffs[1:] > 0))")
                return True
        return False
    out.append(twin("peak test written as sign comparisons", "src/pylife/stress/rainflow/general.py", two_comparisons))

    def sort_series(tree):
        f = find_func(tree, "FourPointDetector.process")
        i = 1 if isinstance(f.body[0], ast.Expr) and isinstance(f.body[0].value, ast.Constant) else 0
        f.body.insert(i, parse_stmt("if hasattr(samples, 'sort_index'):\n    samples = samples.sort_index()"))
        return True
    out.append(witness("four-point detector sorts a Series by its index", FP, sort_series, "R-C03-4"))

    def tail_without_nans(tree):
        f = find_func(tree, "AbstractDetector._new_turns")
        for i, st in enumerate(f.body):
            if isinstance(st, ast.Assign) and is_self_attr(st.targets[0], "_sample_tail"):
                f.body.insert(i + 1, parse_stmt("self._sample_tail = self._sample_tail[~pd.isna(self._sample_tail)]"))
                return True
        return False
    out.append(witness("NaNs stripped from the carried tail", GP, tail_without_nans, "R-C03-4"))

    def no_concat_when_no_tail(tree):
        f = find_func(tree, "AbstractDetector._new_turns")
        for i, st in enumerate(f.body):
            if isinstance(st, ast.Assign) and isinstance(st.value, ast.Call) and call_name(st.value) == "np.concatenate" and \
                    isinstance(st.targets[0], ast.Name):
                t = st.targets[0].id
                new = parse_stmt("if len(self._sample_tail) > 0:\n    %s = %s\nelse:\n    %s = samples" %
                                 (t, ast.unparse(st.value), t))
                f.body[i] = new
                return True
        return False
    out.append(witness("samples not copied when no tail is pending", "src/pylife/stress/rainflow/general.py",
                       no_concat_when_no_tail, "R-C03-3"))

    def isclose_plateau(tree):
        # (on the signs of the differences np.isclose(sign, 0) would be exact: the tolerance is put on the differences themselves)
        f = find_func(tree, "find_turns")
        for st in f.body:
            if isinstance(st, ast.Assign) and isinstance(st.value, ast.Call) and call_name(st.value) == "np.sign" and \
                    isinstance(st.targets[0], ast.Name) and st.targets[0].id == "diffs":
                d = ast.unparse(st.value.args[0])
                st.value = parse_expr("np.sign(np.where(np.isclose(%s, 0.0), 0.0, %s))" % (d, d))
                return True
        return False
    out.append(witness("plateau detection with np.isclose", "src/pylife/stress/rainflow/general.py", isclose_plateau, "R-C03-1"))

    def abs_of_max(tree):
        f = find_func(tree, "FKMDetector.process")
        for n in ast.walk(f):
            if isinstance(n, ast.BoolOp) and isinstance(n.op, ast.And) and "max_turn" in ast.unparse(n) and "abs" in ast.unparse(n):
                return replace_node(n, parse_expr("np.abs(max(last0, last1)) < max_turn"))
        return False
    out.append(witness("FKM re-check uses abs of max instead of max of abs", "src/pylife/stress/rainflow/fkm.py", abs_of_max, "R-C03-1"))

    def max_of_abs(tree):
        f = find_func(tree, "FKMDetector.process")
        for n in ast.walk(f):
            if isinstance(n, ast.BoolOp) and isinstance(n.op, ast.And) and "max_turn" in ast.unparse(n) and "abs" in ast.unparse(n):
                return replace_node(n, parse_expr("max(np.abs(last0), np.abs(last1)) < max_turn"))
        return False
    out.append(twin("FKM re-check written as max of abs", "src/pylife/stress/rainflow/fkm.py", max_of_abs))

    def abs_dropped(tree):
        f = find_func(tree, "fourpoint_loop")
        for s in ast.walk(f):
            if isinstance(s, ast.Assign) and isinstance(s.targets[0], ast.Name) and s.targets[0].id == "ab":
                s.value = s.value.args[0]
                return True
        return False
    out.append(witness("ab = a - b (abs dropped)", PYX, abs_dropped, "R-C03-1", "fourpoint"))

    def abs_value(tree):
        f = find_func(tree, "fourpoint_loop")
        for s in ast.walk(f):
            if isinstance(s, ast.Assign) and isinstance(s.targets[0], ast.Name) and s.targets[0].id == "cd":
                s.value = parse_expr("fabs(d)")
                return True
        return False
    out.append(witness("cd = |d| (translation variant)", PYX, abs_value, "R-C03-1", "fourpoint"))

    def store_abs(tree):
        f = find_func(tree, "threepoint_loop")
        for s in ast.walk(f):
            if isinstance(s, ast.Assign) and isinstance(s.targets[0], ast.Subscript) and \
                    isinstance(s.targets[0].value, ast.Name) and s.targets[0].value.id == "to_vals_v":
                s.value = parse_expr("fabs(front_val)")
                return True
        return False
    out.append(witness("stored value fabs(front_val)", PYX, store_abs, "R-C03-1", "threepoint"))

    def mirror_broken(tree):
        f = find_func(tree, "threepoint_loop")
        for s in ast.walk(f):
            if isinstance(s, ast.If) and norm_text(s.test) == "front_val < turns[lowest_front]":
                s.test.ops = [ast.LtE()]
                return True
        return False
    out.append(witness("lowest-front guard with <=", PYX, mirror_broken, "R-C03-1", "threepoint"))

    def asym_use(tree):
        f = find_func(tree, "threepoint_loop")
        for c in calls_in(f, name="_max"):
            return replace_node(c, ast.Name(id="highest_front", ctx=ast.Load()))
        return False
    out.append(witness("start >= highest_front only", PYX, asym_use, "R-C03-1", "threepoint"))

    def argswap(tree):
        f = find_func(tree, "ThreePointDetector.process")
        for s in f.body:
            if isinstance(s, ast.Assign) and isinstance(s.targets[0], ast.Name) and s.targets[0].id == "lowest_front":
                s.value.func.attr = "argmax"
                return True
        return False
    out.append(witness("lowest_front = argmax", TP, argswap, "R-C03-1"))

    def peak_sign(tree):
        f = find_func(tree, "find_turns")
        for s in f.body:
            if isinstance(s, ast.Assign) and isinstance(s.targets[0], ast.Name) and s.targets[0].id == "peak_turns":
                s.value = parse_expr("diffs[:-1] > diffs[1:]")
                return True
        return False
    out.append(witness("peak detection by diffs[:-1] > diffs[1:]", GP, peak_sign, "R-C03-1"))

    def fkm_signed(tree):
        f = find_func(tree, "FKMDetector.process")
        for s in ast.walk(f):
            if isinstance(s, ast.If) and norm_text(s.test) == "np.abs(current) > max_turn":
                s.test.left = ast.Name(id="current", ctx=ast.Load())
                return True
        return False
    out.append(witness("FKM compares current (signed) with max_turn", FK, fkm_signed, "R-C03-1"))

    def max_broken(tree):
        f = find_func(tree, "_max")
        f.body[0].value.orelse = ast.Name(id="a", ctx=ast.Load())
        return True
    out.append(witness("_max returns a in both branches", PYX, max_broken, "R-C03-1"))

    def no_warn(tree):
        f = find_func(tree, "find_turns.clean_nans")
        for s in ast.walk(f):
            if isinstance(s, ast.If):
                s.body = [x for x in s.body if not (isinstance(x, ast.Expr) and call_name(x.value) == "warnings.warn")]
                return True
        return False
    out.append(witness("NaNs dropped silently", GP, no_warn, "R-C03-2"))

    def no_correction(tree):
        f = find_func(tree, "find_turns")
        for s in f.body:
            if isinstance(s, ast.Expr) and call_name(s.value) == "correct_turns_by_nans":
                return replace_node(s, ast.Pass())
        return False
    out.append(witness("index correction call deleted", GP, no_correction, "R-C03-2"))

    def cond_correction(tree):
        f = find_func(tree, "find_turns")
        for i, s in enumerate(f.body):
            if isinstance(s, ast.Expr) and call_name(s.value) == "correct_turns_by_nans":
                f.body[i] = ast.If(test=parse_expr("len(index) > 1"), body=[s], orelse=[])
                return True
        return False
    out.append(witness("index correction only for more than one turn", GP, cond_correction, "R-C03-2"))

    def values_after(tree):
        f = find_func(tree, "find_turns")
        v = [s for s in f.body if isinstance(s, ast.Assign) and isinstance(s.targets[0], ast.Name)
             and s.targets[0].id == "turns_values"][0]
        c = [s for s in f.body if isinstance(s, ast.Expr) and call_name(s.value) == "correct_turns_by_nans"][0]
        f.body.remove(v)
        f.body.insert(f.body.index(c) + 1, v)
        return True
    out.append(witness("values read after the index correction", GP, values_after, "R-C03-2"))

    def strict_shift(tree):
        f = find_func(tree, "find_turns.correct_turns_by_nans")
        for s in ast.walk(f):
            if isinstance(s, ast.AugAssign):
                s.target.slice.ops = [ast.Gt()]
                return True
        return False
    out.append(witness("index[index > nan_pos] += 1", GP, strict_shift, "R-C03-2"))

    def fkm_preserve(tree):
        f = find_func(tree, "FKMDetector.process")
        for c in calls_in(f, attr="_new_turns"):
            c.args.append(ast.Constant(True))
            return True
        return False
    out.append(witness("FKM enables preserve_start (samples[0] on a labelled input)", FK, fkm_preserve, "R-C03-3"))

    def label_access(tree):
        f = find_func(tree, "FKMDetector.process")
        f.body.insert(0, parse_stmt("first = samples[0]"))
        return True
    out.append(witness("samples[0] in FKM process", FK, label_access, "R-C03-3"))

    # twins
    def drop_asarray(tree):
        f = find_func(tree, "FourPointDetector.process")
        if isinstance(f.body[0], ast.Assign) and call_name(f.body[0].value) == "np.asarray":
            f.body[0] = ast.Pass()
            return True
        return False
    out.append(twin("np.asarray dropped in four-point process (only positional slices follow)", FP, drop_asarray))

    def peak_reordered(tree):
        f = find_func(tree, "find_turns")
        for s in f.body:
            if isinstance(s, ast.Assign) and isinstance(s.targets[0], ast.Name) and s.targets[0].id == "peak_turns":
                s.value = parse_expr("0.0 > diffs[1:] * diffs[:-1]")
                return True
        return False
    out.append(twin("peak test written as 0 > d[1:]*d[:-1]", GP, peak_reordered))

    def asarray_then_index(tree):
        f = find_func(tree, "FKMDetector.process")
        f.body.insert(0, parse_stmt("arr = np.asarray(samples)"))
        f.body.insert(1, parse_stmt("first = arr[0]"))
        return True
    out.append(twin("integer subscript after np.asarray", FK, asarray_then_index))
    return out
